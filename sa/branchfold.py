"""Branch lookup exactness, folded: Branch.find / has / search, Branch.Index.__init__ / add / copy / select,
Node.__getitem__ and Node.meets are interpreted (minieval) over mock branches large enough for every index key
to come into play (more nodes share the first key's value than the select() cut-off).  For every query mapping
that the closure rules / the model reader build, find() must return a node of the branch that meets the mapping
if and only if a linear scan with the documented `meets` semantics finds one; the same for a copy of the branch
taken before / after further additions (copies are independent)."""
from __future__ import annotations

import ast
import itertools
from collections import defaultdict

from .core import AnalysisError
from .minieval import Interp, Obj, Raised, Raises
from .model import ClassRef, Model

COMMON = 'pytableaux.proof.common'
PROOF = 'pytableaux.proof'


def str_enum(m: Model, modname, qual):
    "members of a `class X(str, Enum)` with constant values (aliases included)"
    cd = m.clsdef(ClassRef(modname, qual))
    out = {}
    for st in cd.body:
        if isinstance(st, ast.Assign) and isinstance(st.value, ast.Constant) and isinstance(st.value.value, str):
            for t in st.targets:
                if isinstance(t, ast.Name):
                    out[t.id] = st.value.value
    if len(out) < 5:
        raise AnalysisError(f'{qual}: members not readable')
    return out


def reference_meets(defaults, node: dict, mapping: dict):
    "documented semantics of Node.meets: every key of the mapping has the same value on the node (absent -> default)"
    for k, v in mapping.items():
        if k in node:
            nv = node[k]
        elif k in defaults:
            nv = defaults[k]
        else:
            return False
        if nv != v:
            return False
    return True


class NodeMock:
    def __init__(self, mp, env):
        self._cov_mapping = dict(mp)
        self._env = env

    def __getitem__(self, k):
        try:
            return self._env.invoke_node('__getitem__', self, k)
        except Raised as e:
            if e.text.startswith('KeyError'):
                raise KeyError(k)
            raise

    def get(self, k, d=None):
        try:
            return self[k]
        except KeyError:
            return d

    def meets(self, mapping):
        return self._env.invoke_node('meets', self, mapping)

    def __getattr__(self, name):
        # any other method of Node (has, any, ...) is the repository's own definition, folded on this mock
        fns = self.__dict__.get('_env').node_fns if '_env' in self.__dict__ else {}
        if name in fns and not name.startswith('__'):
            return lambda *a, **k: self._env.it.call(fns[name], [self, *a], k)
        raise AttributeError(name)

    def __iter__(self):
        return iter(self._cov_mapping)

    def __mock_iter__(self):
        return iter(self._cov_mapping)

    def __len__(self):
        return len(self._cov_mapping)

    def __bool__(self):
        return True

    def __repr__(self):
        return f'<node {self._cov_mapping}>'


class Env:
    def __init__(self, m: Model):
        self.m = m
        self.keys = str_enum(m, PROOF, 'NodeMeta.Key')
        node_cd = m.clsdef(ClassRef(COMMON, 'Node'))
        self.node_fns = {st.name: st for st in node_cd.body if isinstance(st, ast.FunctionDef)}
        br_cd = m.clsdef(ClassRef(COMMON, 'Branch'))
        self.br_fns = {st.name: st for st in br_cd.body if isinstance(st, ast.FunctionDef)}
        idx_cd = next((st for st in br_cd.body if isinstance(st, ast.ClassDef) and st.name == 'Index'), None)
        if idx_cd is None:
            raise AnalysisError('Branch.Index vanished')
        self.idx_fns = {st.name: st for st in idx_cd.body if isinstance(st, ast.FunctionDef)}
        for need, table in (('__getitem__', self.node_fns), ('meets', self.node_fns), ('find', self.br_fns), ('search', self.br_fns),
                            ('has', self.br_fns), ('add', self.idx_fns), ('select', self.idx_fns), ('copy', self.idx_fns),
                            ('__init__', self.idx_fns)):
            if need not in table:
                raise AnalysisError(f'branch lookup: {need} vanished')
        # the last (non-overload) definition of __getitem__
        self.consulted = sorted([m.loc(COMMON, self.node_fns[n]) + f' Node.{n}' for n in ('__getitem__', 'meets')]
                                + [m.loc(COMMON, self.br_fns[n]) + f' Branch.{n}' for n in ('find', 'search', 'has')]
                                + [m.loc(COMMON, self.idx_fns[n]) + f' Branch.Index.{n}' for n in ('__init__', 'add', 'copy', 'select')])
        keyobj = Obj('Key', **self.keys)
        pm_cd = m.clsdef(ClassRef(PROOF, 'NodeMeta.PropMap'))
        it0 = Interp({}, where='proof/__init__.py NodeMeta.PropMap')
        self.defaults = None
        for st in pm_cd.body:
            if isinstance(st, ast.Assign) and isinstance(st.targets[0], ast.Name) and st.targets[0].id == 'Defaults':
                self.defaults = it0.ev(st.value, {})
        if not isinstance(self.defaults, dict):
            raise AnalysisError('NodeMeta.PropMap.Defaults not readable')
        self.NodeNS = Obj('Node', Key=keyobj, PropMap=Obj('PropMap', Defaults=self.defaults))
        self.it = Interp(dict(Node=self.NodeNS, EMPTY_SET=frozenset(), defaultdict=defaultdict, KeyError=KeyError, max=max, map=map,
                              tuple=tuple, len=len), where='proof/common.py Branch lookup')
        # INDEX_KEYS from the class body
        self.index_keys = None
        for st in br_cd.body:
            if isinstance(st, ast.Assign) and isinstance(st.targets[0], ast.Name) and st.targets[0].id == 'INDEX_KEYS':
                self.index_keys = self.it.ev(st.value, {})
        if not self.index_keys:
            raise AnalysisError('Branch.INDEX_KEYS not readable')

    def invoke_node(self, name, node, *args):
        return self.it.call(self.node_fns[name], [node, *args])

    # ---- index ----
    def new_index(self, indexes):
        env = self

        class IndexMock(dict):
            def add(s_, node):
                return env.it.call(env.idx_fns['add'], [s_, node])

            def select(s_, mapping, default):
                return env.it.call(env.idx_fns['select'], [s_, mapping, default])

            def copy(s_):
                old = env.it.g.get('type')
                env.it.g['type'] = lambda x: (lambda ixs: env.new_index(ixs)) if isinstance(x, IndexMock) else type(x)
                try:
                    return env.it.call(env.idx_fns['copy'], [s_])
                finally:
                    env.it.g['type'] = old
        ix = IndexMock()
        self.it.call(self.idx_fns['__init__'], [ix, indexes])
        return ix


class BranchMock:
    def __init__(self, env: Env, index=None, nodes=None):
        self.env = env
        self._index = index if index is not None else env.new_index(env.index_keys)
        self._nodes = list(nodes or [])

    def __iter__(self):
        return iter(self._nodes)

    def __mock_iter__(self):
        return iter(self._nodes)

    def __len__(self):
        return len(self._nodes)

    def add(self, node):
        self._nodes.append(node)
        self._index.add(node)

    def copy(self):
        return BranchMock(self.env, self._index.copy(), self._nodes)

    def search(self, mapping):
        saved, self.env.it.yields = self.env.it.yields, []
        try:
            self.env.it.call(self.env.br_fns['search'], [self, mapping])
            return list(self.env.it.yields)
        finally:
            self.env.it.yields = saved

    def find(self, mapping):
        return self.env.it.call(self.env.br_fns['find'], [self, mapping])

    def has(self, mapping):
        return self.env.it.call(self.env.br_fns['has'], [self, mapping])


def fold_branch_lookup(m: Model, deep=False):
    """-> (results [(ok, case, detail)], consulted)"""
    env = Env(m)
    results = []
    ncut = max(len(env.index_keys), 4) + 2      # more than select()'s cut-off
    S = ('A', '~A', 'B')
    families = {
        'plain': dict(d=(None,), w=(None,)),
        'designation': dict(d=(True, False), w=(None,)),
        'world': dict(d=(None,), w=(0, 1)),
        'designation+world': dict(d=(True, False), w=(0, 1)),
    }

    def mk(s, d, w):
        mp = {'sentence': s}
        if d is not None:
            mp['designated'] = d
        if w is not None:
            mp['world'] = w
        return mp

    def check(br, label, queries, fam_keys):
        for q in queries:
            want = [n for n in br if reference_meets(env.defaults, n._cov_mapping, q)]
            # queries arrive as plain mappings and as nodes made by the node builders (swnode/sdwnode)
            # (as the rules and the model reader do, a node-form query carries the properties of the logic's node family:
            #  a node reads an absent designated/world as None, which select() takes as a value to look up)
            forms = [('mapping', q)]
            if set(q) == fam_keys:
                forms.append(('node', NodeMock(q, env)))
            for form, qq in forms:
                check1(br, label, q, qq, form, want)

    def check1(br, label, q, qq, form, want):
        if True:
            try:
                got = br.find(qq)
                has = br.has(qq)
            except Raised as e:
                got = has = Raises(e.text)
            except (TypeError, KeyError, AttributeError, IndexError, ValueError) as e:
                got = has = Raises(f'{type(e).__name__}: {e}')
            if isinstance(got, Raises):
                ok = False
            elif want:
                ok = got is not None and any(got is n for n in want) and has is True
            else:
                ok = got is None and has is False
            results.append((ok, f'{label}: find({form} {q})',
                            f'find -> {got!r}, has -> {has!r}; a scan of the branch finds {len(want)} matching node(s)'))
    for fam, dom in families.items():
        combos = list(itertools.product(dom['d'], dom['w']))
        fam_keys = set(mk('A', *combos[0]))
        queries = [mk(s, d, w) for s in S for d, w in combos]
        if fam != 'plain':
            queries += [dict(sentence=s) for s in S]
        if 'world' in fam:
            queries += [dict(world1=0, world2=1), dict(world1=1, world2=0), dict(world1=0), dict(world2=1)]
        sizes = (1, ncut) if not deep else (1, 2, ncut, ncut + 3)
        for size in sizes:
            # `size` nodes share sentence A with the first property combination; then one node of each other combination
            for present in ([combos[0]], combos) if len(combos) > 1 else ([combos[0]],):
                br = BranchMock(env)
                for _ in range(size):
                    br.add(NodeMock(mk('A', *combos[0]), env))
                for d, w in present[1:]:
                    br.add(NodeMock(mk('A', d, w), env))
                br.add(NodeMock(mk('B', *combos[-1]), env))
                if 'world' in fam:
                    br.add(NodeMock(dict(world1=0, world2=1), env))
                label = f'{fam} nodes, {size}x A{combos[0]} + {len(present) - 1} other A nodes + B'
                check(br, label, queries, fam_keys)
                # a copy is independent: additions to either side stay there
                cp = br.copy()
                extra = NodeMock(mk('~A', *combos[0]), env)
                cp.add(extra)
                check(cp, label + ' | copy +~A', queries, fam_keys)
                check(br, label + ' | original after the copy grew', queries, fam_keys)
    return results, env.consulted
