"""A structural necessary condition of fair re-application (C02) and of
order-independence (C09): a per-branch counter that is aggregated with min()/max()
over its values must not be *changed by being asked*.  Subscripting a
defaultdict inserts the default, so a query method that reads
`self[branch][key]` silently adds a zero count that the aggregate then sees."""
from __future__ import annotations

import ast

from . import astq
from .model import ClassRef, Model

HELPERS = 'pytableaux.proof.helpers'


def counter_classes(m: Model):
    "helper classes whose per-branch value is a defaultdict and which aggregate over .values()"
    out = []
    for st in m.trees[HELPERS].body:
        if not isinstance(st, ast.ClassDef):
            continue
        ref = ClassRef(HELPERS, st.name)
        raw, owner = m.getraw(ref, 'valuetype')
        vt = astq.u(raw[1]) if raw else ''
        if 'defaultdict' not in vt:
            continue
        aggs = [fn for fn in st.body if isinstance(fn, ast.FunctionDef)
                and any(astq.u(c.func).endswith('.values') for c in astq.calls(fn))]
        out.append((ref, st, vt, aggs))
    return out


def inserting_reads(m: Model):
    """[(class, method, node)] subscript *reads* self[..][..] of a defaultdict-valued, aggregated
    counter inside methods that are not event listeners (listeners legitimately create entries)."""
    out = []
    nclasses = 0
    for ref, cd, vt, aggs in counter_classes(m):
        if not aggs:
            continue
        nclasses += 1
        for fn in cd.body:
            if not isinstance(fn, ast.FunctionDef) or fn.name == 'listen_on':
                continue
            for n in astq.walk_no_nested(fn):
                if isinstance(n, ast.Subscript) and isinstance(n.ctx, ast.Load) and isinstance(n.value, ast.Subscript) \
                        and astq.u(n.value.value) == 'self':
                    out.append((ref, fn, n))
    return out, nclasses
