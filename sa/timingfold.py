"""tools/timing.StopWatch folded as a state machine: every sequence of start / stop / reset / context entry and
exit up to a bound, over a mock clock whose ticks are all different, must leave elapsed_ms() equal to the sum of
the completed intervals since the last reset plus the running one (the quantity Tableau._check_timeout compares
with build_timeout, accumulated over the steps of a build)."""
from __future__ import annotations

import ast
import itertools

from .core import AnalysisError
from .minieval import Interp, Obj, Raised, Raises
from .model import ClassRef, Model

TIMING = 'pytableaux.tools.timing'
OPS = ('start', 'stop', 'reset', '__enter__', '__exit__')


def fold_stopwatch(m: Model, depth=4):
    cd = m.clsdef(ClassRef(TIMING, 'StopWatch'))
    fns = {st.name: st for st in cd.body if isinstance(st, ast.FunctionDef)}
    for need in OPS + ('__init__', 'elapsed_ms'):
        if need not in fns:
            raise AnalysisError(f'StopWatch.{need} vanished')
    consulted = [m.loc(TIMING, fns[n]) + f' StopWatch.{n}' for n in OPS + ('__init__', 'elapsed_ms')]
    results = []
    # a clock whose successive readings differ by distinct powers of two: sums identify the intervals counted
    for seq in itertools.chain.from_iterable(itertools.product(OPS, repeat=r) for r in range(1, depth + 1)):
        clock = [0]
        tick = [1]

        def now():
            clock[0] += tick[0]
            tick[0] *= 2
            return clock[0]
        it = Interp(dict(_nowms=now, IllegalStateError=lambda *a: 'IllegalStateError'), where='tools/timing.py StopWatch')
        sw = Obj('StopWatch')

        def bind(name, sw=sw, it=it):
            return lambda *a: it.call(fns[name], [sw, *a])
        for n in fns:
            if n not in ('running',):
                setattr(sw, n, bind(n))
        it.call(fns['__init__'], [sw])
        # model
        running, start, accum = False, None, 0
        ok, detail = True, ''
        for i, op in enumerate(seq):
            before = clock[0]
            try:
                if op == '__exit__':
                    it.call(fns[op], [sw, None, None, None])
                else:
                    it.call(fns[op], [sw])
                raised = None
            except Raised as e:
                raised = e.text
            except (TypeError, KeyError, AttributeError, IndexError, ValueError) as e:
                raised = f'{type(e).__name__}: {e}'
            t = clock[0]                # the reading the operation took (if it took one)
            want_raise = (op in ('start', '__enter__') and running) or (op == 'stop' and not running)
            if want_raise:
                if raised is None:
                    ok, detail = False, f'step {i} {op}: accepted although the watch was {"running" if running else "stopped"}'
                    break
            else:
                if raised is not None:
                    ok, detail = False, f'step {i} {op}: raises {raised}'
                    break
                if op in ('start', '__enter__'):
                    running, start = True, t
                elif op == 'stop' or (op == '__exit__' and running):
                    running, accum = False, accum + (t - start)
                elif op == 'reset':
                    accum = 0
                    if running:
                        start = t
            # observe
            try:
                got = it.call(fns['elapsed_ms'], [sw])
            except Raised as e:
                got = Raises(e.text)
            except (TypeError, KeyError, AttributeError) as e:
                got = Raises(f'{type(e).__name__}: {e}')
            want = accum + (clock[0] - start if running else 0)
            if got != want or bool(getattr(sw, '_running', None)) != running:
                ok, detail = False, (f'after step {i} ({op}) elapsed_ms() = {got!r}, the intervals run so far sum to {want} '
                                     f'(running={getattr(sw, "_running", None)!r}, expected {running})')
                break
        results.append((ok, ' '.join(seq), detail or 'elapsed_ms() = sum of intervals at every step'))
    return results, consulted
