"""Folds of rules that derive a node from *two* branch nodes (the schema extractor treats one trigger node).
cpl.Rules.IdentityIndiscernability._get_node_targets is interpreted (minieval) over mock branches holding an
identity node and predicate nodes at the same and at other worlds; the yielded targets must be exactly the
substitutions into predicate nodes *at the identity node's world*, each added at that world."""
from __future__ import annotations

import itertools

from . import glue
from .core import AnalysisError
from .minieval import Interp, Obj, Raised, Raises
from .model import Model

CPL = 'pytableaux.logics.cpl'
TOOLS = 'pytableaux.tools'
PROOF = 'pytableaux.proof'


class Pred:
    def __init__(self, name):
        self.name = name

    def __call__(self, params):
        return PSent(self, tuple(params))

    def __repr__(self):
        return self.name


class PSent:
    def __init__(self, predicate, params):
        self.predicate, self.params = predicate, tuple(params)

    def __iter__(self):
        return iter(self.params)

    def __mock_iter__(self):
        return iter(self.params)

    def __len__(self):
        return len(self.params)

    def __getitem__(self, i):
        return self.params[i]

    def __eq__(self, o):
        return isinstance(o, PSent) and (o.predicate, o.params) == (self.predicate, self.params)

    def __hash__(self):
        return hash((self.predicate.name, self.params))

    def __repr__(self):
        return f'{self.predicate.name}{"".join(self.params)}'


def fold_identity_indiscernability(m: Model, deep=False):
    fn = m.func(CPL, 'Rules.IdentityIndiscernability._get_node_targets')
    sub = m.func(TOOLS, 'substitute')
    bit, bfns, keys = glue.builder_interp(m)
    consulted = [m.loc(CPL, fn) + ' IdentityIndiscernability._get_node_targets', m.loc(TOOLS, sub) + ' substitute',
                 m.loc(PROOF, bfns['swnode']) + ' swnode']
    I, F, G = Pred('Identity'), Pred('F'), Pred('G')
    it = Interp(dict(PredNodes='PredNodes', swnode=bit.g['swnode'], group=lambda *a: tuple(a), type=type,
                     adds=lambda *groups, **kw: dict(adds=groups, **kw)), where='logics/cpl.py IdentityIndiscernability')
    it.g['substitute'] = lambda c, old, new: it.call(sub, [c, old, new])
    results = []

    def mknode(s, w):
        n = glue.MockNode('SentenceWorldNode' if w is not None else 'SentenceNode', {'sentence': s} if w is None else {'sentence': s, 'world': w})
        return n

    class N(dict):
        "branch node with Node semantics (identity equality, get with default)"
        __hash__ = lambda s_: id(s_)
        __eq__ = lambda s_, o: s_ is o
        __ne__ = lambda s_, o: s_ is not o

    def node(s, w):
        n = N({'sentence': s})
        if w is not None:
            n['world'] = w
        return n

    class Branch:
        def __init__(self, nodes):
            self.nodes = nodes

        def has(self, mapping):
            for n in self.nodes:
                if all(n.get(k) == v for k, v in dict(mapping).items()) and ('world' in mapping) == ('world' in n):
                    return True
            return False

    def run(idw, ident, preds, label):
        idn = node(I(ident), idw)
        pnodes = [node(s, w) for s, w in preds]
        branch = Branch([idn] + pnodes)

        class Rule(dict):
            predicate = I

            def sentence(self, n):
                return n['sentence']
        rule = Rule()
        rule['PredNodes'] = {branch: [idn] + pnodes}
        try:
            got = it.generate(fn, [rule, idn, branch])
        except Raised as e:
            results.append((False, label, f'raises {e.text}'))
            return
        except (TypeError, KeyError, AttributeError, IndexError, ValueError) as e:
            results.append((False, label, f'raises {type(e).__name__}: {e}'))
            return
        have = set()
        bad = []
        for t in got:
            try:
                (grp,), (n1, n2) = t['adds'], t['nodes']
                (new,) = grp
                have.add((new['sentence'], new.get('world'), id(n2)))
                if n1 is not idn:
                    bad.append('first source node is not the identity node')
            except Exception as e:
                bad.append(f'target shape {t!r}')
        want = set()
        a, b = ident
        if a != b:
            for pn in pnodes:
                if pn.get('world') != idw:
                    continue
                s = pn['sentence']
                if a in s.params:
                    old, new = a, b
                elif b in s.params:
                    old, new = b, a
                else:
                    continue
                params = tuple(new if x == old else x for x in s.params)
                if s.predicate is I and params[0] == params[1]:
                    continue
                ns = s.predicate(params)
                if any(x['sentence'] == ns and x.get('world') == idw for x in branch.nodes):
                    continue
                want.add((ns, idw, id(pn)))
        ok = have == want and not bad

        def show(x):
            return sorted(f'{s}@{w}' for s, w, _ in x)
        results.append((ok, label, f'targets {show(have)}, expected substitutions into same-world predicate nodes only: {show(want)}' + (f'; {bad}' if bad else '')))
    worlds = (None,), (0, 1)
    for ws in worlds:
        for idw in ws:
            others = [w for w in ws]
            for ident in (('a', 'b'), ('a', 'a'), ('b', 'a')):
                pool = [(F(('a',)), w) for w in others] + [(F(('b',)), others[-1])] + [(G(('a', 'c')), others[0])] + [(I(('a', 'c')), others[-1])]
                sizes = range(0, len(pool) + 1) if deep else (1, 2, len(pool))
                for r in sizes:
                    for preds in itertools.combinations(pool, r):
                        label = f'identity {ident[0]}={ident[1]}@{idw} with ' + ', '.join(f'{s}@{w}' for s, w in preds)
                        run(idw, ident, preds, label)
    return results, consulted
