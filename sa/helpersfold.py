"""Inductive-step folds of the rule helpers' event listeners (proof/helpers.py):
what each helper records after one event must be exactly what happened.  The
listener closures are folded (minieval) over mock helpers, nodes and branches."""
from __future__ import annotations

import ast
import itertools

from . import astq
from .closure import node_classes
from .core import AnalysisError
from .minieval import Interp, Obj, Raised, Raises
from .model import ClassRef, Model

HELPERS = 'pytableaux.proof.helpers'
RULES = 'pytableaux.proof.rules'


class Cache(dict):
    "helper instance mock: a dict keyed by branch, with attributes"

    def __init__(self, **kw):
        super().__init__()
        self.__dict__.update(kw)

    def __hash__(self):
        return id(self)


class Br:
    def __init__(self, name, constants=(), ticked=()):
        self.name, self.constants, self.ticked = name, set(constants), set(ticked)

    def is_ticked(self, node):
        return node in self.ticked

    def has(self, mapping):
        return getattr(self, 'has_map', lambda m_: False)(mapping)

    def __bool__(self):
        return True

    def __hash__(self):
        return id(self)

    def __repr__(self):
        return self.name


def listener(m: Model, cls, name):
    fns = dict(astq.all_functions(m.trees[HELPERS]))
    fn = fns.get(f'{cls}.listen_on.<locals>.{name}')
    if fn is None:
        raise AnalysisError(f'{cls}.listen_on: listener {name} vanished')
    return fn


def interp(m, self_, **g):
    classes = node_classes(m)
    keys = Obj('Key', flag='flag', world='world', world1='world1', world2='world2', sentence='sentence')
    NodeC = classes['Node']
    NodeC.Key = keys
    glob = dict(classes)
    glob.update(Node=NodeC, self=self_, KeyError=KeyError)
    glob.update(g)
    return Interp(glob, where='proof/helpers.py listeners'), classes


def mknode(classes, kind, **props):
    n = classes[kind]()
    n.update(props)
    return n


class Sent:
    def __init__(self, consts):
        self.constants = frozenset(consts)


def fold_nodeconsts(m: Model):
    """NodeConsts: after a node arrives, (i) the branch's constant set contains the node's constants, (ii) every tracked
    node's unapplied set gained exactly the constants new to the branch, (iii) a filter-passing node not yet tracked is
    tracked with *all* constants now on the branch (its own included); after_apply discards exactly the applied constant."""
    fn = listener(m, 'NodeConsts', 'after_node_add')
    fa = listener(m, 'NodeConsts', 'after_apply')
    out = []
    U = ('a', 'b', 'c')
    for known in ((), ('a',), ('a', 'b')):
        for newc in ((), ('a',), ('c',), ('a', 'c'), ('b', 'c')):
            for passes in (True, False):
                for has_sentence in (True, False):
                    br = Br('b')
                    old1, old2 = Obj('old1'), Obj('old2')
                    self_ = Cache(consts={br: set(known)}, filter=lambda node, branch: passes)
                    self_[br] = {old1: set(known), old2: set()}
                    it, classes = interp(m, self_)
                    node = mknode(classes, 'SentenceNode', sentence=Sent(newc)) if has_sentence else mknode(classes, 'AccessNode', world1=0, world2=1)
                    r = it.safe(fn, [node, br])
                    fresh = set(newc) - set(known) if has_sentence else set()
                    want_consts = set(known) | fresh
                    case = f'branch constants {sorted(known)}, arriving sentence constants {sorted(newc) if has_sentence else None}, filter passes={passes}'
                    probs = []
                    if isinstance(r, Raises):
                        probs.append(f'raises {r.text}')
                    else:
                        if self_.consts[br] != want_consts:
                            probs.append(f'branch constant set is {sorted(self_.consts[br])}, expected {sorted(want_consts)}')
                        if self_[br].get(old1) != set(known) | fresh or self_[br].get(old2) != fresh:
                            probs.append(f'tracked nodes got {sorted(self_[br].get(old1, ()))} / {sorted(self_[br].get(old2, ()))}, expected the new constants {sorted(fresh)} added to each')
                        if passes:
                            if self_[br].get(node) != want_consts:
                                probs.append(f'the arriving node is tracked with {sorted(self_[br].get(node, ())) if node in self_[br] else None}, '
                                             f'expected every constant now on the branch {sorted(want_consts)} (its own included)')
                        elif node in self_[br]:
                            probs.append('a node that does not pass the rule filter is tracked')
                    out.append((not probs, case, '; '.join(probs) or 'ok'))
    # after_apply
    br = Br('b')
    n1 = Obj('n1')
    self_ = Cache()
    self_[br] = {n1: {'a', 'b'}}
    it, classes = interp(m, self_)

    class T(dict):
        pass
    t = T(flag=None)
    t.branch, t.node, t.constant = br, n1, 'a'
    r = it.safe(fa, [t])
    out.append((not isinstance(r, Raises) and self_[br][n1] == {'b'}, 'after_apply(constant a)', f'unapplied set now {sorted(self_[br][n1])}, expected [b]'))
    t2 = T(flag='quit')
    t2.branch, t2.node, t2.constant = br, n1, 'b'
    r = it.safe(fa, [t2])
    out.append((not isinstance(r, Raises) and self_[br][n1] == {'b'}, 'after_apply(flag target)', f'unapplied set {sorted(self_[br][n1])} must be untouched by a flag target'))
    return out, [f'{m.loc(HELPERS, fn)} NodeConsts.after_node_add', f'{m.loc(HELPERS, fa)} NodeConsts.after_apply']


def fold_extended_quantifier_targets(m: Model):
    """ExtendedQuantifierRule._get_node_targets: one target per unapplied constant; with no constant on the branch at
    all, the first constant; nothing when constants exist and all were applied."""
    fn = m.func(RULES, 'ExtendedQuantifierRule._get_node_targets')
    out = []
    for unapplied, bconsts in (((), ()), (('a',), ('a',)), (('a', 'b'), ('a', 'b')), ((), ('a',))):
        br = Br('b', constants=bconsts)
        br.all = lambda nodes: False
        node = Obj('node')
        nc = {br: {node: set(unapplied)}}

        class Rule(dict):
            pass
        rule = Rule()
        rule['NodeConsts'] = nc
        rule._get_constant_nodes = lambda node_, c, branch: [('inst', c)]
        from collections import deque
        it = Interp(dict(NodeConsts='NodeConsts', FIRST_CONST_SET=frozenset({'FIRST'}), deque=deque,
                         Target=lambda d, **kw: dict(d, **kw), adds=lambda *groups, **kw: dict(adds=groups, **kw)), where='ExtendedQuantifierRule._get_node_targets')
        r = it.generate(fn, [rule, node, br])
        got = sorted(t.get('constant') for t in r)
        want = sorted(unapplied) if unapplied else (['FIRST'] if not bconsts else [])
        ok = got == want and all(list(t['adds'][0]) == [('inst', t['constant'])] for t in r)
        out.append((ok, f'unapplied={sorted(unapplied)} branch constants={sorted(bconsts)}', f'targets for constants {got}, expected {want}'))
    return out, [f'{m.loc(RULES, fn)} ExtendedQuantifierRule._get_node_targets']


def fold_filter_cache(m: Model):
    """FilterNodeCache: a node is a candidate iff it passes the filter (and is not ticked when ignore_ticked);
    ticking removes it."""
    fadd = listener(m, 'FilterNodeCache', 'after_node_add')
    ftick = listener(m, 'FilterNodeCache', 'after_node_tick')
    fcall = m.func(HELPERS, 'FilterNodeCache.__call__')
    fh = m.func(HELPERS, 'FilterHelper.__call__')
    out = []
    for passes, ticked, ignore in itertools.product((True, False), repeat=3):
        br = Br('b')
        node = Obj('node')
        if ticked:
            br.ticked.add(node)
        self_ = Cache(config=Obj('config', ignore_ticked=ignore, pred=lambda n: passes))
        self_[br] = set()
        it, classes = interp(m, self_)
        sup = Obj('super')
        sup.__class__ = type('Sup', (Obj,), {'__call__': lambda s_, n, b: it.call(fcall, [self_, n, b])})
        it.g['super'] = lambda: sup
        self_.__class__ = type('FH', (Cache,), {'__call__': lambda s_, n, b: it.call(fh, [s_, n, b])})
        r = it.safe(fadd, [node, br])
        want = passes and not (ignore and ticked)
        ok = not isinstance(r, Raises) and (node in self_[br]) == want
        out.append((ok, f'filter passes={passes} node ticked={ticked} ignore_ticked={ignore}', f'candidate set {"contains" if node in self_[br] else "lacks"} the node, expected {"contains" if want else "lacks"}'))
    br = Br('b')
    node = Obj('node')
    self_ = Cache()
    self_[br] = {node, 'other'}
    it, classes = interp(m, self_)
    r = it.safe(ftick, [node, br])
    out.append((not isinstance(r, Raises) and self_[br] == {'other'}, 'after_node_tick', f'candidate set {self_[br]}'))
    return out, [f'{m.loc(HELPERS, fadd)} FilterNodeCache.after_node_add', f'{m.loc(HELPERS, fh)} FilterHelper.__call__']


def fold_world_index(m: Model):
    """WorldIndex: after an access node <w1,w2> arrives, w2 is visible from w1 and nothing else changed;
    has() and intransitives() answer from that index."""
    fadd = listener(m, 'WorldIndex', 'after_node_add')
    fhas = m.func(HELPERS, 'WorldIndex.has')
    fint = m.func(HELPERS, 'WorldIndex.intransitives')
    import collections
    out = []
    br = Br('b')
    self_ = Cache()
    self_[br] = collections.defaultdict(set, {0: {1}})
    it, classes = interp(m, self_, AccessNode=None, filterfalse=lambda f, x: tuple(itertools.filterfalse(f, x)))
    it.g['AccessNode'] = classes['AccessNode']
    acc = mknode(classes, 'AccessNode', world1=1, world2=2)
    r = it.safe(fadd, [acc, br])
    ok = not isinstance(r, Raises) and dict(self_[br]) == {0: {1}, 1: {2}}
    out.append((ok, 'access node <1,2> arrives', f'index {dict(self_[br])}, expected {{0: {{1}}, 1: {{2}}}}'))
    sn = mknode(classes, 'SentenceWorldNode', sentence='S', world=5)
    r = it.safe(fadd, [sn, br])
    out.append((not isinstance(r, Raises) and dict(self_[br]) == {0: {1}, 1: {2}}, 'sentence node arrives', f'index {dict(self_[br])} must be unchanged'))
    self_[br] = collections.defaultdict(set, {0: {1, 3}, 1: {2, 3}})
    for pair, want in (((0, 1), True), ((1, 0), False), ((0, 2), False)):
        r = it.safe(fhas, [self_, br, pair])
        out.append((r is want or r == want, f'has{pair}', f'{r!r}, expected {want}'))
    r = it.safe(fint, [self_, br, (0, 1)])
    got = sorted(r) if not isinstance(r, Raises) else r
    out.append((got == [2], 'intransitives((0,1)) with 0->{1,3}, 1->{2,3}', f'{got}, expected [2] (seen by 1 and not by 0)'))
    return out, [f'{m.loc(HELPERS, fadd)} WorldIndex.after_node_add', f'{m.loc(HELPERS, fint)} WorldIndex.intransitives']


def fold_unserial(m: Model):
    """UnserialWorlds: after a node arrives, each of its worlds w is listed iff no access node <w, _> is on the branch."""
    fadd = listener(m, 'UnserialWorlds', 'after_node_add')
    out = []
    for kind, props, sees, want in (
            ('SentenceWorldNode', dict(sentence='S', world=4), set(), {4}),
            ('SentenceWorldNode', dict(sentence='S', world=4), {4}, set()),
            ('AccessNode', dict(world1=1, world2=2), {1}, {2}),
            ('AccessNode', dict(world1=1, world2=1), {1}, set())):
        br = Br('b')
        br.has_map = lambda mp, sees=sees: mp.get('world1') in sees
        self_ = Cache()
        self_[br] = {1} if kind == 'AccessNode' else set()
        it, classes = interp(m, self_)
        node = mknode(classes, kind, **props)
        r = it.safe(fadd, [node, br])
        ok = not isinstance(r, Raises) and self_[br] == want
        out.append((ok, f'{kind} {props}, worlds that already see something: {sorted(sees)}', f'unserial worlds {sorted(self_[br])}, expected {sorted(want)}'))
    return out, [f'{m.loc(HELPERS, fadd)} UnserialWorlds.after_node_add']


def fold_branch_value_hook(m: Model):
    """BranchValueHook (closure targets): every arriving node is offered to the hook until a value is cached;
    the first truthy value is kept."""
    fadd = listener(m, 'BranchValueHook', 'after_node_add')
    out = []
    for cached, hookval in itertools.product((None, 'OLD'), (None, 'NEW')):
        br = Br('b')
        calls = []
        self_ = Cache(hook=lambda node, branch: (calls.append(node), hookval)[1])
        self_[br] = cached
        it, classes = interp(m, self_)
        r = it.safe(fadd, ['NODE', br])
        want = cached or hookval
        ok = not isinstance(r, Raises) and self_[br] == want and (calls == [] if cached else calls == ['NODE'])
        out.append((ok, f'cached={cached} hook returns {hookval}', f'cache {self_[br]!r} (expected {want!r}), hook calls {calls}'))
    return out, [f'{m.loc(HELPERS, fadd)} BranchValueHook.after_node_add']


def fold_counts(m: Model):
    """NodeCount / NodesWorlds / AplSentCount after_apply: exactly the applied (node / node,world / sentence,designation) is counted;
    isleast compares with the minimum over recorded counts and does not change them."""
    import collections
    out = []

    class T(dict):
        pass
    for cls, attrs, check in (
            ('NodeCount', dict(node='N'), lambda c: dict(c) == {'N': 1}),
            ('NodesWorlds', dict(node='N', world=3), lambda c: c == {('N', 3)}),
            ('AplSentCount', dict(sentence='S', designated=True), lambda c: dict(c) == {('S', True): 1})):
        fa = listener(m, cls, 'after_apply')
        for flag in (None, 'quit'):
            br = Br('b')
            self_ = Cache()
            self_[br] = set() if cls == 'NodesWorlds' else collections.defaultdict(int)
            it, classes = interp(m, self_)
            t = T(flag=flag)
            t.branch = br
            for k, v in attrs.items():
                setattr(t, k, v)
            r = it.safe(fa, [t])
            ok = not isinstance(r, Raises) and (check(self_[br]) if flag is None else not self_[br])
            out.append((ok, f'{cls}.after_apply flag={flag}', f'recorded {dict(self_[br]) if isinstance(self_[br], dict) else self_[br]}'))
    # isleast
    fmin, fleast = m.func(HELPERS, 'NodeCount.min'), m.func(HELPERS, 'NodeCount.isleast')
    for counts, node, want in (({'A': 1, 'B': 2}, 'A', True), ({'A': 1, 'B': 2}, 'B', False), ({'A': 1}, 'C', True), ({}, 'C', True), ({'A': 0, 'B': 1}, 'B', False)):
        br = Br('b')
        self_ = Cache()
        self_[br] = collections.defaultdict(int, counts)
        it, classes = interp(m, self_, minfloor=lambda floor, it_, default=None: min(list(it_), default=default))
        self_.min = lambda b: it.call(fmin, [self_, b])
        r = it.safe(fleast, [self_, node, br])
        ok = r is want and dict(self_[br]) == counts
        out.append((ok, f'isleast({node}) with counts {counts}', f'{r!r} (expected {want}); counts afterwards {dict(self_[br])} (must be unchanged)'))
    return out, [f'{m.loc(HELPERS, fleast)} NodeCount.isleast']


def fold_serial_rule(m: Model):
    """access.Serial._get_targets (+ _should_apply) folded: unless the world limit is exceeded, every world that has no
    successor *and carries a sentence node* is offered a target <w, fresh world>, whatever rule was applied last and on
    whichever branch (a world left unserial keeps its box-type nodes uninstantiated: the branch would finish open and
    unsaturated); worlds that already see something are not offered."""
    RULES = 'pytableaux.proof.rules'
    fg = m.func(RULES, 'access.Serial._get_targets')
    try:
        fs = m.func(RULES, 'access.Serial._should_apply')
    except Exception:
        fs = None
    out = []

    class Entry:
        def __init__(self, rule, branch):
            self.rule, self.target = rule, Obj('target', branch=branch)

    class T(dict):
        pass
    for unserial, populated, last, exceeded in itertools.product(
            (frozenset(), frozenset({1}), frozenset({1, 2}), frozenset({2, 3})), (frozenset({0, 1, 2}), frozenset({0, 2}), frozenset({0, 1, 2, 3})),
            ('none', 'serial-same-branch', 'serial-other-branch', 'other-rule'), (False, True)):
        br, other = Br('b'), Br('other')
        br.has_map = lambda mp, populated=populated: ('world' in mp and mp['world'] in populated) if set(mp) == {'world'} else False
        br.new_world = lambda: 9
        br.worlds = frozenset(populated | unserial)
        rule = Cache(__srcclass__=(m, ClassRef(RULES, 'access.Serial')))     # helper methods the producer may be split into resolve through the class
        rule['UnserialWorlds'] = {br: set(unserial)}
        rule['MaxWorlds'] = Obj('MaxWorlds', is_exceeded=lambda b, exceeded=exceeded: exceeded, is_reached=lambda b, exceeded=exceeded: exceeded)
        hist = {'none': [], 'serial-same-branch': [Entry('OTHER', br), Entry(rule, br)], 'serial-other-branch': [Entry(rule, other)],
                'other-rule': [Entry(rule, br), Entry('OTHER', br)]}[last]
        rule.tableau = Obj('tableau', history=hist)
        it, classes = interp(m, rule, UnserialWorlds='UnserialWorlds', MaxWorlds='MaxWorlds', StopIteration=StopIteration,
                             Target=lambda *a, **kw: T(dict(a[0]) if a else {}, **kw), adds=lambda *groups, **kw: dict(adds=groups, **kw),
                             group=lambda *a: tuple(a), anode=lambda w1, w2: ('access', w1, w2), reversed=lambda x: iter(list(reversed(x))))
        if fs is not None:
            rule._should_apply = lambda b: it.call(fs, [rule, b])
        try:
            got = it.generate(fg, [rule, br])
            offered = sorted(t['adds'][0][0][1] for t in got)
            bad = [t for t in got if t['adds'][0][0][2] != 9 or t.get('branch') is not br]
        except Raised as e:
            got, offered, bad = None, f'raises {e.text}', []
        except (TypeError, KeyError, AttributeError, IndexError, ValueError) as e:
            got, offered, bad = None, f'raises {type(e).__name__}: {e}', []
        must = sorted(unserial & populated) if not exceeded else []
        may = sorted(unserial) if not exceeded else []
        ok = got is not None and not bad and set(must) <= set(offered) <= set(may)
        out.append((ok, f'worlds without successor {sorted(unserial)}, worlds with sentence nodes {sorted(populated)}, last history entry: {last}, world limit exceeded: {exceeded}',
                    f'targets offered for worlds {offered}; required {must} (every unserial world that carries sentences), allowed {may}'
                    + ('; a target does not use branch.new_world() on this branch' if bad else '')))
    return out, [f'{m.loc(RULES, fg)} access.Serial._get_targets'] + ([f'{m.loc(RULES, fs)} access.Serial._should_apply'] if fs is not None else [])


def fold_limit_guards(m: Model, lgs):
    """A rule may stop offering targets because a world / constant limit is passed only in states in which a quit flag
    is (or has been) put on the branch -- otherwise the branch ends open, unsaturated and looking limit-free.
    The limit predicates (MaxWorlds / MaxConsts .is_reached / .is_exceeded) and every guarded target producer are folded
    (MRO-bound rule mocks, the real predicates) over branch sizes below / at / above the limit:
        suppressed(size, limit)  =>  flagged(size, limit)
    where flagged is what the quit-flag emitters (ModalOperatorRule / NarrowQuantifierRule) do at that size."""
    from .bind import bound_class
    from .model import ClassRef
    RULES = 'pytableaux.proof.rules'
    out, consulted = [], set()
    LIMIT = 3

    def env():
        it = Interp(dict(MaxWorlds='MaxWorlds', MaxConsts='MaxConsts', QuitFlag='QuitFlag', FilterHelper='FilterHelper', WorldIndex='WorldIndex',
                         UnserialWorlds='UnserialWorlds', NodeCount='NodeCount', AdzHelper='AdzHelper',
                         Target=lambda *a, **kw: dict(dict(a[0]) if a else {}, **kw), adds=lambda *groups, **kw: dict(adds=groups, **kw),
                         group=lambda *a: tuple(a), anode=lambda w1, w2: ('access', w1, w2), EMPTY_SET=frozenset(), StopIteration=StopIteration,
                         reversed=lambda x: iter(list(reversed(x)))), where='proof/rules.py limit guards')
        keys = Obj('Key', flag='flag', world='world', world1='world1', world2='world2', sentence='sentence')
        it.g['Node'] = Obj('Node', Key=keys)
        return it

    def helper(it, clsname, size):
        "a MaxWorlds / MaxConsts instance with the real predicates, holding `size` worlds/constants against LIMIT"
        H = bound_class(m, it, ClassRef(HELPERS, clsname), base=dict, consulted=consulted,
                        exclude=('quit_flag', 'listen_on', '__init__', 'get', 'copy', '__getitem__', '__setitem__', '__contains__', '__iter__', '__len__'))
        h = H()
        h['ORIGIN'] = LIMIT
        h.wconsts = {None: None}
        h.quit_flag = lambda branch: {'flag': 'quit', 'is_flag': True}
        return h

    class B:
        origin = 'ORIGIN'

        def __init__(self, size, populated=True):
            self.worlds = set(range(size))
            self.populated = populated

        def has(self, mp):
            return self.populated

        def new_world(self):
            return 99

        def __hash__(self):
            return 1

        def __eq__(self, o):
            return self is o

    def make_rule(it, clsref, size, flagged_already, helpername):
        def getitem(s_, k):
            return s_._helpers[k]
        stub = lambda s_, node, branch: iter(['TARGET'])
        R = bound_class(m, it, clsref, consulted=consulted,
                        extra_ns=dict(__getitem__=getitem, _get_node_targets=stub))
        r = R()
        b = B(size)
        h = helper(it, helpername, size)
        if helpername == 'MaxConsts':
            h.wconsts = {b: {0: set(range(size))}}
        r._helpers = {helpername: h, 'QuitFlag': {b: flagged_already}, 'FilterHelper': Obj('FH', release=lambda n, br: None),
                      'UnserialWorlds': {b: {1}}, 'WorldIndex': Obj('WI')}
        r.tableau = Obj('tableau', history=[])
        return r, b
    node = {'world': 0}

    class NodeM(dict):
        pass
    node = NodeM(world=0)
    # flag emitters and silent suppressors
    emitters = [(ClassRef(RULES, 'ModalOperatorRule'), 'MaxWorlds'), (ClassRef(RULES, 'NarrowQuantifierRule'), 'MaxConsts')]
    suppressors = [(ClassRef(RULES, 'AccessNodeRule'), 'MaxWorlds'), (ClassRef(RULES, 'access.Serial'), 'MaxWorlds')]
    table = {}
    for clsref, hname in emitters + suppressors:
        for size in (LIMIT - 1, LIMIT, LIMIT + 1):
            for already in (False, True):
                it = env()
                try:
                    r, b = make_rule(it, clsref, size, already, hname)
                    if clsref.qualname == 'access.Serial':
                        got = list(r._get_targets(b))
                    else:
                        got = list(r._get_targets(node, b))
                    err = None
                except Raised as e:
                    got, err = None, e.text
                except (TypeError, KeyError, AttributeError, IndexError, ValueError) as e:
                    got, err = None, f'{type(e).__name__}: {e}'
                table[clsref.qualname, size, already] = (got, err)
    for clsref, hname in emitters:
        for size in (LIMIT - 1, LIMIT, LIMIT + 1):
            got, err = table[clsref.qualname, size, False]
            got2, err2 = table[clsref.qualname, size, True]
            case = f'{clsref.qualname}: {size} of {LIMIT} {"worlds" if hname == "MaxWorlds" else "constants"}'
            if err or err2:
                out.append((False, case, f'raises {err or err2}'))
                continue
            normal = got == ['TARGET']
            flag = len(got) == 1 and isinstance(got[0], dict) and got[0].get('flag') == 'quit'
            ok = (normal or flag) and (got2 == ['TARGET'] if normal else got2 == [])
            show = lambda ts: [('a quit-flag target' if isinstance(t, dict) and t.get('flag') == 'quit' else t if isinstance(t, str) else 'a target') for t in ts]
            out.append((ok, case, f'with no flag yet it offers {show(got)}, with a flag already on the branch {show(got2)}; expected either the rule\'s own targets '
                        f'or exactly one quit-flag target (none once flagged)'))
    for clsref, hname in suppressors:
        em = emitters[0][0].qualname
        for size in (LIMIT - 1, LIMIT, LIMIT + 1):
            got, err = table[clsref.qualname, size, False]
            case = f'{clsref.qualname}: {size} of {LIMIT} worlds'
            if err:
                out.append((False, case, f'raises {err}'))
                continue
            suppressed = not got
            egot, _ = table[em, size, False]
            flagged = bool(egot) and isinstance(egot[0], dict) and egot[0].get('flag') == 'quit'
            ok = not suppressed or flagged
            out.append((ok, case, f'offers {"nothing" if suppressed else "its targets"} while the modal rules {"put a quit flag" if flagged else "carry on without a flag"} at that size'
                        + ('' if ok else ': the branch can end open with this rule switched off and no quit flag to say so')))
    return out, sorted(consulted)


def fold_delegation(m: Model):
    """The plumbing `_get_targets` wrappers the schema extractor skips (sa.schema.Extractor.DELEGATES), folded with a
    stub `_get_node_targets`: below every limit each wrapper offers exactly what the delegate yields for (node, branch)."""
    from .bind import bound_class
    from .model import ClassRef
    RULES = 'pytableaux.proof.rules'
    out, consulted = [], set()
    for name in ('GetNodeTargetsRule', 'NarrowQuantifierRule', 'ModalOperatorRule', 'AccessNodeRule'):
        it = Interp(dict(MaxWorlds='MaxWorlds', MaxConsts='MaxConsts', QuitFlag='QuitFlag', FilterHelper='FilterHelper', WorldIndex='WorldIndex',
                         Target=lambda *a, **kw: dict(dict(a[0]) if a else {}, **kw), adds=lambda *groups, **kw: dict(adds=groups, **kw),
                         group=lambda *a: tuple(a), EMPTY_SET=frozenset(),
                         Node=Obj('Node', Key=Obj('Key', flag='flag', world='world'))), where=f'proof/rules.py {name}._get_targets')
        calls = []

        def stub(s_, node, branch):
            calls.append((node, branch))
            return iter(['T1', 'T2'])
        no_limit = Obj('limit', is_exceeded=lambda *a: False, is_reached=lambda *a: False)
        R = bound_class(m, it, ClassRef(RULES, name), consulted=consulted,
                        extra_ns=dict(__getitem__=lambda s_, k: s_._helpers[k], _get_node_targets=stub))
        r = R()
        r._helpers = {'MaxWorlds': no_limit, 'MaxConsts': no_limit, 'QuitFlag': {}, 'FilterHelper': Obj('FH', release=lambda n, b: None)}

        class NodeM(dict):
            pass
        node = NodeM(world=0)
        try:
            got = r._get_targets(node, 'BRANCH')
            got = list(got) if got is not None else None
            err = None
        except Raised as e:
            got, err = None, e.text
        except (TypeError, KeyError, AttributeError, IndexError, ValueError) as e:
            got, err = None, f'{type(e).__name__}: {e}'
        ok = err is None and got == ['T1', 'T2'] and calls == [(node, 'BRANCH')]
        out.append((ok, f'{name}._get_targets', f'with no limit passed it offers {got!r} (delegate called with {calls!r}){"; raises " + err if err else ""}; '
                    f'expected exactly the targets of self._get_node_targets(node, branch)'))
    return out, sorted(consulted)


ALL = [fold_nodeconsts, fold_extended_quantifier_targets, fold_filter_cache, fold_world_index, fold_unserial, fold_branch_value_hook, fold_counts, fold_serial_rule]


def fold_fair_gate(m: Model, lgs):
    """Non-starvation of the fairness gate.  Rules whose target producer is gated by `NodeCount.isleast` (the box-type modal
    rules) postpone a node while another node was applied fewer times.  Postponement must not be for ever: folded over every
    small state (which (node, world) pairs were applied, hence the counts), the rule offers a target whenever some node of
    the rule still has an accessible world it was not applied to (and the node it would add is not on the branch)."""
    import collections
    import itertools
    from .bind import bound_class, make_self
    sites = {}
    for lg in lgs:
        for gi, rc in lg.all_group_rules():
            fn, owner = m.method(rc, '_get_node_targets')
            if fn is None or not hasattr(fn, 'node'):
                continue
            uses = any(isinstance(c, ast.Call) and isinstance(c.func, ast.Attribute) and c.func.attr == 'isleast' for c in ast.walk(fn.node))
            if not uses:
                # the gate may sit in a helper method of the same class: look at what the producer calls on self
                uses = any(isinstance(c, ast.Call) and isinstance(c.func, ast.Attribute) and c.func.attr == 'isleast'
                           for q, f in astq.all_functions(m.trees[owner.module]) if q.startswith(owner.qualname + '.') for c in ast.walk(f))
            if uses:
                sites.setdefault((owner.module, owner.qualname), rc)
    out, consulted = [], set()
    for (omod, oqual), rc in sorted(sites.items()):
        NodeCount, NodesWorlds, WorldIndex, FilterHelper, MaxWorlds, QuitFlag = (Obj(n) for n in ('NodeCount', 'NodesWorlds', 'WorldIndex', 'FilterHelper', 'MaxWorlds', 'QuitFlag'))
        g = dict(NodeCount=NodeCount, NodesWorlds=NodesWorlds, WorldIndex=WorldIndex, FilterHelper=FilterHelper, MaxWorlds=MaxWorlds, QuitFlag=QuitFlag,
                 sdwnode=lambda s, d, w: ('sdw', s, d, w), anode=lambda a, b: ('access', a, b), adds=lambda *groups, **kw: dict(adds=groups, **kw),
                 group=lambda *a: tuple(a), minfloor=lambda floor, it_, default=None: min(list(it_), default=default), Target=dict)
        it = Interp(g, where=f'{omod.split(".")[-1]}.{oqual} fairness gate', modtree=m.trees[omod])
        CountC = bound_class(m, it, ClassRef(HELPERS, 'NodeCount'), base=dict, consulted=consulted, only=('min', 'isleast'))

        class N:
            def __init__(self, name, world):
                self.name, self.world = name, world
                self.s = Obj(f'sentence-of-{name}', lhs=f'body-of-{name}')

            def __getitem__(self, k):
                return {'world': self.world}[k]

            def get(self, k, d=None):
                return {'world': self.world}.get(k, d)

            def __repr__(self):
                return self.name
        for label, spec in (('one node at w0 seeing w1,w2,w3; one node at w3 seeing w4', (('n1', 0, (1, 2, 3)), ('n2', 3, (4,)))),
                            ('two nodes at w0 seeing w1,w2', (('n1', 0, (1, 2)), ('n2', 0, (1, 2)))),
                            ('one node at w0 seeing w1,w2; one node at w1 seeing nothing', (('n1', 0, (1, 2)), ('n2', 1, ()))),
                            ('two nodes at w0 seeing w1,w2,w3', (('n1', 0, (1, 2, 3)), ('n2', 0, (1, 2, 3))))):
            nodes = [N(n, w) for n, w, _ in spec]
            access = {}
            for n, w, seen in spec:
                access.setdefault(w, set()).update(seen)
            pairs = [(nd, w2) for nd in nodes for w2 in sorted(access.get(nd.world, ()))]
            # `present`: pairs whose result node is already on the branch (the producer skips them without recording anything)
            presents = [()] + [(p_,) for p_ in pairs] + list(itertools.combinations(pairs, 2))
            for k, present in itertools.product(range(len(pairs) + 1), presents):
                for applied in itertools.combinations([p_ for p_ in pairs if p_ not in present], k):
                    br = Br('b')
                    on_branch = {('sdw', nd.s.lhs, True, w2) for nd, w2 in present}
                    br.has_map = lambda mp, on_branch=on_branch: mp in on_branch
                    br.find = lambda mp: ('found', mp)
                    counts = CountC()
                    counts[br] = collections.defaultdict(int)
                    for nd, _ in applied:
                        counts[br][nd] += 1
                    helpers = {NodeCount: counts, NodesWorlds: {br: set(applied)}, WorldIndex: {br: {w: set(ws) for w, ws in access.items()}},
                               FilterHelper: {br: list(nodes)}, MaxWorlds: Obj('maxworlds', is_exceeded=lambda b: False, is_reached=lambda b: False), QuitFlag: {br: None}}
                    rule = make_self(m, it, rc, consulted=consulted, extra_ns={'__getitem__': lambda s_, k: s_._helpers[k]},
                                     _helpers=helpers, negated=None, designation=True, new_negated=bool, new_designation=bool, sentence=lambda nd: nd.s,
                                     tableau=Obj('tableau'), name=rc.qualname)
                    fn, _ = m.method(rc, '_get_targets')
                    targets, err = [], None
                    try:
                        for nd in nodes:
                            targets += it.generate(fn.node, [rule, nd, br])
                    except Raised as e:
                        err = e.text
                    except (TypeError, KeyError, AttributeError, ValueError) as e:
                        err = f'{type(e).__name__}: {e}'
                    pending = [p for p in pairs if p not in applied and p not in present]
                    ok = err is None and (bool(targets) or not pending)
                    offered = sorted({(str(t.get('nodes', ('?',))[0]), t.get('world')) for t in targets if isinstance(t, dict)})
                    ok = ok and all((str(nd), w) in {(str(a), b) for a, b in pending} for nd, w in offered)
                    out.append((ok, f'{oqual}: {label}; applied {[(str(a), b) for a, b in applied]}' + (f'; result already on the branch for {[(str(a), b) for a, b in present]}' if present else ''),
                                f'counts {dict((str(a), c) for a, c in counts[br].items())}: the rule offers {offered or "nothing"}' + (f' (error {err})' if err else '')
                                + f' while {[(str(a), b) for a, b in pending]} are still to be applied -- a postponed node is never taken up again, the open branch is not saturated',
                                f'{m.relfile(omod)} {oqual}'))
    return out, sorted(consulted), len(sites)
