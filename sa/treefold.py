"""Tableau.Tree.make folded over mock tableaux (branch lists with shared prefixes, some closed): the tree it builds is
compared with the tree computed from the branches directly -- nodes of each structure = the longest common run,
children one per distinct next node in first-appearance order, a leaf per branch, widths and node counts summed over
the children, closed/open taken from the branch flags."""
from __future__ import annotations

import ast
from collections import deque

from .core import AnalysisError
from .minieval import Interp, Obj, Raised
from .model import ClassRef, Model

TAB = 'pytableaux.proof.tableaux'


class OSet(list):
    def add(self, v):
        if v not in self:
            self.append(v)


class Br(list):
    def __init__(self, name, nodes, closed=False):
        super().__init__(nodes)
        self.id, self.closed, self.model = name, closed, None

    def __hash__(self):
        return hash(self.id)

    def __eq__(self, o):
        return self is o


def expected(branches, depth=0, level=0):
    nodes = []
    while True:
        at = OSet()
        for b in branches:
            if len(b) > depth:
                at.add(b[depth])
        if len(at) != 1:
            break
        nodes.append(at[0])
        depth += 1
    t = dict(nodes=nodes, depth=level, children=[], has_closed=any(b.closed for b in branches), has_open=any(not b.closed for b in branches))
    if len(branches) == 1:
        t.update(leaf=True, width=1, closed=branches[0].closed, open=not branches[0].closed, descendant_node_count=0, branch_id=branches[0].id)
    else:
        for n in at:
            t['children'].append(expected([b for b in branches if b[depth] == n], depth, level + 1))
        t.update(leaf=False, width=sum(c['width'] for c in t['children']),
                 descendant_node_count=sum(len(c['nodes']) + c['descendant_node_count'] for c in t['children']), closed=False, open=False, branch_id=None)
    t['structure_node_count'] = t['descendant_node_count'] + len(nodes)
    return t


def distinct(t):
    return len(t['nodes']) + sum(distinct(c) for c in t['children'])


def compare(got, want, path='root'):
    probs = []
    for k in ('nodes', 'leaf', 'width', 'closed', 'open', 'descendant_node_count', 'structure_node_count', 'depth', 'has_open', 'has_closed', 'branch_id'):
        g = getattr(got, k, '<missing>')
        if g != want[k]:
            probs.append(f'{path}.{k} = {g!r}, expected {want[k]!r}')
    ch = getattr(got, 'children', [])
    if len(ch) != len(want['children']):
        probs.append(f'{path} has {len(ch)} children, expected {len(want["children"])}')
    else:
        for i, (c, w) in enumerate(zip(ch, want['children'])):
            probs += compare(c, w, f'{path}.children[{i}]')
    return probs


def fold_tree(m: Model):
    cd = None
    for st in m.clsdef(ClassRef(TAB, 'Tableau')).body:
        if isinstance(st, ast.ClassDef) and st.name == 'Tree':
            cd = st
    if cd is None:
        raise AnalysisError('Tableau.Tree vanished')
    fns = {st.name: st for st in cd.body if isinstance(st, ast.FunctionDef)}
    for need in ('make', '_build'):
        if need not in fns:
            raise AnalysisError(f'Tableau.Tree.{need} vanished')
    defaults = {}
    for st in cd.body:
        tgt = st.target if isinstance(st, ast.AnnAssign) else (st.targets[0] if isinstance(st, ast.Assign) else None)
        val = getattr(st, 'value', None)
        if isinstance(tgt, ast.Name) and val is not None:
            try:
                defaults[tgt.id] = ast.literal_eval(val)
            except ValueError:
                pass
    consulted = [m.loc(TAB, fns[n]) + f' Tableau.Tree.{n}' for n in fns if n.startswith(('_build', 'make'))]
    StatKey = Obj('StatKey', FLAGS='FLAGS', STEP_TICKED='STEP_TICKED', STEP_ADDED='STEP_ADDED', STEP_CLOSED='STEP_CLOSED')
    it = Interp(dict(qset=OSet, deque=deque, Tableau=Obj('Tableau', StatKey=StatKey), id=id, min=min, sum=sum), where='proof/tableaux.py Tableau.Tree')

    class TreeM:
        def __init__(self):
            self.__dict__.update(defaults)
            it.call(fns['__init__'], [self]) if '__init__' in fns else None
    cls = Obj('Tree')
    cls.__class__ = type('TreeCls', (Obj,), {'__call__': lambda s_: TreeM()})
    for n, f in fns.items():
        decos = [ast.unparse(d) for d in f.decorator_list]
        if 'classmethod' in decos:
            setattr(cls, n, (lambda f: (lambda *a, **k: it.call(f, [cls, *a], k)))(f))
        elif 'staticmethod' in decos:
            setattr(cls, n, (lambda f: (lambda *a, **k: it.call(f, list(a), k)))(f))
    scenarios = {
        'one open branch': [Br('b0', ['n0', 'n1'])],
        'one closed branch': [Br('b0', ['n0', 'n1', 'x'], closed=True)],
        'fork after a shared trunk': [Br('b0', ['n0', 'n1', 'l0', 'l1']), Br('b1', ['n0', 'n1', 'r0'], closed=True)],
        'three-way fork': [Br('b0', ['n0', 'a']), Br('b1', ['n0', 'b']), Br('b2', ['n0', 'c', 'c1'])],
        'nested forks': [Br('b0', ['n0', 'a', 'a1', 'p']), Br('b1', ['n0', 'a', 'a1', 'q'], closed=True), Br('b2', ['n0', 'b', 'b1']),
                         Br('b3', ['n0', 'a', 'a1', 'r', 'r1'])],
        'fork at the root': [Br('b0', ['x0', 'x1']), Br('b1', ['y0'])],
    }
    out = []
    for label, branches in scenarios.items():
        class TabM(list):
            pass
        tab = TabM(branches)
        tab.flag = Obj('flag', CLOSED='CLOSED')

        def stat(branch, *keys, tab=tab):
            if keys == ('FLAGS',):
                return {'CLOSED'} if branch.closed else set()
            if keys == ('STEP_CLOSED',):
                return 9
            node, key = keys
            return {'STEP_TICKED': None, 'STEP_ADDED': branch.index(node)}[key]
        tab.stat = stat
        try:
            tree = cls.make(tab)
            probs = compare(tree, expected(branches))
            dn = getattr(tree, 'distinct_nodes', '<missing>')
            if dn != distinct(expected(branches)):
                probs.append(f'root.distinct_nodes = {dn!r}, expected {distinct(expected(branches))}')
        except Raised as e:
            probs = [f'raises {e.text}']
        except (TypeError, KeyError, AttributeError, IndexError, ValueError) as e:
            probs = [f'raises {type(e).__name__}: {e}']
        out.append((not probs, label, '; '.join(probs[:4]) or 'tree as computed from the branches'))
    return out, consulted
