"""Node freshness: a node object a rule adds to a branch is constructed during that application.  A node kept in state that
outlives the application (an attribute, a container slot, a global) can be appended to a second branch: one object then
sits on two sibling branches, gets two addition steps, and is counted once per leaf by the tree."""
from __future__ import annotations

import ast

from . import astq
from .model import ClassRef, Model

COMMON = 'pytableaux.proof.common'
PROOF = 'pytableaux.proof'


def node_constructors(m: Model):
    "names that build a fresh node: Node subclasses of proof.common and the module-level factories that return one"
    ctors = set()
    for st in m.trees[COMMON].body:
        if isinstance(st, ast.ClassDef):
            try:
                if m.issub(ClassRef(COMMON, st.name), ClassRef(COMMON, 'Node')):
                    ctors.add(st.name)
            except Exception:
                continue
    changed = True
    while changed:
        changed = False
        for st in m.trees[PROOF].body:
            if isinstance(st, ast.FunctionDef) and st.name not in ctors:
                rets = [r.value for r in astq.walk_no_nested(st) if isinstance(r, ast.Return) and r.value is not None]
                if rets and all(builds_node(r, ctors, set()) for r in rets):
                    ctors.add(st.name)
                    changed = True
    return ctors


def callee_name(c: ast.Call):
    f = c.func
    if isinstance(f, ast.Name):
        return f.id
    if isinstance(f, ast.Attribute):
        return f.attr
    return None


def builds_node(e, ctors, tainted):
    "is the value of this expression a node built here (or a local holding one)?"
    if isinstance(e, ast.Call):
        n = callee_name(e)
        if n in ctors:
            return True
        # Node.for_mapping(...) / cls(...) style alternates
        if isinstance(e.func, ast.Attribute) and isinstance(e.func.value, ast.Name) and e.func.value.id in ctors and e.func.attr in ('for_mapping',):
            return True
        return False
    if isinstance(e, ast.Name):
        return e.id in tainted
    if isinstance(e, ast.NamedExpr):
        return builds_node(e.value, ctors, tainted)
    if isinstance(e, ast.IfExp):
        return builds_node(e.body, ctors, tainted) or builds_node(e.orelse, ctors, tainted)
    if isinstance(e, (ast.Tuple, ast.List, ast.Set)):
        return any(builds_node(x, ctors, tainted) for x in e.elts)
    if isinstance(e, ast.Starred):
        return builds_node(e.value, ctors, tainted)
    return False


def kept_nodes(m: Model, modules):
    """-> (sites, nfunctions, nbuilds): sites = [(module, qualname, stmt, why)] where a node built in the function is stored in
    something that outlives the call."""
    ctors = node_constructors(m)
    sites, nfn, nb = [], 0, 0
    for mod in modules:
        for qn, fn in astq.all_functions(m.trees[mod]):
            builds = [c for c in astq.walk_no_nested(fn) if isinstance(c, ast.Call) and builds_node(c, ctors, set())]
            if not builds:
                continue
            nfn += 1
            nb += len(builds)
            globs = {x for g in astq.walk_no_nested(fn) if isinstance(g, (ast.Global, ast.Nonlocal)) for x in g.names}
            # names whose value outlives the call without a `global` statement: a parameter default built once at definition time
            # (`def f(self, _memo={})`) and a module-level name the function does not rebind (a module-level table mutated in place)
            a_ = fn.args
            pos = a_.posonlyargs + a_.args
            longlived = {arg.arg for arg, dv in list(zip(pos[len(pos) - len(a_.defaults):], a_.defaults)) + [(k, v) for k, v in zip(a_.kwonlyargs, a_.kw_defaults) if v is not None]
                         if isinstance(dv, (ast.Dict, ast.List, ast.Set, ast.ListComp, ast.DictComp, ast.SetComp, ast.Call))}
            locals_ = {t.id for t, _st in astq.stores(fn, nested=False) if isinstance(t, ast.Name)} | {x.arg for x in pos + a_.kwonlyargs} - longlived
            longlived |= {t.id for st in m.trees[mod].body if isinstance(st, (ast.Assign, ast.AnnAssign)) for t in (st.targets if isinstance(st, ast.Assign) else [st.target])
                          if isinstance(t, ast.Name)} - locals_
            tainted = set()
            # two passes so a later alias of an earlier local is seen regardless of statement order in loops
            for _ in range(2):
                for t, st in astq.stores(fn, nested=False):
                    val = getattr(st, 'value', None)
                    if val is None or not builds_node(val, ctors, tainted):
                        continue
                    if isinstance(t, ast.Name) and t.id not in globs:
                        tainted.add(t.id)
            seen = set()
            for t, st in astq.stores(fn, nested=False):
                val = getattr(st, 'value', None)
                if val is None or not builds_node(val, ctors, tainted):
                    continue
                if isinstance(t, ast.Name) and t.id not in globs:
                    continue
                if isinstance(t, (ast.Tuple, ast.List)):
                    continue
                if isinstance(t, ast.Subscript):
                    # a slot of a container: outlives the call unless the container is a local of this call
                    root = t
                    while isinstance(root, (ast.Attribute, ast.Subscript)):
                        root = root.value
                    if isinstance(t.value, ast.Name) and isinstance(root, ast.Name) and root.id not in longlived and root.id not in globs:
                        continue
                if id(st) in seen:
                    continue
                seen.add(id(st))
                sites.append((mod, qn, st, f'`{astq.u(st)[:90]}` keeps a node built by this function in `{astq.u(t)[:40]}`'))
            # container-method stores: x.setdefault(k, <node>), self.y.append(<node>), self.y[k] = ... handled above
            for c in astq.walk_no_nested(fn):
                if isinstance(c, ast.Call) and isinstance(c.func, ast.Attribute) and c.func.attr in ('setdefault', 'append', 'add', 'insert', 'update', 'extend', 'appendleft'):
                    base = c.func.value
                    root = base
                    while isinstance(root, (ast.Attribute, ast.Subscript)):
                        root = root.value
                    outlives = isinstance(base, (ast.Attribute, ast.Subscript)) and isinstance(root, ast.Name) and (root.id in ('self', 'cls') or root.id in longlived or root.id in globs) or \
                        (isinstance(base, ast.Name) and (base.id in globs or base.id in longlived))
                    if outlives and any(builds_node(a, ctors, tainted) for a in c.args):
                        sites.append((mod, qn, c, f'`{astq.u(c)[:90]}` keeps a node built by this function in `{astq.u(base)[:40]}`'))
    # a kept node matters when the place it is kept in is read back somewhere (so it can be handed out again)
    def read_back(mod, keeper):
        attr = keeper
        while isinstance(attr, ast.Subscript):
            attr = attr.value
        name = attr.attr if isinstance(attr, ast.Attribute) else attr.id if isinstance(attr, ast.Name) else None
        if name is None:
            return True
        for x in ast.walk(m.trees[mod]):
            if isinstance(x, ast.Attribute) and x.attr == name and isinstance(x.ctx, ast.Load):
                par_store = False
                # `self.flags[k] = v` loads `self.flags` to subscript-store into it: not a read of the contents
                for y in ast.walk(m.trees[mod]):
                    if isinstance(y, ast.Subscript) and y.value is x and isinstance(y.ctx, (ast.Store, ast.Del)):
                        par_store = True
                        break
                    if isinstance(y, ast.Call) and isinstance(y.func, ast.Attribute) and y.func.value is x and y.func.attr in ('append', 'add', 'insert', 'extend', 'update', 'appendleft', 'clear'):
                        par_store = True
                        break
                if not par_store:
                    return True
            if isinstance(x, ast.Name) and x.id == name and isinstance(x.ctx, ast.Load) and isinstance(attr, ast.Name):
                return True
        return False
    sites = [(mod, qn, st, why) for mod, qn, st, why in sites
             if read_back(mod, st.targets[0] if isinstance(st, ast.Assign) else st.target if isinstance(st, (ast.AugAssign, ast.AnnAssign)) else st.func.value)]
    return sites, nfn, nb, sorted(ctors)
