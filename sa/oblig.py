"""E4 -- obligation engine: pure computation over extracted tables and schemas.

Exactness of one rule slot (logic L, rule class R):
    for every valuation:  sat(node)  <=>  exists branch: all items sat
where `sat` is evaluated with L's *own* extracted tables, designated set and
generalisers.  Operator rules: valuations = V^arity.  Quantifier rules:
valuations = the non-empty sets S of values the body takes over the domain.
Modal rules: S = set of values of the operand over the accessible worlds
(empty set included).  Each failure is reported with its direction:
  'unsound'    -- node satisfiable, no branch satisfiable   (breaks C01)
  'incomplete' -- some branch satisfiable, node not          (breaks C02)
"""
from __future__ import annotations

import itertools

from .core import AnalysisError
from .logics import Logic
from .schema import C_ANY, C_FRESH, W_EACH, W_FRESH, W_NODE, Item, Op, Schema, fmt
from .tables import Semantics


class Free(AnalysisError):
    pass


def node_sentence(sch: Schema):
    return Op('Negation', sch.subject) if sch.attrs.negated else sch.subject


def holds(value, d, D):
    x = value in D
    return x if d is None else (x == d)


# ---- operator rules ------------------------------------------------------
def negative_leaves(t, acc=None):
    "leaves that occur under Sentence.negative() (-x): the rule inspects whether they are negations"
    acc = set() if acc is None else acc
    if t is None:
        return acc
    if t[0] == 'negative':
        acc.add(t[1][1])
    elif t[0] == 'op':
        for x in t[2]:
            negative_leaves(x, acc)
    elif t[0] in ('q',):
        negative_leaves(t[3], acc)
    elif t[0] == 'subst':
        negative_leaves(t[1], acc)
    return acc


def ev_op(t, val, sem: Semantics):
    if t[0] == 'leaf':
        if t[1] not in val:
            raise Free(f'free leaf {t[1]}')
        return val[t[1]]
    if t[0] == 'negative':
        # val['-X'] is given when the operand X is itself a negation ~U: then -X is U
        k = '-' + t[1][1]
        if k in val:
            return val[k]
        return sem.tables['Negation'][(ev_op(t[1], val, sem),)]
    if t[0] == 'op':
        if t[1] not in sem.tables:
            raise Free(f'modal operator {t[1]} inside an operator-rule term')
        return sem.tables[t[1]][tuple(ev_op(x, val, sem) for x in t[2])]
    raise Free(f'term {fmt(t)} in an operator rule')


def operator_rule(lg: Logic, sem: Semantics, sch: Schema):
    """Returns (n_valuations, failures[(direction, valuation-string)])"""
    S = sch.subject
    leaves = [x[1] for x in S[2]]
    ns = node_sentence(sch)
    d = sch.attrs.designation
    fails = []
    n = 0
    inspected = set()
    for br in sch.branches:
        for it in br:
            if it.kind == 'sent':
                negative_leaves(it.s, inspected)
    # each inspected operand is either not a negation (plain) or a negation ~U of something with value u
    modes = [dict(zip(sorted(inspected), m_)) for m_ in itertools.product(('plain', 'isneg'), repeat=len(inspected))]
    for mode in modes:
        spaces = []
        for lf in leaves:
            if mode.get(lf) == 'isneg':
                spaces.append([(sem.tables['Negation'][(u,)], u) for u in sem.V])     # (value of the operand, value of its negatum)
            else:
                spaces.append([(v, None) for v in sem.V])
        for combo in itertools.product(*spaces):
            val = {}
            for lf, (v, u) in zip(leaves, combo):
                val[lf] = v
                if u is not None:
                    val['-' + lf] = u
            n += 1
            lhs = holds(ev_op(ns, val, sem), d, sem.D)
            rhs = any(all(it.kind != 'sent' or holds(ev_op(it.s, val, sem), it.d, sem.D) for it in br) for br in sch.branches)
            if lhs != rhs:
                tag = ''.join(v for v, u in combo) + ''.join(f'[{lf}=~{u}]' for lf, (v, u) in zip(leaves, combo) if u is not None)
                fails.append(('unsound' if lhs else 'incomplete', tag))
    return n, fails


# ---- quantifier rules -----------------------------------------------------
def ev_q(t, v, S, sem: Semantics):
    "v: value of the body at the element under consideration (None outside any instance)"
    if t[0] == 'leaf':
        if v is None:
            raise Free(f'free occurrence of {t[1]}')
        return v
    if t[0] == 'subst':
        return ev_q(t[1], v, S, sem)
    if t[0] == 'op':
        if t[1] not in sem.tables:
            raise Free(f'modal operator {t[1]} inside a quantifier-rule term')
        return sem.tables[t[1]][tuple(ev_q(x, v, S, sem) for x in t[2])]
    if t[0] == 'q':
        r = sem.gen[t[1]][frozenset(ev_q(t[3], u, S, sem) for u in S)]
        if r is None:
            raise Free(f'generaliser {t[1]} undefined')
        return r
    raise Free(f'term {t!r}')


def item_kind_q(it: Item):
    from .schema import const_kinds
    ks = const_kinds(it.s)
    if len(ks) > 1:
        raise Free(f'item {it} mixes witness and every-constant instances')
    return next(iter(ks)) if ks else None


def quantifier_rule(lg: Logic, sem: Semantics, sch: Schema):
    ns = node_sentence(sch)
    d = sch.attrs.designation
    fails = []
    n = 0
    for S in sem.subsets:
        if not S:
            continue
        n += 1
        lhs = holds(ev_q(ns, None, S, sem), d, sem.D)

        def br_ok(br):
            wit = [it for it in br if item_kind_q(it) == C_FRESH]
            uni = [it for it in br if item_kind_q(it) == C_ANY]
            oth = [it for it in br if item_kind_q(it) is None]
            if not all(holds(ev_q(it.s, None, S, sem), it.d, sem.D) for it in oth):
                return False
            if not all(all(holds(ev_q(it.s, v, S, sem), it.d, sem.D) for it in uni) for v in S):
                return False
            if wit and not any(all(holds(ev_q(it.s, v, S, sem), it.d, sem.D) for it in wit) for v in S):
                return False
            return True
        rhs = any(br_ok(br) for br in sch.branches)
        if lhs != rhs:
            fails.append(('unsound' if lhs else 'incomplete', '{' + ''.join(sorted(S)) + '}'))
    return n, fails


# ---- modal rules --------------------------------------------------------------
def ev_m(t, v, S, sem: Semantics):
    "v: value of the operand at the accessible world under consideration (None at the node's own world)"
    if t[0] == 'leaf':
        if v is None:
            raise Free(f'operand {t[1]} evaluated at the node\'s own world')
        return v
    if t[0] == 'op':
        if t[1] in sem.gen:
            r = sem.gen[t[1]][frozenset(ev_m(t[2][0], u, S, sem) for u in S)]
            if r is None:
                raise Free(f'generaliser {t[1]} undefined')
            return r
        return sem.tables[t[1]][tuple(ev_m(x, v, S, sem) for x in t[2])]
    raise Free(f'term {t!r} in a modal rule')


def modal_rule(lg: Logic, sem: Semantics, sch: Schema):
    ns = node_sentence(sch)
    d = sch.attrs.designation
    fails = []
    n = 0
    for S in sem.subsets:
        n += 1
        lhs = holds(ev_m(ns, None, S, sem), d, sem.D)

        def br_ok(br):
            sent = [it for it in br if it.kind == 'sent']
            wit = [it for it in sent if it.w == W_FRESH]
            uni = [it for it in sent if it.w == W_EACH]
            here = [it for it in sent if it.w == W_NODE]
            if len(wit) + len(uni) + len(here) != len(sent):
                raise Free(f'item at an unexpected world in {br}')
            if not all(holds(ev_m(it.s, None, S, sem), it.d, sem.D) for it in here):
                return False
            if not all(all(holds(ev_m(it.s, v, S, sem), it.d, sem.D) for it in uni) for v in S):
                return False
            if wit and not any(all(holds(ev_m(it.s, v, S, sem), it.d, sem.D) for it in wit) for v in S):
                return False
            return True
        rhs = any(br_ok(br) for br in sch.branches)
        if lhs != rhs:
            fails.append(('unsound' if lhs else 'incomplete', '{' + ''.join(sorted(S)) + '}'))
    return n, fails


def rule_kind(lg: Logic, sch: Schema, lex):
    a = sch.attrs
    if a.quantifier:
        return 'quantifier'
    if a.operator in lex.modal_operators:
        return 'modal'
    if a.operator:
        return 'operator'
    return None


def check_rule(lg: Logic, sem: Semantics, sch: Schema, lex):
    k = rule_kind(lg, sch, lex)
    if k == 'operator':
        return k, operator_rule(lg, sem, sch)
    if k == 'quantifier':
        return k, quantifier_rule(lg, sem, sch)
    if k == 'modal':
        return k, modal_rule(lg, sem, sch)
    return None, (0, [])
