"""Tableau lifecycle facts shared by C01 and C17: the flag word (who writes
which bit under which guard) and the folded verdict properties."""
from __future__ import annotations

import ast
import enum
import itertools

from . import astq
from .core import AnalysisError
from .minieval import Interp, Obj, Raised
from .model import ClassRef, Model

TAB = 'pytableaux.proof.tableaux'
PROOF = 'pytableaux.proof'


def flag_enum(m: Model):
    "Mirror of TableauMeta.Flag built from the member definitions in the source"
    cd = m.clsdef(ClassRef(PROOF, 'TableauMeta.Flag'))
    members = {}
    for st in cd.body:
        if isinstance(st, ast.Assign) and len(st.targets) == 1 and isinstance(st.targets[0], ast.Name):
            try:
                v = eval(compile(ast.Expression(st.value), '<flag>', 'eval'), {'__builtins__': {}})
            except Exception:
                raise AnalysisError(f'TableauMeta.Flag.{st.targets[0].id}: value not a constant expression')
            members[st.targets[0].id] = v
    for need in ('PREMATURE', 'FINISHED', 'TIMED_OUT', 'TRUNK_BUILT', 'STARTED', 'HAS_STEP_LIMIT', 'HAS_TIME_LIMIT'):
        if need not in members:
            raise AnalysisError(f'TableauMeta.Flag.{need} vanished')
    vals = list(members.values())
    if len(set(vals)) != len(vals) or any(v & (v - 1) for v in vals):
        raise AnalysisError(f'TableauMeta.Flag members are not distinct single bits: {members}')
    return enum.Flag('Flag', members)


def flag_writes(m: Model):
    """All writes to `<x>.flag` in proof/tableaux.py:
    [(function-qualname, op, bits-text, guards, stmt)]; op in '=', '|=', '&=~'."""
    out = []
    for qn, fn in astq.all_functions(m.trees[TAB]):
        pm = None
        for t, st in astq.stores(fn, nested=False):
            if isinstance(t, ast.Attribute) and t.attr == 'flag' and astq.u(t.value) == 'self':
                pm = pm or astq.parent_map(fn)
                if isinstance(st, ast.AugAssign) and isinstance(st.op, ast.BitOr):
                    op, bits = '|=', flag_names(st.value)
                elif isinstance(st, ast.AugAssign) and isinstance(st.op, ast.BitAnd) and isinstance(st.value, ast.UnaryOp) \
                        and isinstance(st.value.op, ast.Invert):
                    op, bits = '&=~', flag_names(st.value.operand)
                elif isinstance(st, ast.Assign):
                    op, bits = '=', flag_names(st.value)
                else:
                    op, bits = '?', (astq.u(st),)
                out.append((qn, op, bits, astq.guards_of(fn, st, pm), st))
    return out


def flag_names(e):
    names = []
    for n in ast.walk(e):
        if isinstance(n, ast.Attribute) and n.attr.isupper():
            names.append(n.attr)
    if not names:
        return (astq.u(e),)
    return tuple(sorted(set(names)))


class MockTab:
    pass


def fold_verdicts(m: Model):
    """Fold completed / premature / finished / valid / invalid over all flag
    combinations x argument present/absent x number of open branches.
    Returns list of (ok, case, detail)."""
    Flag = flag_enum(m)
    g = dict(len=len)
    it = Interp(g, where='proof/tableaux.py Tableau verdict properties')
    getters = {n: astq.getter(m, TAB, f'Tableau.{n}') for n in ('finished', 'completed', 'premature', 'valid', 'invalid')}
    results = []
    for fin, prem in itertools.product((False, True), repeat=2):
        for arg in (None, 'ARG'):
            for nopen in (0, 1, 2):
                flag = Flag(0)
                if fin:
                    flag |= Flag.FINISHED
                if prem:
                    flag |= Flag.PREMATURE
                tab = Obj('tableau', flag=flag, argument=arg, open=[object()] * nopen)
                for n in ('finished', 'completed', 'premature'):
                    setattr(tab, n, it.safe(getters[n], [tab]))
                valid = it.safe(getters['valid'], [tab])
                invalid = it.safe(getters['invalid'], [tab])
                case = f'FINISHED={fin} PREMATURE={prem} argument={arg} open={nopen}'
                exp_completed = fin and not prem
                ok = tab.completed == exp_completed and tab.finished == fin and tab.premature == (fin and prem)
                results.append((ok, f'completed/finished/premature at {case}',
                                f'completed={tab.completed} finished={tab.finished} premature={tab.premature}'))
                if exp_completed and arg is not None:
                    ok = valid is (nopen == 0) and invalid is (nopen > 0)
                else:
                    ok = valid is None and invalid is None
                results.append((ok, f'valid/invalid at {case}', f'valid={valid} invalid={invalid}'))
    return results, [m.loc(TAB, f) + f' Tableau.{n}' for n, f in getters.items()]


def fold_max_steps(m: Model):
    Flag = flag_enum(m)
    it = Interp(dict(len=len), where='proof/tableaux.py Tableau._is_max_steps_exceeded')
    fn = m.func(TAB, 'Tableau._is_max_steps_exceeded')
    results = []
    for has in (False, True):
        for steps, mx in ((0, 1), (1, 1), (2, 1), (0, 3), (2, 3), (3, 3), (4, 3), (5, None), (5, 0), (5, -1)):
            if has and (mx is None or mx <= 0):
                continue        # HAS_STEP_LIMIT is only set for positive limits (checked separately)
            flag = Flag.HAS_STEP_LIMIT if has else Flag(0)
            for nopen in (0, 2):
                # the limit must not depend on anything but the flag and the number of recorded steps
                tab = Obj('tableau', flag=flag, history=[0] * steps, opts={'max_steps': mx}, open=[object()] * nopen,
                          argument='ARG', rules=[], timers=None)
                r = it.safe(fn, [tab])
                got = r if not isinstance(r, bool) else r
                got = bool(r) if not hasattr(r, 'text') else r
                want = has and steps >= mx
                results.append((got == want, f'_is_max_steps_exceeded HAS_STEP_LIMIT={has} steps={steps} max_steps={mx} open={nopen}', f'{got} (want {want})'))
    return results, [m.loc(TAB, fn) + ' Tableau._is_max_steps_exceeded']
