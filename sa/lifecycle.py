"""Tableau lifecycle facts shared by C01 and C17: the flag word (who writes
which bit under which guard) and the folded verdict properties."""
from __future__ import annotations

import ast
import enum
import itertools

from . import astq
from .core import AnalysisError
from .minieval import Interp, Obj, Raised
from .model import ClassRef, Model

TAB = 'pytableaux.proof.tableaux'
PROOF = 'pytableaux.proof'


def flag_enum(m: Model):
    "Mirror of TableauMeta.Flag built from the member definitions in the source"
    cd = m.clsdef(ClassRef(PROOF, 'TableauMeta.Flag'))
    members = {}
    for st in cd.body:
        if isinstance(st, ast.Assign) and len(st.targets) == 1 and isinstance(st.targets[0], ast.Name):
            try:
                v = eval(compile(ast.Expression(st.value), '<flag>', 'eval'), {'__builtins__': {}})
            except Exception:
                raise AnalysisError(f'TableauMeta.Flag.{st.targets[0].id}: value not a constant expression')
            members[st.targets[0].id] = v
    for need in ('PREMATURE', 'FINISHED', 'TIMED_OUT', 'TRUNK_BUILT', 'STARTED', 'HAS_STEP_LIMIT', 'HAS_TIME_LIMIT'):
        if need not in members:
            raise AnalysisError(f'TableauMeta.Flag.{need} vanished')
    vals = list(members.values())
    if len(set(vals)) != len(vals) or any(v & (v - 1) for v in vals):
        raise AnalysisError(f'TableauMeta.Flag members are not distinct single bits: {members}')
    return enum.Flag('Flag', members)


def flag_writes(m: Model):
    """All writes to `<x>.flag` in proof/tableaux.py:
    [(function-qualname, op, bits-text, guards, stmt)]; op in '=', '|=', '&=~'."""
    out = []
    # a private helper method of Tableau called only from one method writes on that method's behalf
    methods = [qn for qn, fn in astq.all_functions(m.trees[TAB]) if qn.startswith('Tableau.') and qn.count('.') == 1]
    behalf = {}
    for owner in methods:
        for h in astq.helper_closure(m, TAB, 'Tableau', {owner}) - {owner}:
            behalf.setdefault(h, set()).add(owner)
    for qn0, fn in astq.all_functions(m.trees[TAB]):
        qn = next(iter(behalf[qn0])) if len(behalf.get(qn0, ())) == 1 else qn0
        pm = None
        for t, st in astq.stores(fn, nested=False):
            if isinstance(t, ast.Attribute) and t.attr == 'flag' and astq.u(t.value) == 'self':
                pm = pm or astq.parent_map(fn)
                if isinstance(st, ast.AugAssign) and isinstance(st.op, ast.BitOr):
                    op, bits = '|=', flag_names(st.value)
                elif isinstance(st, ast.AugAssign) and isinstance(st.op, ast.BitAnd) and isinstance(st.value, ast.UnaryOp) \
                        and isinstance(st.value.op, ast.Invert):
                    op, bits = '&=~', flag_names(st.value.operand)
                elif isinstance(st, ast.Assign):
                    op, bits = '=', flag_names(st.value)
                else:
                    op, bits = '?', (astq.u(st),)
                out.append((qn, op, bits, astq.guards_of(fn, st, pm), st))
    return out


def flag_names(e):
    names = []
    for n in ast.walk(e):
        if isinstance(n, ast.Attribute) and n.attr.isupper():
            names.append(n.attr)
    if not names:
        return (astq.u(e),)
    return tuple(sorted(set(names)))


class MockTab:
    pass


def fold_verdicts(m: Model):
    """Fold completed / premature / finished / valid / invalid over all flag
    combinations x argument present/absent x number of open branches.
    Returns list of (ok, case, detail)."""
    Flag = flag_enum(m)
    g = dict(len=len)
    it = Interp(g, where='proof/tableaux.py Tableau verdict properties')
    getters = {n: astq.getter(m, TAB, f'Tableau.{n}') for n in ('finished', 'completed', 'premature', 'valid', 'invalid')}
    results = []
    for fin, prem in itertools.product((False, True), repeat=2):
        for arg in (None, 'ARG'):
            for nopen in (0, 1, 2):
                flag = Flag(0)
                if fin:
                    flag |= Flag.FINISHED
                if prem:
                    flag |= Flag.PREMATURE
                tab = Obj('tableau', __srcclass__=(m, ClassRef(TAB, 'Tableau')), flag=flag, argument=arg, open=[object()] * nopen)
                for n in ('finished', 'completed', 'premature'):
                    setattr(tab, n, it.safe(getters[n], [tab]))
                valid = it.safe(getters['valid'], [tab])
                invalid = it.safe(getters['invalid'], [tab])
                case = f'FINISHED={fin} PREMATURE={prem} argument={arg} open={nopen}'
                exp_completed = fin and not prem
                ok = tab.completed == exp_completed and tab.finished == fin and tab.premature == (fin and prem)
                results.append((ok, f'completed/finished/premature at {case}',
                                f'completed={tab.completed} finished={tab.finished} premature={tab.premature}'))
                if exp_completed and arg is not None:
                    ok = valid is (nopen == 0) and invalid is (nopen > 0)
                else:
                    ok = valid is None and invalid is None
                results.append((ok, f'valid/invalid at {case}', f'valid={valid} invalid={invalid}'))
    return results, [m.loc(TAB, f) + f' Tableau.{n}' for n, f in getters.items()]


def fold_max_steps(m: Model):
    Flag = flag_enum(m)
    it = Interp(dict(len=len), where='proof/tableaux.py Tableau._is_max_steps_exceeded')
    fn = m.func(TAB, 'Tableau._is_max_steps_exceeded')
    results = []
    for has in (False, True):
        for steps, mx in ((0, 1), (1, 1), (2, 1), (0, 3), (2, 3), (3, 3), (4, 3), (5, None), (5, 0), (5, -1)):
            if has and (mx is None or mx <= 0):
                continue        # HAS_STEP_LIMIT is only set for positive limits (checked separately)
            flag = Flag.HAS_STEP_LIMIT if has else Flag(0)
            for nopen in (0, 2):
                # the limit must not depend on anything but the flag and the number of recorded steps
                tab = Obj('tableau', __srcclass__=(m, ClassRef(TAB, 'Tableau')), flag=flag, history=[0] * steps, opts={'max_steps': mx}, open=[object()] * nopen,
                          argument='ARG', rules=[], timers=None)
                r = it.safe(fn, [tab])
                got = r if not isinstance(r, bool) else r
                got = bool(r) if not hasattr(r, 'text') else r
                want = has and steps >= mx
                results.append((got == want, f'_is_max_steps_exceeded HAS_STEP_LIMIT={has} steps={steps} max_steps={mx} open={nopen}', f'{got} (want {want})'))
    return results, [m.loc(TAB, fn) + ' Tableau._is_max_steps_exceeded']


# ---- folds of the step loop ---------------------------------------------------
class _CM:
    "context manager mock (timers / StopWatch)"

    def __init__(self, log=None, name='cm'):
        self.log, self.name = log, name

    def __enter__(self):
        return self

    def __exit__(self, *a):
        return False

    def elapsed_ms(self):
        return 0


def _mk_tab(m, Flag, flags, log):
    tab = Obj('tableau', __srcclass__=(m, ClassRef(TAB, 'Tableau')), flag=flags, opts={'is_build_models': True, 'build_timeout': 10}, logic='LOGIC', models=frozenset())
    tab.timers = Obj('timers', build=_CM(), models=_CM(), tree=_CM(), trunk=_CM())
    return tab


def fold_step(m: Model):
    """Fold Tableau.step over: finished / step limit hit / nothing to apply / an applicable entry.
    Returns [(ok, case, detail)]."""
    Flag = flag_enum(m)
    step = m.func(TAB, 'Tableau.step')
    out = []
    for finished in (False, True):
        for exceeded in (False, True):
            for has_entry in (False, True):
                log = []
                flags = Flag.PREMATURE | (Flag.FINISHED if finished else Flag(0))
                tab = _mk_tab(m, Flag, flags, log)
                entry = Obj('entry', target='TARGET', duration=Obj('dur', inc=lambda x: log.append('inc')))
                entry.rule = Obj('rule', apply=lambda t: log.append(('apply', t)))
                tab._check_timeout = lambda: log.append('check_timeout')
                tab._is_max_steps_exceeded = lambda: (log.append('limit?'), exceeded)[1]
                tab.next = lambda: (log.append('next'), entry if has_entry else None)[1]
                tab.finish = lambda: log.append('finish')
                it = Interp(dict(StopWatch=lambda: _CM()), where='proof/tableaux.py Tableau.step')
                r = it.safe(step, [tab])
                case = f'FINISHED={finished} limit_exceeded={exceeded} applicable_entry={has_entry}'
                prem = Flag.PREMATURE in tab.flag
                if finished:
                    ok = r is None and log == [] and tab.flag == flags
                    want = 'no effect at all'
                elif exceeded:
                    ok = r is None and 'next' not in log and not any(isinstance(x, tuple) for x in log) and 'finish' in log and prem \
                        and log and log[0] == 'check_timeout'
                    want = 'no rule looked up or applied, finish() called, PREMATURE kept'
                elif not has_entry:
                    ok = r is None and 'next' in log and 'limit?' in log and 'finish' in log and not prem and not any(isinstance(x, tuple) for x in log) \
                        and log[0] == 'check_timeout' and log.index('limit?') < log.index('next')
                    want = 'next() consulted after the limit test, PREMATURE cleared, finish() called'
                else:
                    ok = r is entry and log.count(('apply', 'TARGET')) == 1 and 'finish' not in log and prem and 'limit?' in log and 'next' in log \
                        and log[0] == 'check_timeout' and log.index('limit?') < log.index('next') < log.index(('apply', 'TARGET'))
                    want = 'exactly one rule.apply(entry.target) after the limit test, entry returned, not finished, PREMATURE kept'
                out.append((ok, case, f'expected {want}; observed return={r!r} premature={prem} calls={log}'))
    return out, [m.loc(TAB, step) + ' Tableau.step']


def fold_finish(m: Model):
    Flag = flag_enum(m)
    fin = m.func(TAB, 'Tableau.finish')
    out = []
    for finished in (False, True):
        for invalid in (False, True):
            for timed_out in (False, True):
                for build_models in (False, True):
                    log = []
                    flags = (Flag.FINISHED if finished else Flag(0)) | (Flag.TIMED_OUT if timed_out else Flag(0))
                    tab = _mk_tab(m, Flag, flags, log)
                    tab.opts['is_build_models'] = build_models
                    tab.invalid = invalid
                    tab._gen_models = lambda: (log.append(('gen_models', Flag.FINISHED in tab.flag)), ['M1'])[1]
                    tab.Tree = Obj('Tree', make=lambda t: (log.append(('tree', Flag.FINISHED in tab.flag)), 'TREE')[1])
                    tab._compute_stats = lambda: (log.append('stats'), 'STATS')[1]
                    tab.emit = lambda ev, *a: log.append(('emit', ev))
                    it = Interp(dict(Tableau=Obj('Tableau', Events=Obj('Events', AFTER_FINISH='AFTER_FINISH')), ProofTimeoutError='ProofTimeoutError'),
                                where='proof/tableaux.py Tableau.finish')
                    r = it.safe(fin, [tab])
                    case = f'FINISHED={finished} invalid={invalid} TIMED_OUT={timed_out} is_build_models={build_models}'
                    if finished:
                        ok = r is tab and log == []
                        want = 'no effect'
                    else:
                        gm = [x for x in log if isinstance(x, tuple) and x[0] == 'gen_models']
                        tr = [x for x in log if isinstance(x, tuple) and x[0] == 'tree']
                        ok = r is tab and Flag.FINISHED in tab.flag and all(x[1] for x in gm + tr) \
                            and (len(gm) == 1) == (invalid and build_models) and (len(tr) == 1) == (not timed_out) \
                            and 'stats' in log and ('emit', 'AFTER_FINISH') in log
                        want = ('FINISHED set before any post-build task; models iff invalid and is_build_models; tree unless timed out; '
                                'stats computed; AFTER_FINISH emitted')
                    out.append((ok, case, f'expected {want}; observed return={"self" if r is tab else r!r} flag={tab.flag!r} calls={log}'))
    return out, [m.loc(TAB, fin) + ' Tableau.finish']


def emsg_member(m: Model, name: str, it_globals: dict, consulted: list):
    """errors.Emsg.<name> as the code builds it: the member's value tuple (evaluated from the Emsg class body) given to the folded
    EmsgBase.__init__ (tools.abcs rebases the Emsg enum on EmsgBase), so calling it folds EmsgBase.__call__ / _makeas / _getargs."""
    from .bind import bound_class
    ERR = 'pytableaux.errors'
    body = m.clsdef(ClassRef(ERR, 'Emsg')).body
    st = next((x for x in body if isinstance(x, ast.Assign) and isinstance(x.targets[0], ast.Name) and x.targets[0].id == name), None)
    if st is None:
        raise AnalysisError(f'errors.Emsg.{name} not found')
    it = Interp(dict(it_globals), where='errors.py Emsg / EmsgBase', modtree=m.trees[ERR])
    val = it.ev(st.value, {})
    val = val if isinstance(val, tuple) else (val,)
    cons = set()
    B = bound_class(m, it, ClassRef(ERR, 'EmsgBase'), consulted=cons, with_init=True)
    consulted.extend(sorted(cons))
    consulted.append(m.loc(ERR, st) + f' Emsg.{name}')
    return B(*val)


def fold_check_timeout(m: Model):
    Flag = flag_enum(m)
    fn = m.func(TAB, 'Tableau._check_timeout')
    from .minieval import Raises, Raised

    class ProofTimeoutErrorM(Exception):
        pass
    cons = [m.loc(TAB, fn) + ' Tableau._check_timeout']
    timeout_member = emsg_member(m, 'Timeout', dict(ProofTimeoutError=ProofTimeoutErrorM), cons)
    out = []
    for has_limit in (False, True):
        # limits are compared numerically only: integral and fractional millisecond limits alike
        for limit, elapseds in ((10, (5, 10, 11)), (10.5, (10, 10.5, 11)), (0.5, (0.25, 0.5, 3))):
            for elapsed in elapseds:
                log = []
                flags = Flag.HAS_TIME_LIMIT if has_limit else Flag(0)
                tab = Obj('tableau', __srcclass__=(m, ClassRef(TAB, 'Tableau')), flag=flags, opts={'build_timeout': limit})
                tab.timers = Obj('timers', build=Obj('sw', elapsed_ms=lambda: elapsed))
                tab.finish = lambda: log.append(('finish', Flag.TIMED_OUT in tab.flag))
                it = Interp(dict(Emsg=Obj('Emsg', Timeout=timeout_member)), where='proof/tableaux.py Tableau._check_timeout')
                try:
                    r = it.call(fn, [tab])
                except ProofTimeoutErrorM as e:
                    r = e
                except Raised as e:
                    r = Raises(e.text)
                except (TypeError, KeyError, AttributeError, IndexError, ValueError) as e:
                    r = Raises(f'{type(e).__name__}: {e}')
                case = f'HAS_TIME_LIMIT={has_limit} elapsed={elapsed}ms timeout={limit}ms'
                if has_limit and elapsed > limit:
                    ok = isinstance(r, ProofTimeoutErrorM) and log == [('finish', True)] and Flag.TIMED_OUT in tab.flag
                    want = 'TIMED_OUT set, then finish(), then the timeout error (ProofTimeoutError) raised'
                else:
                    ok = r is None and log == [] and Flag.TIMED_OUT not in tab.flag
                    want = 'no effect'
                out.append((ok, case, f'expected {want}; observed result={r!r} calls={log} flag={tab.flag!r}'))
    return out, cons


def fold_next(m: Model):
    "Tableau.next: first non-empty group application, open branches outermost, groups in order"
    fn = m.func(TAB, 'Tableau.next')
    out = []
    branches, groups = ['b0', 'b1'], ['g0', 'g1', 'g2']
    for hit in [None] + [(b, g) for b in branches for g in groups]:
        log = []
        tab = Obj('tableau', __srcclass__=(m, ClassRef(TAB, 'Tableau')), open=list(branches), rules=Obj('rules', groups=list(groups)))
        tab._get_group_application = lambda b, g: (log.append((b, g)), 'ENTRY' if hit is not None and (b, g) >= hit else None)[1]
        it = Interp({}, where='proof/tableaux.py Tableau.next')
        r = it.safe(fn, [tab])
        order = [(b, g) for b in branches for g in groups]
        want_log = order if hit is None else order[:order.index(hit) + 1]
        ok = (r is None if hit is None else r == 'ENTRY') and log == want_log
        out.append((ok, f'first applicable (branch, group) = {hit}', f'returned {r!r} after consulting {log}; expected consultation order {want_log}'))
    return out, [m.loc(TAB, fn) + ' Tableau.next']
