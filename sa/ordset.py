"""Black-box inductive-step checks of the ordered-set containers.

The container classes (tools/hybrids.qset, tools/linked.linqset, lang/collect.Predicates) are rebuilt as *bound
classes* (sa.bind): Python classes whose methods are the repository's own definitions, found through the class's
MRO and interpreted by minieval; the abstract mixins of collections.abc (append, remove, pop, extend, ...) come from
the real collections.abc, exactly as at run time.  Every single operation of the public mutator API is applied to
every small state (built through the container's own API) and the result is observed only through the container's
own read API (iter, len, in, [], reversed, index, count).  It must agree with the reference model "a list without
duplicates": same contents in the same order, every read agrees with it, a rejected operation changes nothing, a
copy is independent.  Nothing is said about *how* a method does it, so a behaviour-preserving rewrite stays silent."""
from __future__ import annotations

import ast
import itertools
from collections import deque
from collections.abc import Collection, MutableSequence, MutableSet, Sequence, Set

from .bind import bound_class
from .core import AnalysisError
from .minieval import Interp, Obj, Raised, Raises
from .model import ClassRef, Model

HYB = 'pytableaux.tools.hybrids'
LNK = 'pytableaux.tools.linked'
TOOLS = 'pytableaux.tools'


class DuplicateValueError(ValueError):
    pass


class MissingValueError(ValueError):
    pass


class InstCheckError(TypeError):
    pass


EXC = (Raised, TypeError, KeyError, AttributeError, IndexError, ValueError, StopIteration, RuntimeError)


def base_interp(m: Model, where, modnames):
    import itertools as _it
    from typing import SupportsIndex
    g = dict(DuplicateValueError=DuplicateValueError, MissingValueError=MissingValueError,
             Emsg=Obj('Emsg', DuplicateValue=lambda *a: DuplicateValueError(*a), MissingValue=lambda *a: MissingValueError(*a),
                      InstCheck=lambda *a: InstCheckError(*a), IndexOutOfRange=lambda *a: IndexError(*a)),
             ValueError=ValueError, IndexError=IndexError, TypeError=TypeError, KeyError=KeyError, NotImplementedError=NotImplementedError,
             ZeroDivisionError=ZeroDivisionError, StopIteration=StopIteration,
             SupportsIndex=SupportsIndex, slice=slice, Collection=Collection, Sequence=Sequence, Set=Set,
             echeck=Obj('echeck', inst=lambda o, t: o), check=Obj('check', inst=lambda o, t: o),
             EMPTY_SEQ=(), EMPTY_SET=frozenset(), filterfalse=lambda f, x: tuple(_it.filterfalse(f, x)), chain=_it.chain, repeat=_it.repeat,
             object=object, type=type, isinstance=isinstance, abs=abs, int=int, range=range, setattr=setattr, getattr=getattr, hash=hash,
             NotImplemented=NotImplemented, float=float, deque=deque)
    it = Interp(g, where=where)
    # module-level functions of the modules involved, folded on demand (generators are collected)
    for mod in modnames:
        for st in m.trees[mod].body:
            if isinstance(st, ast.FunctionDef) and st.name not in it.g:
                isgen = any(isinstance(n, (ast.Yield, ast.YieldFrom)) for n in ast.walk(st))
                if isgen:
                    it.g[st.name] = (lambda fn: (lambda *a, **k: iter(it.generate(fn, list(a), k))))(st)
                else:
                    it.g[st.name] = (lambda fn: (lambda *a, **k: it.call(fn, list(a), k)))(st)
    return it


def observe(c, universe, slices=True):
    "everything the read API says about the container"
    seq = list(iter(c))
    out = dict(seq=seq, len=len(c))
    out['contains'] = {v: (v in c) for v in universe}
    out['getitem'] = [c[i] for i in range(len(seq))] if len(seq) == out['len'] else None
    out['neg'] = [c[-i - 1] for i in range(len(seq))] if len(seq) == out['len'] else None
    try:
        out['reversed'] = list(reversed(c))
    except EXC as e:
        out['reversed'] = f'raises {e}'
    out['slices'] = {}
    for sl in (READ_SLICES if slices else ()):
        try:
            out['slices'][sl] = list(c[slice(*sl)])
        except EXC as e:
            out['slices'][sl] = f'raises {type(e).__name__}: {e}'
    return out


# slice reads: both directions, strides that do and do not divide the span
READ_SLICES = ((None, None, 2), (None, None, -1), (None, None, -2), (None, None, -3), (1, None, 2), (-1, 0, -2), (0, 2, 1))


def consistent(obs, universe):
    seq = obs['seq']
    probs = []
    if len(set(seq)) != len(seq):
        probs.append(f'[duplicate] iteration yields a duplicate: {seq}')
    if obs['len'] != len(seq):
        probs.append(f'[len] len() = {obs["len"]} but iteration yields {len(seq)} items')
    bad = [v for v in universe if obs['contains'][v] != (v in seq)]
    if bad:
        probs.append(f'[membership] `in` disagrees with iteration for {bad} (iteration {seq})')
    if obs['getitem'] is not None and obs['getitem'] != seq:
        probs.append(f'[indexing] indexing yields {obs["getitem"]}, iteration {seq}')
    if obs['neg'] is not None and obs['neg'] != seq[::-1]:
        probs.append(f'[indexing] negative indexing yields {obs["neg"]}, expected {seq[::-1]}')
    if obs['reversed'] != seq[::-1]:
        probs.append(f'[reversed] reversed() yields {obs["reversed"]}, iteration {seq}')
    for sl, got in obs.get('slices', {}).items():
        if got != seq[slice(*sl)]:
            probs.append(f'[slice-read] c[{":".join("" if x is None else str(x) for x in sl)}] yields {got}, the sequence gives {seq[slice(*sl)]}')
            break
    return probs


# ---- reference model: a list without duplicates ------------------------------------------------
class Reject(Exception):
    pass


def model_apply(lst, op, args, conflict=None):
    "returns the new list, or raises Reject when the ordered-set contract refuses the operation"
    l = _model_apply(lst, op, args)
    if conflict is not None and conflict(l):
        raise Reject('conflict')
    return l


def _model_apply(lst, op, args):
    l = list(lst)
    if op == 'insert':
        i, v = args
        if v in l:
            raise Reject('duplicate')
        l.insert(i, v)
    elif op == 'append':
        v, = args
        if v in l:
            raise Reject('duplicate')
        l.append(v)
    elif op == 'add':
        v, = args
        if v not in l:
            l.append(v)
    elif op == 'remove':
        v, = args
        if v not in l:
            raise Reject('missing')
        l.remove(v)
    elif op == 'discard':
        v, = args
        if v in l:
            l.remove(v)
    elif op == 'pop':
        if not l:
            raise Reject('empty')
        l.pop(*args)
    elif op == 'delitem':
        k, = args
        try:
            del l[k]
        except IndexError:
            raise Reject('index')
    elif op == 'setitem':
        k, v = args
        if isinstance(k, slice):
            v = list(v)
            if len(range(*k.indices(len(l)))) != len(v):
                raise Reject('size')
            l[k] = v
        else:
            try:
                l[k] = v
            except IndexError:
                raise Reject('index')
        if len(set(l)) != len(l):
            raise Reject('duplicate')
    elif op == 'clear':
        l = []
    elif op == 'reverse':
        l.reverse()
    elif op == 'sort':
        l.sort()
    elif op == 'extend':
        vs, = args
        for v in vs:
            if v in l:
                raise Reject('duplicate')       # (the prefix before the duplicate is kept: handled by the caller)
            l.append(v)
    elif op == 'update':
        vs, = args
        for v in vs:
            if v not in l:
                l.append(v)
    elif op == 'wedge':
        v, nb, rel = args
        if nb not in l or v in l or rel not in (-1, 1):
            raise Reject('wedge')
        i = l.index(nb)
        l.insert(i if rel == -1 else i + 1, v)
    else:
        raise AnalysisError(f'ordset model: unknown op {op}')
    return l


def real_apply(c, op, args):
    if op == 'delitem':
        del c[args[0]]
    elif op == 'setitem':
        c[args[0]] = args[1]
    else:
        getattr(c, op)(*args)


def operations(n, universe, extra=()):
    U = universe
    for v in U:
        for i in range(-n - 1, n + 2):
            yield 'insert', (i, v)
        yield 'append', (v,)
        yield 'add', (v,)
        yield 'remove', (v,)
        yield 'discard', (v,)
    yield 'pop', ()
    for i in range(-n - 1, n + 1):
        yield 'delitem', (i,)
        if -n <= i < n:
            yield 'pop', (i,)
        for v in U:
            yield 'setitem', (i, v)
    for sl in (slice(0, 2), slice(1, None), slice(None, None, 2), slice(0, 0), slice(1, 3), slice(None, None, -1), slice(None, None, -2), slice(None, None, -3), slice(None, None, 3)):
        yield 'delitem', (sl,)
        k = len(range(*sl.indices(n)))
        for vals in itertools.product(U, repeat=k):
            yield 'setitem', (sl, list(vals))
        if k:
            yield 'setitem', (sl, list(U[:k + 1]))
    yield 'clear', ()
    yield 'reverse', ()
    for vs in ((U[0], U[1]), (U[-1], U[0]), ()):
        yield 'extend', (list(vs),)
        yield 'update', (list(vs),)
    yield from extra


def step_check(make, universe, states, ops_for, label, has_sort=False, partial_ok=('extend', 'update'), conflict=None, extra_reads=None):
    """make(seq) -> fresh container holding seq.  For every state and operation: compare with the model."""
    results = []
    for seq in states:
        n = len(seq)
        ops = list(ops_for(n))
        if has_sort:
            ops.append(('sort', ()))
        for op, args in ops:
            case = f'{label}({list(seq)}).{op}{tuple(args)}'
            try:
                c = make(seq)
                before = observe(c, universe, slices=False)
            except EXC as e:
                results.append((False, op, case, f'building the state raises {type(e).__name__}: {e}'))
                continue
            pre = consistent(before, universe)
            if pre or before['seq'] != list(seq):
                results.append((False, op, case, f'state built through the API is already wrong: {pre or before["seq"]}'))
                continue
            try:
                want = model_apply(seq, op, args, conflict)
                rejected = None
            except Reject as r:
                want, rejected = None, str(r)
            try:
                real_apply(c, op, args)
                raised = None
            except EXC as e:
                raised = f'{type(e).__name__}: {e.text if isinstance(e, Raised) else e}'
            try:
                after = observe(c, universe)
            except EXC as e:
                results.append((False, op, case, f'reading the container afterwards raises {type(e).__name__}: {e}'))
                continue
            probs = consistent(after, universe)
            if extra_reads is not None:
                try:
                    probs += extra_reads(c, after['seq'])
                except EXC as e:
                    probs.append(f'[lookup] reading the lookup index raises {type(e).__name__}: {e}')
            if rejected is not None:
                if raised is None:
                    probs.append(f'[accepted-{rejected}] accepted although the ordered-set contract rejects it ({rejected}); contents now {after["seq"]}')
                elif after['seq'] != list(seq) and not (op in partial_ok):
                    probs.append(f'[changed-on-reject] raised {raised} but the contents changed: {list(seq)} -> {after["seq"]}')
            else:
                if raised is not None:
                    probs.append(f'[raises] raises {raised} although the operation is legal (model result {want})')
                elif after['seq'] != want:
                    probs.append(f'[contents] contents {after["seq"]}, the list-without-duplicates model gives {want}')
            results.append((not probs, op, case, '; '.join(probs) or 'agrees with the model'))
        # copy independence
        try:
            c = make(seq)
            d = c.copy()
            fresh = [u for u in universe if u not in seq and not (conflict is not None and conflict(list(seq) + [u]))]
            if fresh:
                d.append(fresh[0])
            if seq:
                del d[0]
            oc, od = observe(c, universe, slices=False), observe(d, universe, slices=False)
            want_d = (list(seq) + fresh[:1])[1 if seq else 0:]
            probs = consistent(oc, universe) + consistent(od, universe)
            if oc['seq'] != list(seq):
                probs.append(f'[copy] changing the copy changed the original: {oc["seq"]}')
            if od['seq'] != want_d:
                probs.append(f'[copy] the copy holds {od["seq"]}, expected {want_d}')
        except EXC as e:
            probs = [f'raises {type(e).__name__}: {e}']
        results.append((not probs, 'copy', f'{label}({list(seq)}).copy() then append/delete on the copy', '; '.join(probs) or 'independent'))
    return results


def small_states(universe, maxlen, deep=True):
    for n in range(0, maxlen + 1):
        for seq in itertools.permutations(universe[:maxlen + 1], n):
            if not deep and n == maxlen and seq != tuple(sorted(seq)) and seq != tuple(sorted(seq, reverse=True)):
                continue        # quick tier: of the longest states only the ascending and the descending one
            yield seq


# ---- qset --------------------------------------------------------------------------------------
def fold_qset_blackbox(m: Model, deep=False):
    consulted = set()
    it = base_interp(m, 'tools/hybrids.py qset', [TOOLS])
    def new(cls, *a, **k):
        c = object.__new__(cls)
        c._set_, c._seq_ = set(), list()
        return c
    QS = bound_class(m, it, ClassRef(HYB, 'qset'), base=(MutableSequence, MutableSet), consulted=consulted, with_init=True,
                     extra_ns=dict(__new__=new, _from_iterable=classmethod(lambda cls, it_: cls(it_))))
    it.g['qset'] = QS
    it.g['qsetf'] = QS

    def make(seq):
        c = QS()
        for v in seq:
            c.append(v)
        return c
    U = ('a', 'b', 'c', 'd') if deep else ('a', 'b', 'c')
    states = list(small_states(U, 3, deep))
    res = step_check(make, U, states, lambda n: operations(n, U), 'qset', has_sort=True)
    res += long_reads(make, 'qset')
    return res, sorted(consulted)


# ---- linqset -----------------------------------------------------------------------------------
def build_linqset(m: Model):
    "-> (make(seq), consulted): tools/linked.linqset rebuilt as an MRO-bound class"
    consulted = set()
    it = base_interp(m, 'tools/linked.py linqset', [TOOLS, LNK])
    # LinkRel mirror read from the enum body
    rel = {}
    for st in m.clsdef(ClassRef(LNK, 'LinkRel')).body:
        if isinstance(st, ast.Assign) and isinstance(st.targets[0], ast.Name):
            try:
                rel[st.targets[0].id] = ast.literal_eval(st.value)
            except ValueError:
                pass
    if sorted(rel.values()) != [-1, 0, 1]:
        raise AnalysisError(f'LinkRel members not readable: {rel}')

    class LinkRelM(int):
        name = property(lambda s: {v: k for k, v in rel.items()}[int(s)])

        def __neg__(self):
            return LinkRelM(-int(self))
    _members = {v: LinkRelM(v) for v in rel.values()}

    def LinkRel(x):
        if x != int(x) or int(x) not in _members:
            raise ValueError(x)
        return _members[int(x)]
    for k, v in rel.items():
        setattr(LinkRel, k, _members[v])
    it.g['LinkRel'] = LinkRel
    Link = bound_class(m, it, ClassRef(LNK, 'Link'), consulted=consulted, with_init=True)
    HashLink = bound_class(m, it, ClassRef(LNK, 'HashLink'), consulted=consulted, with_init=True, with_eq=True)
    it.g['Link'], it.g['HashLink'] = Link, HashLink
    def new(cls, *a, **k):
        c = object.__new__(cls)
        setattr(c, '__link_first__', None)
        setattr(c, '__link_last__', None)
        setattr(c, '__len', 0)
        setattr(c, '__table', dict())
        return c
    LQ = bound_class(m, it, ClassRef(LNK, 'linqset'), base=(MutableSequence, MutableSet), consulted=consulted, with_init=True,
                     extra_ns=dict(_link_type_=HashLink, __new__=new, _from_iterable=classmethod(lambda cls, it_: cls(it_))))
    it.g['linqset'] = LQ

    def make(seq):
        c = LQ()
        for v in seq:
            c.append(v)
        return c
    return make, consulted


def fold_linqset_reads(m: Model):
    "positional reads of linqset on containers of 5-7 members (what Tableau.open is): index, negative index, index(), after removals"
    make, consulted = build_linqset(m)
    return long_reads(make, 'linqset'), sorted(consulted)


def fold_linqset_blackbox(m: Model, deep=False):
    make, consulted = build_linqset(m)
    U = ('a', 'b', 'c', 'd') if deep else ('a', 'b', 'c')
    states = list(small_states(U, 3, deep))

    def ops(n):
        extra = [('wedge', (v, nb, r)) for v in U for nb in U for r in (-1, 1)]
        yield from operations(n, U, extra)
    res = step_check(make, U, states, ops, 'linqset')
    res += long_reads(make, 'linqset')
    return res, sorted(consulted)


def long_reads(make, label, sizes=(5, 6, 7)):
    """Positional reads on containers longer than the step states (index scans from either end meet in the middle only there):
    every index, negative index, index() of every member and a few removals agree with the list model."""
    out = []
    for n in sizes:
        seq = list(range(10, 10 + n))
        for removed in (None, seq[n // 2], seq[-2]):
            want = [v for v in seq if v != removed]
            case = f'{label}({seq})' + (f' after remove({removed})' if removed is not None else '')
            try:
                c = make(seq)
                if removed is not None:
                    c.remove(removed)
                got_pos = [c[i] for i in range(len(want))]
                got_neg = [c[-i - 1] for i in range(len(want))]
                got_idx = [c.index(v) for v in want] if hasattr(c, 'index') else list(range(len(want)))
                probs = []
                if list(iter(c)) != want:
                    probs.append(f'[order] iteration {list(iter(c))}, model {want}')
                if got_pos != want:
                    probs.append(f'[indexing] c[0..{len(want) - 1}] yields {got_pos}, model {want}')
                if got_neg != want[::-1]:
                    probs.append(f'[indexing] negative indexes yield {got_neg}, model {want[::-1]}')
                if got_idx != list(range(len(want))):
                    probs.append(f'[lookup] index() of the members yields {got_idx}')
            except EXC as e:
                probs = [f'[raises] {type(e).__name__}: {e}']
            out.append((not probs, 'getitem', case, '; '.join(probs) or 'ok'))
    return out


# ---- Predicates store --------------------------------------------------------------------------
COL = 'pytableaux.lang.collect'


class ValueConflictError(ValueError):
    pass


def fold_predicates_blackbox(m: Model, deep=False):
    """lang/collect.Predicates: an ordered set of predicates in which no two members share a symbol (index, subscript)
    with different arities, and every member is found by each of its references."""
    consulted = set()
    it = base_interp(m, 'lang/collect.py Predicates', [TOOLS])
    it.g['Emsg'].ValueConflictFor = lambda *a: ValueConflictError(*a)
    it.g['ValueConflictError'] = ValueConflictError
    it.g['NOARG'] = object()
    it.g['MapProxy'] = lambda d: d

    class P:
        def __init__(self, index, subscript, arity):
            self.spec = (index, subscript, arity)
            self.bicoords = (index, subscript)
            self.ident = ('Predicate', self.spec)
            self.name = self.spec
            self.arity = arity
            self.refs = (self.spec, self.ident, self.bicoords, self.name)

        def __eq__(self, o):
            return isinstance(o, P) and o.spec == self.spec

        def __ne__(self, o):
            return not self.__eq__(o)

        def __hash__(self):
            return hash(self.ident)

        def __lt__(self, o):
            return self.spec < o.spec

        def __repr__(self):
            return 'P%d/%d' % (self.spec[0], self.spec[2])

    def cast(v):
        if isinstance(v, P):
            return v
        raise TypeError(v)
    PredC = Obj('Predicate', System={})
    PredC.__class__ = type('PredicateCls', (Obj,), {'__call__': lambda s_, v: cast(v)})
    it.g['Predicate'] = PredC

    def new(cls, *a, **k):
        c = object.__new__(cls)
        c._set_, c._seq_ = set(), list()
        return c
    PS = bound_class(m, it, ClassRef(COL, 'Predicates'), base=(MutableSequence, MutableSet), consulted=consulted, with_init=True,
                     extra_ns=dict(__new__=new, _from_iterable=classmethod(lambda cls, it_: cls(it_))))
    it.g['Predicates'] = PS
    it.g['qset'] = PS
    F1, F2, G1, H1 = P(0, 0, 1), P(0, 0, 2), P(1, 0, 1), P(2, 0, 1)
    U = (F1, F2, G1) if not deep else (F1, F2, G1, H1)

    def conflict(l):
        return len(set(l)) != len(l) or len({p.bicoords for p in l}) != len(l)

    def make(seq):
        c = PS()
        for v in seq:
            c.append(v)
        return c

    def extra_reads(c, seq):
        probs = []
        for p in U:
            for ref in p.refs:
                member = next((q for q in seq if ref in q.refs), None)
                has = ref in c
                if has != (member is not None):
                    probs.append(f'[lookup] `{ref!r} in store` is {has} but the members are {seq}')
                    continue
                if member is not None:
                    got = c.get(ref)
                    if got is not member and got != member:
                        probs.append(f'[lookup] get({ref!r}) returns {got!r}, the member with that reference is {member!r}')
        return probs
    states = [s_ for s_ in small_states(U, len(U) - 1, True) if not conflict(list(s_))]
    res = step_check(make, U, states, lambda n: operations(n, U), 'Predicates', has_sort=True, conflict=conflict, extra_reads=extra_reads)
    return res, sorted(consulted)
