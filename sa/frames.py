"""Frame conditions as Horn clauses, extracted (a) from the loop nests of each
`Access.enforce` in models/__init__.py and (b) from the schemas of the frame
rules in proof/rules.py (`access.Serial/Reflexive/Transitive/Symmetric`)."""
from __future__ import annotations

import ast

from . import astq
from .core import AnalysisError
from .model import ClassRef, FuncRef, Model

MODELS = 'pytableaux.models'
RULES = 'pytableaux.proof.rules'
HELPERS = 'pytableaux.proof.helpers'

REFL = ('REFL', 'R(x,x) <- world(x)')
TRANS = ('TRANS', 'R(x,z) <- R(x,y), R(y,z)')
SYMM = ('SYMM', 'R(y,x) <- R(x,y)')
SERIAL = ('SERIAL', 'every world without a successor sees one fresh world, which sees itself')

FRAME_OF = {
    'K': frozenset(),
    'D': frozenset({SERIAL}),
    'T': frozenset({REFL}),
    'S4': frozenset({REFL, TRANS}),
    'S5': frozenset({REFL, TRANS, SYMM}),
}


class Unsupported(AnalysisError):
    pass


def canon(head, atoms):
    """Rename variables in order of first occurrence in the loop nest."""
    order = {}
    for a in atoms:
        for v in a[1:]:
            order.setdefault(v, f'v{len(order)}')
    for v in head:
        if v not in order:
            raise Unsupported(f'head variable {v} not bound by a loop')
    body = frozenset((a[0],) + tuple(order[v] for v in a[1:]) for a in atoms)
    h = tuple(order[v] for v in head)
    table = {
        (('v0', 'v0'), frozenset({('W', 'v0')})): REFL,
        (('v0', 'v2'), frozenset({('W', 'v0'), ('R', 'v0', 'v1'), ('R', 'v1', 'v2')})): TRANS,
        (('v1', 'v0'), frozenset({('W', 'v0'), ('R', 'v0', 'v1')})): SYMM,
    }
    k = (h, body)
    if k not in table:
        raise Unsupported(f'clause {h} <- {sorted(body)} is not a recognised frame clause')
    return table[k]


_enforce_cache = {}


def closure_of(pairs, worlds, clauses):
    "least relation containing `pairs` on `worlds` closed under the clause set (SERIAL: one fresh world for all dead ends)"
    R = set(pairs)
    W = set(worlds)
    if SERIAL in clauses:
        dead = sorted(w for w in W if not any(a == w for a, b in R))
        if dead:
            new = max(W) + 1
            R |= {(d, new) for d in dead} | {(new, new)}
            W.add(new)
    changed = True
    while changed:
        changed = False
        add = set()
        if REFL in clauses:
            add |= {(w, w) for w in W}
        if SYMM in clauses:
            add |= {(b, a) for a, b in R}
        if TRANS in clauses:
            add |= {(a, d) for a, b in R for c, d in R if b == c}
        if not add <= R:
            R |= add
            changed = True
    return R, W


def enforce_clauses(m: Model, cls: ClassRef, seen=None):
    """(clauses, info): which frame conditions `cls.enforce` (folded through the class's MRO, super() included) establishes.
    The definition is run on every relation over the worlds {0,1,2} (and world 0 always present); a condition belongs to
    the class iff every result satisfies it; the result must be exactly the least closure of the input under those
    conditions (nothing lost, nothing extra) -- otherwise `info['problems']` says on which relation it is not."""
    import itertools
    from collections import defaultdict
    from .bind import bound_class
    from .minieval import Interp, Raised
    key = (id(m), cls)
    if key in _enforce_cache:
        return _enforce_cache[key]
    consulted = set()
    it = Interp({}, where=f'{cls.qualname}.enforce')
    AC = bound_class(m, it, cls, base=defaultdict, consulted=consulted)
    worlds = (0, 1, 2)
    allpairs = [(a, b) for a in worlds for b in worlds]
    results = []
    info = dict(where=[], fixpoint=True, supercall_in_loop=True, problems=[])
    graphs = [pairs for r in range(0, 6) for pairs in itertools.combinations(allpairs, r)]   # every shape of fork / chain / cycle on three worlds
    # chains and trees on four / five worlds: closures that need more than one pass
    graphs += [((0, 1), (1, 2), (2, 3)), ((0, 1), (1, 2), (2, 3), (3, 4)), ((0, 1), (0, 2), (2, 3)), ((1, 0), (2, 1), (3, 2)), ((0, 1), (2, 1), (2, 3)),
               ((0, 1), (1, 2), (2, 3), (3, 0))]
    for pairs in graphs:
        if True:
            R = AC(set)
            R[0]
            for a, b in pairs:
                R[a].add(b)
                R[b]
            W0 = set(R)
            try:
                R.enforce()
            except Raised as e:
                info['problems'].append(f'enforce() raises {e.text} on {sorted(pairs)}')
                continue
            except (TypeError, KeyError, AttributeError, ValueError, RuntimeError) as e:
                info['problems'].append(f'enforce() raises {type(e).__name__}: {e} on {sorted(pairs)}')
                continue
            out = {(a, b) for a, bs in R.items() for b in bs}
            results.append((frozenset(pairs), frozenset(W0), frozenset(out), frozenset(set(R) | {b for _, b in out})))
    info['where'] = sorted(consulted)
    clauses = set()
    if results:
        if all(all(any(a == w for a, b in out) for w in W) for _, _, out, W in results):
            clauses.add(SERIAL)
        if all(all((w, w) in out for w in W) for _, _, out, W in results):
            clauses.add(REFL)
        if all(all((b, a) in out for a, b in out) for _, _, out, W in results):
            clauses.add(SYMM)
        if all(all((a, d) in out for a, b in out for c, d in out if b == c) for _, _, out, W in results):
            clauses.add(TRANS)
        if REFL in clauses:
            clauses.discard(SERIAL)     # reflexive relations are serial; the class is named by the stronger condition
        bad = 0
        for pairs, W0, out, W in results:
            want, _ = closure_of(pairs, W0, clauses)
            if out != want and bad < 3:
                bad += 1
                miss, extra = sorted(want - out), sorted(out - want)
                info['problems'].append(f'on the relation {sorted(pairs)} enforce() yields {sorted(out)}: '
                                        + (f'lacks {miss} of the {sorted(c[0] for c in clauses)} closure' if miss else '')
                                        + (f' adds {extra} beyond it' if extra else ''))
    out_ = (frozenset(clauses), info)
    _enforce_cache[key] = out_
    return out_


# ---- frame rules (tableau side) ----------------------------------------------
ACCESS_BASES = {
    'access.Serial': SERIAL, 'access.Reflexive': REFL, 'access.Transitive': TRANS, 'access.Symmetric': SYMM,
}


def access_base(m: Model, rc: ClassRef):
    for c in m.mro(rc):
        if c.module == RULES and c.qualname in ACCESS_BASES:
            return c.qualname
    return None


def rule_clause(sch, basename):
    """Horn clause of an access rule from its extracted schema."""
    if len(sch.branches) != 1 or len(sch.branches[0]) != 1 or sch.branches[0][0].kind != 'access':
        raise Unsupported(f'{sch.rule}: frame rule adds {sch.show()}')
    it = sch.branches[0][0]
    pair = (it.w1, it.w2)
    if pair == (('nodeworld',), ('nodeworld',)):
        return REFL
    if pair == (('w2',), ('w1',)):
        return SYMM
    if it.w1 == ('w1',) and it.w2 == ('intransitive', ('pair', ('w1',), ('w2',))):
        return TRANS
    if it.w1 == ('unserial',) and it.w2 == ('fresh_world',):
        return SERIAL
    return ('OTHER', f'{pair}')


def helper_semantics_ok(m: Model):
    """The helper queries the frame-rule schemas rely on (WorldIndex.intransitives / has, UnserialWorlds), folded
    (sa.helpersfold): [(ok, what, where)]."""
    from . import helpersfold
    out = []
    for fold in (helpersfold.fold_world_index, helpersfold.fold_unserial):
        res, cons = fold(m)
        bad = [f'{case}: {detail}' for ok, case, detail in res if not ok]
        out.append((not bad, fold.__name__[5:] + ('' if not bad else ' -- ' + bad[0][:200]), cons[0].split(' ')[0] if cons else 'pytableaux/proof/helpers.py'))
    return out


def expected_frame(lg, lgs):
    """Frame named by the logic: K/D/T/S4/S5 or <prefix><non-modal logic name>."""
    n = lg.name
    if n in FRAME_OF:
        return n
    nonmodal = {x.name for x in lgs if not x.modal}
    for p in ('S4', 'S5', 'K', 'T', 'D'):
        if n.startswith(p) and n[len(p):] in nonmodal:
            return p
    raise AnalysisError(f'modal logic {n}: cannot tell its frame from its name')


def fold_access_rules(m: Model, deep=False):
    """The access (frame) rules folded on *concrete* branches: for every relation over three worlds and every node the rule is
    offered, the targets it yields are exactly the missing instances of its clause --
        Reflexive:  (w, w) for each world w of the node;    Symmetric:  (w2, w1) for an access node (w1, w2);
        Transitive: (w1, w3) for every (w2, w3) on the branch.
    So iterating the rules reaches exactly the closure the frame condition requires.  (The symbolic schemas compare the *shape*
    of what a rule adds; a rule that adds the right shape only for some nodes -- w1 < w2, say -- shows here.)"""
    import collections
    import itertools
    from .bind import bound_class, make_self
    from .minieval import Interp, Obj, Raised
    PROOF = 'pytableaux.proof'
    HELPERS = 'pytableaux.proof.helpers'
    consulted, out = set(), []
    WorldIndex, FilterHelper, MaxWorlds = Obj('WorldIndex'), Obj('FilterHelper'), Obj('MaxWorlds')

    class AccessNodeM(dict):
        def pair(s_):
            return WP(s_['world1'], s_['world2'])

        def worlds(s_):
            return tuple(v for k, v in s_.items() if k in ('world', 'world1', 'world2'))

        def __hash__(s_):
            return id(s_)
    g = dict(WorldIndex=WorldIndex, FilterHelper=FilterHelper, MaxWorlds=MaxWorlds, AccessNode=lambda mp: AccessNodeM(mp),
             Node=Obj('Node', Key=Obj('Key', world1='world1', world2='world2', world='world')),
             anode=lambda a, b: AccessNodeM(world1=a, world2=b), adds=lambda *groups, **kw: dict(adds=groups, **kw), group=lambda *a: tuple(a),
             filterfalse=itertools.filterfalse, reversed=lambda x: tuple(reversed(x)), map=map)
    it = Interp(g, where='proof/rules.py access rules (concrete)', modtree=m.trees[RULES])
    WPB = bound_class(m, it, ClassRef(PROOF, 'WorldPair'), base=tuple, consulted=consulted, only=('tonode', 'reversed', 'w1', 'w2'))

    class WP(WPB):
        _fields = ('world1', 'world2')

        def __new__(cls, a, b):
            return tuple.__new__(cls, (a, b))
        world1 = property(lambda s_: s_[0])
        world2 = property(lambda s_: s_[1])

        @classmethod
        def _make(cls, itr):
            return cls(*itr)
    it.g['WorldPair'] = WP
    IndexC = bound_class(m, it, ClassRef(HELPERS, 'WorldIndex'), base=dict, consulted=consulted, only=('has', 'intransitives'))
    worlds = (0, 1, 2)
    allpairs = [(a, b) for a in worlds for b in worlds]
    maxsize = 9 if deep else 3
    rels = [frozenset(c) for k in range(maxsize + 1) for c in itertools.combinations(allpairs, k)]
    for base in ('Reflexive', 'Symmetric', 'Transitive'):
        rc = ClassRef(RULES, f'access.{base}')
        fn, _ = m.method(rc, '_get_targets')
        if fn is None:
            raise AnalysisError(f'access.{base}._get_targets not found')
        nbad = 0
        for rel in rels:
            br = Obj('branch')
            bynode = {p: AccessNodeM(world1=p[0], world2=p[1]) for p in rel}
            br.find = lambda mp, bynode=bynode: bynode.get((mp.get('world1'), mp.get('world2')))
            idx = IndexC()
            idx[br] = collections.defaultdict(set)
            for a, b in rel:
                idx[br][a].add(b)
            released = []
            helpers = {WorldIndex: idx, FilterHelper: Obj('filterhelper', release=lambda n_, b_: released.append(n_)),
                       MaxWorlds: Obj('maxworlds', is_exceeded=lambda b_: False, is_reached=lambda b_: False)}
            rule = make_self(m, it, rc, consulted=consulted, extra_ns={'__getitem__': lambda s_, k: s_._helpers[k]}, _helpers=helpers, name=base)
            nodes = [bynode[p] for p in sorted(rel)]
            if base == 'Reflexive':
                nodes = nodes + [AccessNodeM(world=w) for w in worlds if any(w in p for p in rel) or not rel][:3]
            for node in nodes:
                try:
                    targets = it.generate(fn.node, [rule, node, br])
                    err = None
                except Raised as e:
                    targets, err = [], e.text
                except (TypeError, KeyError, AttributeError, ValueError, IndexError) as e:
                    targets, err = [], f'{type(e).__name__}: {e}'
                got = set()
                for t in targets:
                    for grp in (t.get('adds', ()) if isinstance(t, dict) else ()):
                        for nd in grp:
                            got.add((nd.get('world1'), nd.get('world2')))
                if base == 'Reflexive':
                    want = {(w, w) for w in node.worlds()} - rel
                elif base == 'Symmetric':
                    w1, w2 = node['world1'], node['world2']
                    want = {(w2, w1)} - rel
                else:
                    w1, w2 = node['world1'], node['world2']
                    want = {(w1, w3) for (x, w3) in rel if x == w2} - rel
                ok = err is None and got == want
                if not ok:
                    nbad += 1
                out.append((ok, base, f'access.{base}: relation {sorted(rel)}, node {dict(node)}',
                            f'the rule offers {sorted(got)}' + (f' (error {err})' if err else '') + f'; the {base.lower()} clause requires exactly {sorted(want)} here'))
    return out, sorted(consulted)
