"""Frame conditions as Horn clauses, extracted (a) from the loop nests of each
`Access.enforce` in models/__init__.py and (b) from the schemas of the frame
rules in proof/rules.py (`access.Serial/Reflexive/Transitive/Symmetric`)."""
from __future__ import annotations

import ast

from . import astq
from .core import AnalysisError
from .model import ClassRef, FuncRef, Model

MODELS = 'pytableaux.models'
RULES = 'pytableaux.proof.rules'
HELPERS = 'pytableaux.proof.helpers'

REFL = ('REFL', 'R(x,x) <- world(x)')
TRANS = ('TRANS', 'R(x,z) <- R(x,y), R(y,z)')
SYMM = ('SYMM', 'R(y,x) <- R(x,y)')
SERIAL = ('SERIAL', 'every world without a successor sees one fresh world, which sees itself')

FRAME_OF = {
    'K': frozenset(),
    'D': frozenset({SERIAL}),
    'T': frozenset({REFL}),
    'S4': frozenset({REFL, TRANS}),
    'S5': frozenset({REFL, TRANS, SYMM}),
}


class Unsupported(AnalysisError):
    pass


def canon(head, atoms):
    """Rename variables in order of first occurrence in the loop nest."""
    order = {}
    for a in atoms:
        for v in a[1:]:
            order.setdefault(v, f'v{len(order)}')
    for v in head:
        if v not in order:
            raise Unsupported(f'head variable {v} not bound by a loop')
    body = frozenset((a[0],) + tuple(order[v] for v in a[1:]) for a in atoms)
    h = tuple(order[v] for v in head)
    table = {
        (('v0', 'v0'), frozenset({('W', 'v0')})): REFL,
        (('v0', 'v2'), frozenset({('W', 'v0'), ('R', 'v0', 'v1'), ('R', 'v1', 'v2')})): TRANS,
        (('v1', 'v0'), frozenset({('W', 'v0'), ('R', 'v0', 'v1')})): SYMM,
    }
    k = (h, body)
    if k not in table:
        raise Unsupported(f'clause {h} <- {sorted(body)} is not a recognised frame clause')
    return table[k]


def enforce_clauses(m: Model, cls: ClassRef, seen=None):
    """(clauses, info) for cls.enforce including what it inherits through super().enforce()."""
    fn, owner = m.method(cls, 'enforce')
    if not isinstance(fn, FuncRef):
        raise Unsupported(f'{cls}.enforce not found')
    return _enforce_fn(m, fn, owner, cls)


def _enforce_fn(m, fn: FuncRef, owner: ClassRef, cls: ClassRef):
    node = fn.node
    where = m.floc(fn)
    body = astq.stmts(node)
    info = dict(where=[where], fixpoint=False, supercall_in_loop=False, problems=[])
    clauses = set()
    if len(body) == 1 and isinstance(body[0], ast.Pass):
        return frozenset(), info
    src = ast.unparse(node)
    # serial form (no loop nest over successors: a comprehension of dead ends)
    if 'needs_world' in src or ('max(self) + 1' in src):
        need = ['{w for w in self if not self[w]}', 'max(self) + 1']
        if not all(x in src for x in need):
            raise Unsupported(f'{where}: serial enforce not in the recognised form')
        adds = [astq.u(c) for c in astq.calls(node) if astq.call_name(c) in ('add', 'self.add')]
        if sorted(adds) != sorted(['add((w1, w2))', 'add((w2, w2))']) or 'for w1 in needs_world' not in src \
                or 'add = self.add' not in src:
            raise Unsupported(f'{where}: serial enforce adds {adds}')
        # the additions must be conditional on there being a dead end
        return frozenset({SERIAL}), info
    aliases = {'self.add': 'direct'}
    deferred = None
    flushed = False

    def visit(stmts, loops, in_while):
        nonlocal deferred, flushed
        for st in stmts:
            if isinstance(st, ast.While):
                if astq.u(st.test) != 'True':
                    raise Unsupported(f'{where}: while {astq.u(st.test)}')
                info['fixpoint'] = True
                visit(st.body, loops, True)
                if not any(isinstance(x, ast.If) and isinstance(x.body[-1], ast.Break) and astq.u(x.test) == 'not to_add'
                           for x in st.body):
                    info['problems'].append('the closure loop does not run until nothing new is added (`if not to_add: break` is gone)')
                if any(isinstance(x, ast.Break) for x in st.body):
                    info['fixpoint'] = False
                    info['problems'].append('the closure loop breaks unconditionally: a single pass, not a fixpoint')
                continue
            if isinstance(st, ast.For):
                it = astq.u(st.iter)
                if astq.u(st.target) == '_' and it == 'map(self.add, to_add)':
                    flushed = True
                    continue
                if not isinstance(st.target, ast.Name):
                    raise Unsupported(f'{where}: loop target {astq.u(st.target)}')
                v = st.target.id
                if it == 'self':
                    visit(st.body, loops + [('W', v)], in_while)
                elif isinstance(st.iter, ast.Subscript) and astq.u(st.iter.value) == 'self' and isinstance(st.iter.slice, ast.Name):
                    visit(st.body, loops + [('R', st.iter.slice.id, v)], in_while)
                else:
                    raise Unsupported(f'{where}: loop over {it}')
                continue
            if isinstance(st, ast.Assign) and len(st.targets) == 1 and isinstance(st.targets[0], ast.Name):
                t, val = st.targets[0].id, astq.u(st.value)
                if val == 'set()':
                    deferred = t
                    continue
                if val == f'{deferred}.add':
                    aliases[t] = 'deferred'
                    continue
                if val == 'self.add':
                    aliases[t] = 'direct'
                    continue
                raise Unsupported(f'{where}: assignment {astq.u(st)}')
            if isinstance(st, ast.If):
                # redundancy guard `if X not in self[Y]:` protecting exactly the head (Y, X)
                if isinstance(st.body[-1], ast.Break):
                    continue
                t = st.test
                ok = isinstance(t, ast.Compare) and len(t.ops) == 1 and isinstance(t.ops[0], ast.NotIn) \
                    and isinstance(t.left, ast.Name) and isinstance(t.comparators[0], ast.Subscript) \
                    and astq.u(t.comparators[0].value) == 'self' and isinstance(t.comparators[0].slice, ast.Name)
                if not ok or st.orelse:
                    raise Unsupported(f'{where}: guard `{astq.u(t)}`')
                guard_head = (t.comparators[0].slice.id, t.left.id)
                for x in st.body:
                    handle_add(x, loops, guard_head)
                continue
            handle_add(st, loops, None)

    def handle_add(st, loops, guard_head):
        if isinstance(st, (ast.Pass, ast.Break)):
            return
        if isinstance(st, ast.Expr) and isinstance(st.value, ast.Call):
            c = st.value
            name = astq.call_name(c)
            if name == 'super().enforce':
                return
            if name in aliases and len(c.args) == 1 and isinstance(c.args[0], ast.Tuple) and len(c.args[0].elts) == 2 \
                    and all(isinstance(e, ast.Name) for e in c.args[0].elts):
                head = tuple(e.id for e in c.args[0].elts)
                if guard_head is not None and guard_head != head:
                    raise Unsupported(f'{where}: guard protects {guard_head} but {head} is added')
                clauses.add(canon(head, loops))
                return
        raise Unsupported(f'{where}: statement `{astq.u(st)[:60]}`')

    visit(body, [], False)
    if 'deferred' in aliases.values() and not flushed:
        raise Unsupported(f'{where}: collected pairs are never added to the relation')
    inherited = frozenset()
    supers = [c for c in astq.calls(node) if astq.call_name(c) == 'super().enforce']
    if supers:
        mro = m.mro(cls)
        pfn, powner = m.method(cls, 'enforce', after=owner)
        if isinstance(pfn, FuncRef):
            inherited, pinfo = _enforce_fn(m, pfn, powner, cls)
            info['where'] += pinfo['where']
            info['problems'] += pinfo['problems']
        if info['fixpoint']:
            pm = astq.parent_map(node)
            info['supercall_in_loop'] = all(astq.enclosing(pm, c, ast.While) is not None for c in supers)
    if (TRANS in clauses or SYMM in clauses) and not info['fixpoint']:
        info['problems'].append(f'{fn.qualname}: transitive/symmetric closure computed in a single pass, not to a fixpoint')
    if info['fixpoint'] and inherited and not info['supercall_in_loop']:
        info['problems'].append(f'{fn.qualname}: the inherited closure ({sorted(c[0] for c in inherited)}) is applied once outside the fixpoint loop: '
                                f'pairs that become derivable only after this class adds its own are never added')
    return frozenset(clauses) | inherited, info


# ---- frame rules (tableau side) ----------------------------------------------
ACCESS_BASES = {
    'access.Serial': SERIAL, 'access.Reflexive': REFL, 'access.Transitive': TRANS, 'access.Symmetric': SYMM,
}


def access_base(m: Model, rc: ClassRef):
    for c in m.mro(rc):
        if c.module == RULES and c.qualname in ACCESS_BASES:
            return c.qualname
    return None


def rule_clause(sch, basename):
    """Horn clause of an access rule from its extracted schema."""
    if len(sch.branches) != 1 or len(sch.branches[0]) != 1 or sch.branches[0][0].kind != 'access':
        raise Unsupported(f'{sch.rule}: frame rule adds {sch.show()}')
    it = sch.branches[0][0]
    pair = (it.w1, it.w2)
    if pair == (('nodeworld',), ('nodeworld',)):
        return REFL
    if pair == (('w2',), ('w1',)):
        return SYMM
    if it.w1 == ('w1',) and it.w2 == ('intransitive', ('pair', ('w1',), ('w2',))):
        return TRANS
    if it.w1 == ('unserial',) and it.w2 == ('fresh_world',):
        return SERIAL
    return ('OTHER', f'{pair}')


def helper_semantics_ok(m: Model):
    """The two helper queries the frame-rule schemas rely on:
    WorldIndex.intransitives(branch,(w1,w2)) = worlds seen by w2 and not by w1;
    UnserialWorlds tracks worlds w with no access node <w, _> on the branch."""
    out = []
    fn = m.func(HELPERS, 'WorldIndex.intransitives')
    src = ast.unparse(fn)
    ok = 'access = self[branch]' in src and 'filterfalse(access[pair[0]].__contains__, access[pair[1]])' in src
    out.append((ok, 'WorldIndex.intransitives', m.loc(HELPERS, fn)))
    fn = m.func(HELPERS, 'WorldIndex.listen_on')
    src = ast.unparse(fn)
    ok = 'w1, w2 = node.pair()' in src and 'self[branch][w1].add(w2)' in src and 'isinstance(node, AccessNode)' in src
    out.append((ok, 'WorldIndex.listen_on', m.loc(HELPERS, fn)))
    fn = m.func(HELPERS, 'UnserialWorlds.listen_on')
    src = ast.unparse(fn)
    ok = all(x in src for x in ('for w in node.worlds()', 'node.get(Node.Key.world1) == w', 'branch.has({Node.Key.world1: w})',
                                'self[branch].discard(w)', 'self[branch].add(w)'))
    out.append((ok, 'UnserialWorlds.listen_on', m.loc(HELPERS, fn)))
    fn = m.func(HELPERS, 'WorldIndex.has')
    ok = 'return pair[1] in self[branch][pair[0]]' in ast.unparse(fn)
    out.append((ok, 'WorldIndex.has', m.loc(HELPERS, fn)))
    return out


def expected_frame(lg, lgs):
    """Frame named by the logic: K/D/T/S4/S5 or <prefix><non-modal logic name>."""
    n = lg.name
    if n in FRAME_OF:
        return n
    nonmodal = {x.name for x in lgs if not x.modal}
    for p in ('S4', 'S5', 'K', 'T', 'D'):
        if n.startswith(p) and n[len(p):] in nonmodal:
            return p
    raise AnalysisError(f'modal logic {n}: cannot tell its frame from its name')
