"""Frame conditions as Horn clauses, extracted (a) from the loop nests of each
`Access.enforce` in models/__init__.py and (b) from the schemas of the frame
rules in proof/rules.py (`access.Serial/Reflexive/Transitive/Symmetric`)."""
from __future__ import annotations

import ast

from . import astq
from .core import AnalysisError
from .model import ClassRef, FuncRef, Model

MODELS = 'pytableaux.models'
RULES = 'pytableaux.proof.rules'
HELPERS = 'pytableaux.proof.helpers'

REFL = ('REFL', 'R(x,x) <- world(x)')
TRANS = ('TRANS', 'R(x,z) <- R(x,y), R(y,z)')
SYMM = ('SYMM', 'R(y,x) <- R(x,y)')
SERIAL = ('SERIAL', 'every world without a successor sees one fresh world, which sees itself')

FRAME_OF = {
    'K': frozenset(),
    'D': frozenset({SERIAL}),
    'T': frozenset({REFL}),
    'S4': frozenset({REFL, TRANS}),
    'S5': frozenset({REFL, TRANS, SYMM}),
}


class Unsupported(AnalysisError):
    pass


def canon(head, atoms):
    """Rename variables in order of first occurrence in the loop nest."""
    order = {}
    for a in atoms:
        for v in a[1:]:
            order.setdefault(v, f'v{len(order)}')
    for v in head:
        if v not in order:
            raise Unsupported(f'head variable {v} not bound by a loop')
    body = frozenset((a[0],) + tuple(order[v] for v in a[1:]) for a in atoms)
    h = tuple(order[v] for v in head)
    table = {
        (('v0', 'v0'), frozenset({('W', 'v0')})): REFL,
        (('v0', 'v2'), frozenset({('W', 'v0'), ('R', 'v0', 'v1'), ('R', 'v1', 'v2')})): TRANS,
        (('v1', 'v0'), frozenset({('W', 'v0'), ('R', 'v0', 'v1')})): SYMM,
    }
    k = (h, body)
    if k not in table:
        raise Unsupported(f'clause {h} <- {sorted(body)} is not a recognised frame clause')
    return table[k]


_enforce_cache = {}


def closure_of(pairs, worlds, clauses):
    "least relation containing `pairs` on `worlds` closed under the clause set (SERIAL: one fresh world for all dead ends)"
    R = set(pairs)
    W = set(worlds)
    if SERIAL in clauses:
        dead = sorted(w for w in W if not any(a == w for a, b in R))
        if dead:
            new = max(W) + 1
            R |= {(d, new) for d in dead} | {(new, new)}
            W.add(new)
    changed = True
    while changed:
        changed = False
        add = set()
        if REFL in clauses:
            add |= {(w, w) for w in W}
        if SYMM in clauses:
            add |= {(b, a) for a, b in R}
        if TRANS in clauses:
            add |= {(a, d) for a, b in R for c, d in R if b == c}
        if not add <= R:
            R |= add
            changed = True
    return R, W


def enforce_clauses(m: Model, cls: ClassRef, seen=None):
    """(clauses, info): which frame conditions `cls.enforce` (folded through the class's MRO, super() included) establishes.
    The definition is run on every relation over the worlds {0,1,2} (and world 0 always present); a condition belongs to
    the class iff every result satisfies it; the result must be exactly the least closure of the input under those
    conditions (nothing lost, nothing extra) -- otherwise `info['problems']` says on which relation it is not."""
    import itertools
    from collections import defaultdict
    from .bind import bound_class
    from .minieval import Interp, Raised
    key = (id(m), cls)
    if key in _enforce_cache:
        return _enforce_cache[key]
    consulted = set()
    it = Interp({}, where=f'{cls.qualname}.enforce')
    AC = bound_class(m, it, cls, base=defaultdict, consulted=consulted)
    worlds = (0, 1, 2)
    allpairs = [(a, b) for a in worlds for b in worlds]
    results = []
    info = dict(where=[], fixpoint=True, supercall_in_loop=True, problems=[])
    graphs = [pairs for r in range(0, 6) for pairs in itertools.combinations(allpairs, r)]   # every shape of fork / chain / cycle on three worlds
    # chains and trees on four / five worlds: closures that need more than one pass
    graphs += [((0, 1), (1, 2), (2, 3)), ((0, 1), (1, 2), (2, 3), (3, 4)), ((0, 1), (0, 2), (2, 3)), ((1, 0), (2, 1), (3, 2)), ((0, 1), (2, 1), (2, 3)),
               ((0, 1), (1, 2), (2, 3), (3, 0))]
    for pairs in graphs:
        if True:
            R = AC(set)
            R[0]
            for a, b in pairs:
                R[a].add(b)
                R[b]
            W0 = set(R)
            try:
                R.enforce()
            except Raised as e:
                info['problems'].append(f'enforce() raises {e.text} on {sorted(pairs)}')
                continue
            except (TypeError, KeyError, AttributeError, ValueError, RuntimeError) as e:
                info['problems'].append(f'enforce() raises {type(e).__name__}: {e} on {sorted(pairs)}')
                continue
            out = {(a, b) for a, bs in R.items() for b in bs}
            results.append((frozenset(pairs), frozenset(W0), frozenset(out), frozenset(set(R) | {b for _, b in out})))
    info['where'] = sorted(consulted)
    clauses = set()
    if results:
        if all(all(any(a == w for a, b in out) for w in W) for _, _, out, W in results):
            clauses.add(SERIAL)
        if all(all((w, w) in out for w in W) for _, _, out, W in results):
            clauses.add(REFL)
        if all(all((b, a) in out for a, b in out) for _, _, out, W in results):
            clauses.add(SYMM)
        if all(all((a, d) in out for a, b in out for c, d in out if b == c) for _, _, out, W in results):
            clauses.add(TRANS)
        if REFL in clauses:
            clauses.discard(SERIAL)     # reflexive relations are serial; the class is named by the stronger condition
        bad = 0
        for pairs, W0, out, W in results:
            want, _ = closure_of(pairs, W0, clauses)
            if out != want and bad < 3:
                bad += 1
                miss, extra = sorted(want - out), sorted(out - want)
                info['problems'].append(f'on the relation {sorted(pairs)} enforce() yields {sorted(out)}: '
                                        + (f'lacks {miss} of the {sorted(c[0] for c in clauses)} closure' if miss else '')
                                        + (f' adds {extra} beyond it' if extra else ''))
    out_ = (frozenset(clauses), info)
    _enforce_cache[key] = out_
    return out_


# ---- frame rules (tableau side) ----------------------------------------------
ACCESS_BASES = {
    'access.Serial': SERIAL, 'access.Reflexive': REFL, 'access.Transitive': TRANS, 'access.Symmetric': SYMM,
}


def access_base(m: Model, rc: ClassRef):
    for c in m.mro(rc):
        if c.module == RULES and c.qualname in ACCESS_BASES:
            return c.qualname
    return None


def rule_clause(sch, basename):
    """Horn clause of an access rule from its extracted schema."""
    if len(sch.branches) != 1 or len(sch.branches[0]) != 1 or sch.branches[0][0].kind != 'access':
        raise Unsupported(f'{sch.rule}: frame rule adds {sch.show()}')
    it = sch.branches[0][0]
    pair = (it.w1, it.w2)
    if pair == (('nodeworld',), ('nodeworld',)):
        return REFL
    if pair == (('w2',), ('w1',)):
        return SYMM
    if it.w1 == ('w1',) and it.w2 == ('intransitive', ('pair', ('w1',), ('w2',))):
        return TRANS
    if it.w1 == ('unserial',) and it.w2 == ('fresh_world',):
        return SERIAL
    return ('OTHER', f'{pair}')


def helper_semantics_ok(m: Model):
    """The helper queries the frame-rule schemas rely on (WorldIndex.intransitives / has, UnserialWorlds), folded
    (sa.helpersfold): [(ok, what, where)]."""
    from . import helpersfold
    out = []
    for fold in (helpersfold.fold_world_index, helpersfold.fold_unserial):
        res, cons = fold(m)
        bad = [f'{case}: {detail}' for ok, case, detail in res if not ok]
        out.append((not bad, fold.__name__[5:] + ('' if not bad else ' -- ' + bad[0][:200]), cons[0].split(' ')[0] if cons else 'pytableaux/proof/helpers.py'))
    return out


def expected_frame(lg, lgs):
    """Frame named by the logic: K/D/T/S4/S5 or <prefix><non-modal logic name>."""
    n = lg.name
    if n in FRAME_OF:
        return n
    nonmodal = {x.name for x in lgs if not x.modal}
    for p in ('S4', 'S5', 'K', 'T', 'D'):
        if n.startswith(p) and n[len(p):] in nonmodal:
            return p
    raise AnalysisError(f'modal logic {n}: cannot tell its frame from its name')
