"""E2 -- rule-schema extraction: partial evaluation of a rule class's
target-producing method over a *symbolic node* (S, d, w).  The result (a
`Schema`) lists, per produced branch, the items (sentence-term, designation,
world-term) or access pairs the rule adds, plus the guards it is conditional
on.  Only the rule *definitions* are folded; the prover is never run."""
from __future__ import annotations

import ast
from dataclasses import dataclass, field

from .core import AnalysisError
from .logics import Logics, RuleAttrs, RULES
from .model import ClassRef, EnumRef, ExternalRef, FuncRef, Model, Unknown

PROOF = 'pytableaux.proof'


class Unsupported(AnalysisError):
    pass


# ---- symbolic terms ------------------------------------------------------
def Leaf(n):
    return ('leaf', n)


def Op(o, *args):
    return ('op', o, tuple(args))


def Q(q, v, body):
    return ('q', q, v, body)


def is_term(t):
    return isinstance(t, tuple) and t and t[0] in ('leaf', 'op', 'q', 'subst', 'negative')


W_NODE = ('w',)                  # the world of the node the rule applies to (None in non-modal logics)
W_FRESH = ('fresh_world',)       # branch.new_world()
W_EACH = ('each_visible',)       # every world visible from the node's world
C_FRESH = ('fresh_const',)       # branch.new_constant()
C_ANY = ('anyconst',)            # every constant on the branch (fat quantifier rules)
SELF, NODE, BRANCH = 'SELF', 'NODE', 'BRANCH'

SYM = {'Negation': '~', 'Assertion': '*', 'Conjunction': '&', 'Disjunction': 'v', 'MaterialConditional': '>',
       'MaterialBiconditional': '<', 'Conditional': '$', 'Biconditional': '%', 'Possibility': 'P', 'Necessity': 'N'}


def fmt(t):
    if t is None:
        return 'None'
    if t[0] == 'leaf':
        return t[1]
    if t[0] == 'op':
        sym = SYM.get(t[1], t[1])
        if len(t[2]) == 1:
            return f'{sym}{fmt(t[2][0])}'
        return '(' + f' {sym} '.join(fmt(x) for x in t[2]) + ')'
    if t[0] == 'q':
        return f'{t[1][0]}{t[2]}.{fmt(t[3])}'
    if t[0] == 'subst':
        return f'{fmt(t[1])}[{t[2][0]}]'
    if t[0] == 'negative':
        return f'-{fmt(t[1])}'
    return str(t)


class Seq(tuple):
    "python-level tuple/iterator value"


class Item:
    "One node added by a rule"

    def __init__(self, kind, **kw):
        self.kind = kind
        self.__dict__.update(kw)

    def __repr__(self):
        if self.kind == 'access':
            return f'<{wfmt(self.w1)} R {wfmt(self.w2)}>'
        d = '+' if self.d is True else ('-' if self.d is False else '')
        return f'<{fmt(self.s)} {d} @{wfmt(self.w)}>'

    def key(self):
        if self.kind == 'access':
            return ('access', self.w1, self.w2)
        return ('sent', self.s, self.d, self.w)


def wfmt(w):
    if w is None:
        return '-'
    if not isinstance(w, tuple) or not w:
        return str(w)
    return {'w': 'w', 'fresh_world': 'w*', 'each_visible': "w'"}.get(w[0], str(w))


@dataclass
class Schema:
    rule: ClassRef
    attrs: RuleAttrs
    entry: str                      # method name used as entry point
    fn: FuncRef                     # defining function
    subject: tuple                  # the symbolic sentence S the rule was folded over
    branches: list                  # list[list[Item]]
    kw: dict = field(default_factory=dict)
    guards: list = field(default_factory=list)     # recognised skip-guards (redundancy / fairness)
    problems: list = field(default_factory=list)   # guards that are not what their shape claims (a `branch.has(x)` skip whose x is not a node the rule adds)
    family: str = 'generic'
    ticking: bool = True
    consts: set = field(default_factory=set)       # constant kinds used
    worlds: set = field(default_factory=set)

    def show(self):
        return ' | '.join(', '.join(map(repr, b)) for b in self.branches)


# guards that merely skip work already done / postpone fairly; each is matched on
# the *normalised source text of the test* in the named function.
# Reviewed redundancy / fairness / termination guards, by shape (local variable names are free):
GUARD_PATTERNS = {
    r'not self\[NodeCount\]\.isleast\(\w+, branch\)( and .+)?': 'fairness: a node applied more often than another is postponed; that the postponement ends (no starvation) '
                                                                    'is decided by helpersfold.fold_fair_gate (C02.R8), whatever further condition narrows the gate',
    # `(node, w) in self[NodesWorlds][branch]` and `self[WorldIndex].has(branch, pair)` are validated structurally (Eval.has_guard)
    # `branch.has(<expr>)` is handled structurally (Eval.has_guard): <expr> is evaluated and must be a node the rule goes on to add
    r'not self\._should_apply\(branch\)': 'serial rule: world limit (termination); what must still be offered is checked by helpersfold.fold_serial_rule',
    r'not branch\.has\(\{Node\.Key\.world: \w+\}\)': 'serial rule: a world without sentence nodes needs no successor (termination); fold_serial_rule '
                                                            'checks that every unserial world carrying sentences is offered',
}


class _Guards:
    def __contains__(self, text):
        import re
        return any(re.fullmatch(p, text) for p in GUARD_PATTERNS)


ACCEPTED_GUARDS = _Guards()


class Extractor:
    def __init__(self, lgs: Logics):
        self.lgs, self.m = lgs, lgs.m
        self._cache: dict[ClassRef, Schema] = {}

    def subject(self, attrs: RuleAttrs):
        if attrs.operator:
            n = self.lgs.lex.arity[attrs.operator]
            return Op(attrs.operator, *(Leaf(x) for x in 'AB'[:n]))
        if attrs.quantifier:
            return Q(attrs.quantifier, 'x', Leaf('Fx'))
        return None

    # Delegation chain of the target-producing methods.  The bodies of these
    # plumbing methods (proof/rules.py) only delegate; C04.R0 checks them
    # structurally.  (owner class, method) -> method it delegates to.
    DELEGATES = {
        ('GetNodeTargetsRule', '_get_targets'): '_get_node_targets',
        ('NarrowQuantifierRule', '_get_targets'): '_get_node_targets',
        ('ModalOperatorRule', '_get_targets'): '_get_node_targets',
        ('AccessNodeRule', '_get_targets'): '_get_node_targets',
        ('ExtendedQuantifierRule', '_get_node_targets'): '_get_constant_nodes',
    }
    ABSTRACT = {
        ('GetNodeTargetsRule', '_get_node_targets'), ('ModalOperatorRule', '_get_node_targets'),
        ('ExtendedQuantifierRule', '_get_constant_nodes'), ('Rule', '_get_targets'),
    }

    def entry(self, rc: ClassRef):
        """Follow the delegation chain from `_get_targets`, as the run time does,
        to the first method that is not plumbing."""
        name = '_get_targets'
        for _ in range(6):
            v, owner = self.m.method(rc, name)
            if not isinstance(v, FuncRef) or owner is None:
                raise Unsupported(f'{rc}: {name} does not resolve to a function')
            key = (owner.qualname, name)
            inplumbing = owner.module in (RULES, 'pytableaux.proof.tableaux')
            if inplumbing and key in self.DELEGATES:
                name = self.DELEGATES[key]
                continue
            if inplumbing and key in self.ABSTRACT:
                raise Unsupported(f'{rc}: target method chain ends in the abstract {owner.qualname}.{name}')
            return name, v, owner
        raise Unsupported(f'{rc}: delegation chain too long')

    def extract(self, rc: ClassRef) -> Schema:
        if rc in self._cache:
            return self._cache[rc]
        attrs = self.lgs.rule_attrs(rc)
        S = self.subject(attrs)
        nm, fn, owner = self.entry(rc)
        ev = Eval(self, rc, attrs, S, fn)
        a = fn.node.args
        params = [x.arg for x in a.posonlyargs + a.args]
        env = {params[0]: SELF}
        d = attrs.designation
        family = 'generic'
        if nm == '_get_sdw_targets':
            env.update({params[1]: S, params[2]: d, params[3]: W_NODE})
        elif nm == '_get_sd_targets':
            env.update({params[1]: S, params[2]: d})
        elif nm == '_get_node_targets':
            env.update({params[1]: NODE, params[2]: BRANCH})
        elif nm == '_get_constant_nodes':
            env.update({params[1]: NODE, params[2]: C_ANY, params[3]: BRANCH})
            family = 'fat-quantifier'
        elif nm == '_get_targets':
            env.update({params[1]: BRANCH})
            family = 'branch-level'
        ev.run(fn.node.body, env)
        branches = []
        kw = {}
        for y in ev.yields:
            if isinstance(y, dict) and 'groups' in y:
                branches.extend([list(g) for g in y['groups']])
                kw.update(y['kw'])
            elif isinstance(y, Item):
                # _get_constant_nodes yields bare nodes: one branch with all of them
                if not branches:
                    branches.append([])
                branches[0].append(y)
            else:
                raise Unsupported(f'{self.m.floc(fn)}: yields {y!r}')
        if not branches:
            raise Unsupported(f'{self.m.floc(fn)}: no yield reached for {rc}')
        for b in branches:
            for it in b:
                if not isinstance(it, Item):
                    raise Unsupported(f'{self.m.floc(fn)}: non-node item {it!r}')
        ticking = self.m.getattr(rc, 'ticking')
        if ev.yield_fns:
            fn = ev.yield_fns[0]        # report at the function that actually produces the nodes
        sch = Schema(rule=rc, attrs=attrs, entry=nm, fn=fn, subject=S, branches=branches, kw=kw,
                     guards=ev.guards, family=family, ticking=bool(ticking))
        sch.problems.extend(ev.release_problems)
        for kind_, val, nbefore, text in ev.has_guards:
            later, kws = [], []
            for y in ev.yields[nbefore:]:
                if isinstance(y, dict) and 'groups' in y:
                    later += [it_ for g_ in y['groups'] for it_ in g_]
                    kws.append(y.get('kw', {}))
                elif isinstance(y, Item):
                    later.append(y)
            if kind_ == 'node':
                same = lambda a, b: a is b or (isinstance(a, Item) and isinstance(b, Item) and a.key() == b.key())
                if not any(same(val, it_) for it_ in later):
                    sch.problems.append(f'{text}|the expansion is skipped when `{text}` holds, but {val!r} is not a node the rule goes on to add ({later!r}): '
                                        f'not a redundancy guard -- the node is then never expanded on that branch')
            else:
                n_, w_ = val
                isnode = n_ == NODE or (isinstance(n_, tuple) and n_ and n_[0] == NODE)
                okw = any(k_.get('world') == w_ for k_ in kws) and any(getattr(it_, 'w', None) == w_ for it_ in later if it_.kind == 'sent')
                if not (isnode and okw):
                    sch.problems.append(f'{text}|the expansion is skipped when `{text}` holds, but ({n_!r}, {w_!r}) is not (the rule\'s node, the world the target is for) '
                                        f'-- targets carry world={[k_.get("world") for k_ in kws]!r}, added {later!r}: not the record of this instance having been applied')
        for b in branches:
            for it in b:
                if it.kind == 'sent':
                    sch.worlds.add(it.w)
                    sch.consts |= const_kinds(it.s)
                else:
                    sch.worlds.add(it.w1)
                    sch.worlds.add(it.w2)
        if W_EACH in sch.worlds:
            sch.family = 'universal-modal'
        elif W_FRESH in sch.worlds and any(it.kind == 'sent' for b in branches for it in b):
            sch.family = 'witness-modal'
        elif C_FRESH in sch.consts:
            sch.family = 'witness-quantifier'
        self._cache[rc] = sch
        return sch


def const_kinds(t):
    if t is None:
        return set()
    if t[0] == 'subst':
        return {t[2]} | const_kinds(t[1])
    if t[0] == 'op':
        out = set()
        for x in t[2]:
            out |= const_kinds(x)
        return out
    if t[0] == 'q':
        return const_kinds(t[3])
    return set()


def negate_text(test):
    "source text of the negation of a test, in the normal form used by ACCEPTED_GUARDS"
    if isinstance(test, ast.UnaryOp) and isinstance(test.op, ast.Not):
        return ast.unparse(test.operand)
    if isinstance(test, ast.Compare) and len(test.ops) == 1 and isinstance(test.ops[0], (ast.NotIn, ast.In)):
        op = ast.In() if isinstance(test.ops[0], ast.NotIn) else ast.NotIn()
        return ast.unparse(ast.Compare(left=test.left, ops=[op], comparators=test.comparators))
    return 'not ' + ast.unparse(test)


class Eval:
    def __init__(self, ex: Extractor, rc, attrs: RuleAttrs, S, fn: FuncRef):
        self.ex, self.m, self.rc, self.attrs, self.S, self.fn = ex, ex.m, rc, attrs, S, fn
        self.yields = []
        self.guards = []
        self.release_problems = []
        self.has_guards = []          # (value of x in a `branch.has(x)` skip, number of yields before it, source text)
        self.where = ex.m.floc(fn)
        self.owner = fn.owner
        self.cur_fn = fn
        self.yield_fns = []
        self.depth = 0
        self.consulted = {ex.m.floc(fn)}

    def unsupported(self, what):
        return Unsupported(f'{self.where} (rule {self.rc.short}): {what}')

    def run(self, body, env):
        for st in body:
            if isinstance(st, ast.Expr):
                if isinstance(st.value, ast.Constant):
                    continue
                if isinstance(st.value, ast.Yield):
                    self.yields.append(self.ev(st.value.value, env))
                    self.yield_fns.append(self.cur_fn)
                    continue
                if isinstance(st.value, ast.YieldFrom):
                    v = self.ev(st.value.value, env)
                    if isinstance(v, Seq):
                        self.yields.extend(v)
                        continue
                    raise self.unsupported(f'yield from {v!r}')
                if isinstance(st.value, ast.Call) and ast.unparse(st.value.func) == 'self[FilterHelper].release':
                    continue
                raise self.unsupported(f'expression statement {ast.unparse(st)[:60]}')
            if isinstance(st, ast.Pass):
                continue
            if isinstance(st, ast.Raise):
                raise self.unsupported(f'the rule has no expansion here: `{ast.unparse(st)[:60]}`')
            if isinstance(st, ast.Assign):
                v = self.ev(st.value, env)
                for t in st.targets:
                    self.bind(t, v, env)
                continue
            if isinstance(st, ast.If):
                try:
                    c = self.ev(st.test, env)
                except Unsupported:
                    c = ('sym',)
                if isinstance(c, bool) or c is None:
                    r = self.run(st.body if c else st.orelse, env)
                    if r:
                        return r
                    continue
                # symbolic guard: accepted only as a *skip* (body ends in continue/return, no else)
                # whose test is one of the reviewed redundancy/fairness guards
                skip = not st.orelse and st.body and isinstance(st.body[-1], (ast.Continue, ast.Return)) and \
                    all(isinstance(x, (ast.Continue, ast.Return)) or
                        (isinstance(x, ast.Expr) and isinstance(x.value, ast.Call)
                         and ast.unparse(x.value.func) == 'self[FilterHelper].release')
                        for x in st.body) and not (isinstance(st.body[-1], ast.Return) and st.body[-1].value is not None)
                text = ast.unparse(st.test)
                if any(isinstance(c_, ast.Call) and isinstance(c_.func, ast.Attribute) and c_.func.attr == 'isleast' for c_ in ast.walk(st.test)):
                    # the fairness gate, whatever its polarity or extra conditions: which nodes it postpones and that the postponement
                    # ends is decided on the code itself by helpersfold.fold_fair_gate (C02.R8); here both readings give the rule's output
                    releases = any(isinstance(x, ast.Expr) and isinstance(x.value, ast.Call) and ast.unparse(x.value.func) == 'self[FilterHelper].release' for x in ast.walk(st) if isinstance(x, ast.Expr))
                    if releases:
                        self.release_problems.append(f'{text}|a node is released (`self[FilterHelper].release`) under the fairness gate `{text}`, a temporary condition: '
                                                     f'once skipped it is never a candidate again')
                    self.guards.append('fairness gate: ' + text)
                    if skip:
                        continue
                    if not st.orelse:
                        r = self.run(st.body, env)
                        if r:
                            return r
                        continue
                    raise self.unsupported(f'fairness gate with two arms `{text}`')
                if skip and self.has_guard(st.test, env, text):
                    continue
                if skip and text in ACCEPTED_GUARDS:
                    self.guards.append(text)
                    releases = any(isinstance(x, ast.Expr) and isinstance(x.value, ast.Call) and ast.unparse(x.value.func) == 'self[FilterHelper].release' for x in st.body)
                    if releases and 'isleast' in text:
                        # release() takes the node out of the rule's candidates for good; the fairness gate is a temporary condition
                        self.release_problems.append(f'{text}|the node is released (`self[FilterHelper].release`) under the fairness gate `{text}`, a temporary condition: '
                                                     f'once skipped it is never a candidate again')
                    continue
                # the same guards written the other way round: `if <not guard>: <the rest>` (no else)
                neg = negate_text(st.test)
                negast = st.test.operand if isinstance(st.test, ast.UnaryOp) and isinstance(st.test.op, ast.Not) else \
                    ast.Compare(left=st.test.left, ops=[ast.In()], comparators=st.test.comparators) \
                    if isinstance(st.test, ast.Compare) and len(st.test.ops) == 1 and isinstance(st.test.ops[0], ast.NotIn) else None
                is_skipstmt = lambda x: isinstance(x, (ast.Continue, ast.Pass)) or (isinstance(x, ast.Return) and x.value is None) or \
                    (isinstance(x, ast.Expr) and isinstance(x.value, ast.Call) and ast.unparse(x.value.func) == 'self[FilterHelper].release')
                skip_else = all(is_skipstmt(x) for x in st.orelse)          # no else, or an else arm that only skips / releases
                if skip_else and negast is not None and self.has_guard(negast, env, neg):
                    r = self.run(st.body, env)
                    if r:
                        return r
                    continue
                if not st.orelse and neg in ACCEPTED_GUARDS:
                    self.guards.append(neg)
                    r = self.run(st.body, env)
                    if r:
                        return r
                    continue
                raise self.unsupported(f'rule output is conditional on an unrecognised guard `{text}`')
            if isinstance(st, ast.Return) and st.value is None:
                return 'return'
            if isinstance(st, ast.Return):
                v = self.ev(st.value, env)
                if getattr(self, 'want_value', False):
                    self.retval = v
                    return 'return'
                if isinstance(v, Seq):
                    self.yields.extend(v)
                    return 'return'
                raise self.unsupported(f'return {v!r}')
            if isinstance(st, ast.Continue):
                return 'continue'
            if isinstance(st, ast.For):
                it = self.ev(st.iter, env)
                if isinstance(it, Seq):
                    for item in it:
                        self.bind(st.target, item, env)
                        self.run(st.body, env)
                elif isinstance(it, tuple) and it and it[0] == 'forall':
                    self.bind(st.target, it[1], env)
                    self.run(st.body, env)
                elif it == ('helperbranch', 'UnserialWorlds'):
                    self.bind(st.target, ('unserial',), env)
                    self.run(st.body, env)
                else:
                    raise self.unsupported(f'loop over {ast.unparse(st.iter)[:60]} = {it!r}')
                continue
            raise self.unsupported(f'statement {ast.unparse(st)[:60]}')

    def has_guard(self, test, env, text):
        """Redundancy guards, validated instead of matched by shape (the values are checked against what the rule goes on to
        yield, in extract):  `branch.has(x)` -- x is a node the rule adds;  `self[WorldIndex].has(branch, p)` -- p's access node
        is one the rule adds;  `(n, w) in self[NodesWorlds][branch]` -- n is the rule's node and w the world the target is for."""
        if isinstance(test, ast.Call) and isinstance(test.func, ast.Attribute) and test.func.attr == 'has' and not test.keywords:
            recv = ast.unparse(test.func.value)
            try:
                if recv == 'branch' and len(test.args) == 1:
                    v = self.ev(test.args[0], env)
                    self.has_guards.append(('node', v, len(self.yields), text))
                elif recv == 'self[WorldIndex]' and len(test.args) == 2 and ast.unparse(test.args[0]) == 'branch':
                    v = self.ev(test.args[1], env)
                    if not (isinstance(v, tuple) and v and v[0] == 'pair'):
                        return False
                    self.has_guards.append(('node', Item('access', w1=v[1], w2=v[2]), len(self.yields), text))
                else:
                    return False
            except Unsupported:
                return False
            self.guards.append(text)
            return True
        if isinstance(test, ast.Compare) and len(test.ops) == 1 and isinstance(test.ops[0], ast.In) and isinstance(test.left, ast.Tuple) and len(test.left.elts) == 2 \
                and ast.unparse(test.comparators[0]) == 'self[NodesWorlds][branch]':
            try:
                n_, w_ = (self.ev(x, env) for x in test.left.elts)
            except Unsupported:
                return False
            self.has_guards.append(('nodeworld', (n_, w_), len(self.yields), text))
            self.guards.append(text)
            return True
        return False

    def bind(self, t, v, env):
        if isinstance(t, ast.Name):
            env[t.id] = v
            return
        if isinstance(t, ast.Tuple):
            items = self.iterate(v)
            if len(items) != len(t.elts):
                raise self.unsupported(f'unpacking {len(items)} values into {len(t.elts)} names')
            for a, b in zip(t.elts, items):
                self.bind(a, b, env)
            return
        raise self.unsupported(f'assignment target {ast.unparse(t)}')

    def iterate(self, v):
        if is_term(v) and v[0] == 'op':
            return list(v[2])
        if is_term(v) and v[0] == 'q':
            return [EnumRef('Quantifier', v[1]), ('var', v[2]), v[3]]
        if isinstance(v, Seq):
            return list(v)
        if isinstance(v, tuple) and v and v[0] == 'pair':
            return [v[1], v[2]]
        raise self.unsupported(f'iteration over {v!r}')

    def selfattr(self, name):
        if name in ('negated', 'designation'):
            return getattr(self.attrs, name)
        if name == 'operator':
            return EnumRef('Operator', self.attrs.operator) if self.attrs.operator else None
        if name == 'quantifier':
            return EnumRef('Quantifier', self.attrs.quantifier) if self.attrs.quantifier else None
        if name == 'sentence':
            return ('selfsentence',)
        if name == '_should_apply':
            return ('symcall', 'self._should_apply')
        v = self.m.getattr(self.rc, name)
        if isinstance(v, FuncRef):
            return ('selfmethod', name, None)
        if v is None or isinstance(v, Unknown):
            raise self.unsupported(f'self.{name} = {v!r}')
        return v

    def ev(self, e, env):
        if isinstance(e, ast.Constant):
            return e.value
        if isinstance(e, ast.Name):
            if e.id in env:
                return env[e.id]
            return ('global', e.id)
        if isinstance(e, ast.Attribute):
            v = self.ev(e.value, env)
            if v == SELF:
                return self.selfattr(e.attr)
            if is_term(v) and v[0] == 'op':
                if e.attr == 'lhs':
                    return v[2][0]
                if e.attr == 'rhs':
                    return v[2][-1]
                if e.attr == 'operands':
                    return Seq(v[2])
                if e.attr == 'operator':
                    return EnumRef('Operator', v[1])
            if is_term(v) and v[0] == 'q':
                if e.attr == 'variable':
                    return ('var', v[2])
                if e.attr == 'sentence':
                    return v[3]
                if e.attr == 'quantifier':
                    return EnumRef('Quantifier', v[1])
            if isinstance(v, EnumRef):
                if e.attr == 'other':
                    return EnumRef(v.enum, self.ex.lgs.lex.other[v.member])
                seq = self.ex.lgs.lex.operators if v.enum == 'Operator' else self.ex.lgs.lex.quantifiers
                if e.attr in seq:
                    return EnumRef(v.enum, e.attr)
                raise self.unsupported(f'{v}.{e.attr}')
            if v in (NODE, BRANCH):
                return ('method', v, e.attr)
            if v == ('super',):
                return ('selfmethod', e.attr, self.owner)
            if isinstance(v, tuple) and v and v[0] == 'helper':
                return ('helpermethod', v[1], e.attr)
            if isinstance(v, tuple) and v and v[0] == 'pair':
                return ('pairmethod', v, e.attr)
            if isinstance(v, tuple) and v and v[0] == 'helperbranch':
                return ('helperbranchmethod', v[1], e.attr)
            if isinstance(v, ExternalRef):
                return ExternalRef(f'{v.name}.{e.attr}')
            raise self.unsupported(f'attribute {ast.unparse(e)} on {v!r}')
        if isinstance(e, ast.UnaryOp):
            v = self.ev(e.operand, env)
            if isinstance(e.op, ast.Invert) and is_term(v):
                return Op('Negation', v)
            if isinstance(e.op, ast.UAdd) and is_term(v):
                return Op('Assertion', v)
            if isinstance(e.op, ast.USub) and is_term(v):
                # Sentence.negative(): strips a negation if there is one, else negates.  On a
                # compound term the outcome is known; on an opaque operand it depends on whether
                # the operand *is* a negation -- kept symbolic and decided both ways by sa.oblig.
                if v[0] == 'op' and v[1] == 'Negation':
                    return v[2][0]
                if v[0] == 'leaf':
                    return ('negative', v)
                return Op('Negation', v)
            if isinstance(e.op, ast.Not):
                if isinstance(v, bool) or v is None:
                    return not v
                return ('sym',)
            raise self.unsupported(ast.unparse(e))
        if isinstance(e, ast.BinOp):
            l, r = self.ev(e.left, env), self.ev(e.right, env)
            if isinstance(e.op, ast.BitOr) and is_term(l) and is_term(r):
                return Op('Disjunction', l, r)
            if isinstance(e.op, ast.BitAnd) and is_term(l) and is_term(r):
                return Op('Conjunction', l, r)
            if isinstance(e.op, ast.RShift) and is_term(r) and r[0] == 'q' and l in (C_FRESH, C_ANY):
                return ('subst', r[3], l)
            raise self.unsupported(f'{ast.unparse(e)} with {l!r}, {r!r}')
        if isinstance(e, (ast.Tuple, ast.List)):
            return Seq(self.items(e.elts, env))
        if isinstance(e, ast.IfExp):
            c = self.ev(e.test, env)
            if isinstance(c, bool) or c is None:
                return self.ev(e.body if c else e.orelse, env)
            raise self.unsupported(f'conditional expression on a symbolic test `{ast.unparse(e.test)[:50]}`')
        if isinstance(e, ast.BoolOp):
            vals = [self.ev(v, env) for v in e.values]
            if all(isinstance(v, bool) or v is None for v in vals):
                if isinstance(e.op, ast.And):
                    for v in vals:
                        if not v:
                            return v
                    return vals[-1]
                for v in vals:
                    if v:
                        return v
                return vals[-1]
            return ('sym',)
        if isinstance(e, ast.Compare) and len(e.ops) == 1:
            l, r = self.ev(e.left, env), self.ev(e.comparators[0], env)
            if (isinstance(l, bool) or l is None) and (isinstance(r, bool) or r is None):
                op = e.ops[0]
                if isinstance(op, (ast.Is, ast.Eq)):
                    return l is r
                if isinstance(op, (ast.IsNot, ast.NotEq)):
                    return l is not r
            return ('sym',)
        if isinstance(e, ast.Subscript):
            v = self.ev(e.value, env)
            if v == SELF:
                return ('helper', ast.unparse(e.slice))
            if isinstance(v, tuple) and v and v[0] == 'helper':
                k = self.ev(e.slice, env)
                if k == BRANCH:
                    return ('helperbranch', v[1])
                raise self.unsupported(ast.unparse(e))
            if v == NODE:
                k = self.ev(e.slice, env)
                if k == 'world':
                    return W_NODE
                if k == 'designated':
                    return self.attrs.designation
                raise self.unsupported(ast.unparse(e))
            if isinstance(e.slice, ast.Slice):
                items = self.iterate(v)
                lo = self.ev(e.slice.lower, env) if e.slice.lower else None
                hi = self.ev(e.slice.upper, env) if e.slice.upper else None
                return Seq(items[lo:hi])
            raise self.unsupported(ast.unparse(e))
        if isinstance(e, (ast.GeneratorExp, ast.ListComp)):
            if len(e.generators) != 1 or e.generators[0].ifs:
                raise self.unsupported('generator expression with conditions')
            g = e.generators[0]
            out = []
            for item in self.iterate(self.ev(g.iter, env)):
                env2 = dict(env)
                self.bind(g.target, item, env2)
                out.append(self.ev(e.elt, env2))
            return Seq(out)
        if isinstance(e, ast.Call):
            return self.call(e, env)
        raise self.unsupported(f'expression {ast.unparse(e)[:60]}')

    def items(self, elts, env):
        out = []
        for x in elts:
            if isinstance(x, ast.Starred):
                out.extend(self.iterate(self.ev(x.value, env)))
            else:
                out.append(self.ev(x, env))
        return out

    def call(self, e, env):
        f = self.ev(e.func, env)
        args = self.items(e.args, env)
        kw = {}
        for k in e.keywords:
            if k.arg is None:
                continue        # **nnode: target annotations only
            kw[k.arg] = self.ev(k.value, env)
        if isinstance(f, EnumRef):
            if f.enum == 'Operator':
                if len(args) == 1 and isinstance(args[0], Seq):
                    args = list(args[0])
                if len(args) != self.ex.lgs.lex.arity[f.member] or not all(is_term(a) for a in args):
                    raise self.unsupported(f'{f}({args!r})')
                return Op(f.member, *args)
            if f.enum == 'Quantifier':
                v, body = args
                return Q(f.member, v[1] if isinstance(v, tuple) and v[0] == 'var' else v, body)
        if isinstance(f, ExternalRef):
            b = f.name
            if b == 'builtins.bool':
                return bool(args[0])
            if b.endswith('operator.not_') or b.endswith('.not_'):
                return not args[0]
        if isinstance(f, FuncRef):
            # e.g. staticmethod(bool)-like helpers defined in the package: not expected
            raise self.unsupported(f'call of package function {f}')
        if isinstance(f, tuple) and f[0] == 'selfmethod':
            return self.call_method(f[1], f[2], args)
        if f == ('super',):
            raise self.unsupported('bare super() call')
        if f == ('selfsentence',):
            if args != [NODE]:
                raise self.unsupported('self.sentence() of something other than the node')
            return self.S
        if isinstance(f, tuple) and f[0] == 'symcall':
            return ('sym',)
        if isinstance(f, tuple) and f[0] == 'method':
            _, obj, name = f
            if obj == NODE and name == 'get' and args and args[0] == 'world':
                return W_NODE
            if obj == NODE and name == 'worlds' and not args:
                return ('forall', ('nodeworld',))
            if obj == NODE and name == 'pair' and not args:
                return ('pair', ('w1',), ('w2',))
            if obj == BRANCH and name == 'new_constant' and not args:
                return C_FRESH
            if obj == BRANCH and name == 'new_world' and not args:
                return W_FRESH
            if obj == BRANCH and name in ('find', 'has', 'all'):
                return ('sym',)
            raise self.unsupported(f'{obj}.{name}()')
        if isinstance(f, tuple) and f[0] == 'helpermethod':
            _, helper, name = f
            if helper == 'WorldIndex' and name == 'intransitives' and len(args) == 2 and args[0] == BRANCH:
                return ('forall', ('intransitive', args[1]))
            return ('sym',)
        if isinstance(f, tuple) and f[0] == 'helperbranchmethod':
            _, helper, name = f
            if helper == 'WorldIndex' and name == 'get' and args and args[0] == W_NODE:
                return ('forall', W_EACH)
            return ('sym',)
        if isinstance(f, tuple) and f[0] == 'helperbranch':
            return ('sym',)
        if isinstance(f, tuple) and f[0] == 'pairmethod':
            _, pair, name = f
            if name == 'tonode':
                return Item('access', w1=pair[1], w2=pair[2])
            if name == 'reversed':
                return ('pair', pair[2], pair[1])
            raise self.unsupported(f'pair.{name}()')
        if isinstance(f, tuple) and f[0] == 'global':
            n = f[1]
            if n == 'super' and not args:
                return ('super',)
            if n == 'reversed':
                return Seq(reversed(self.iterate(args[0])))
            if n == 'map':
                return Seq(self.apply(args[0], [x]) for x in self.iterate(args[1]))
            if n == 'adds':
                return dict(groups=tuple(tuple(self.iterate(g)) for g in args), kw=kw)
            if n == 'Target' and len(args) == 1 and isinstance(args[0], dict):
                return args[0]
            if n == 'WorldPair' and len(args) == 2:
                return ('pair', args[0], args[1])
            if n in ('group', 'sdwgroup', 'sdwnode', 'sdnode', 'swnode', 'snode', 'anode'):
                return self.apply(f, args)
            if n == 'deque' and len(args) == 1:
                return args[0]
            if n == 'len' and len(args) == 1:
                return ('sym',)     # a number computed from branch state: not a node world, not a fresh one
            if n in ('tuple', 'list') and len(args) <= 1:
                return Seq(self.iterate(args[0])) if args else Seq(())
            modfn = self.module_function(n)
            if modfn is not None:
                return self.call_function(modfn, args)
            raise self.unsupported(f'call {n}()')
        raise self.unsupported(f'call {ast.unparse(e)[:60]} -> {f!r}')

    def call_method(self, name, after, args):
        fn, owner = self.m.method(self.rc, name, after)
        if not isinstance(fn, FuncRef):
            raise self.unsupported(f'self.{name} does not resolve to a function')
        self.depth += 1
        if self.depth > 8:
            raise self.unsupported(f'method call chain too deep at {name}')
        a = fn.node.args
        params = [x.arg for x in a.posonlyargs + a.args]
        if a.vararg or a.kwarg or len(params) - 1 != len(args):
            raise self.unsupported(f'call of self.{name} with {len(args)} arguments')
        env = {params[0]: SELF}
        env.update(zip(params[1:], args))
        saved = (self.yields, self.owner, self.where, self.cur_fn)
        self.yields, self.owner, self.where, self.cur_fn = [], owner, self.m.floc(fn), fn
        self.consulted.add(self.where)
        try:
            isgen = any(isinstance(n, (ast.Yield, ast.YieldFrom)) for n in ast.walk(fn.node))
            r = self.run(fn.node.body, env)
            out = Seq(self.yields)
            if not isgen:
                # a plain function that returns the callee's generator
                out = Seq(self.yields)
        finally:
            self.yields, self.owner, self.where, self.cur_fn = saved
            self.depth -= 1
        return out

    def module_function(self, name):
        "a module-level helper function of the module the current rule method lives in"
        mod = self.cur_fn.module
        for st in self.m.trees[mod].body:
            if isinstance(st, ast.FunctionDef) and st.name == name:
                return FuncRef(mod, name, st)
        return None

    def call_function(self, fn, args):
        "inline a plain helper function with (partly symbolic) arguments; its value is what it returns"
        self.depth += 1
        if self.depth > 8:
            raise self.unsupported(f'call chain too deep at {fn.qualname}')
        a = fn.node.args
        params = [x.arg for x in a.posonlyargs + a.args]
        if a.vararg or a.kwarg or len(params) != len(args):
            raise self.unsupported(f'call of {fn.qualname} with {len(args)} arguments')
        env = dict(zip(params, args))
        saved = (self.yields, self.where, self.cur_fn, getattr(self, 'want_value', False), getattr(self, 'retval', None))
        self.yields, self.where, self.cur_fn, self.want_value, self.retval = [], self.m.floc(fn), fn, True, None
        self.consulted.add(self.where)
        try:
            self.run(fn.node.body, env)
            if self.yields:
                raise self.unsupported(f'{fn.qualname} yields')
            return self.retval
        finally:
            self.yields, self.where, self.cur_fn, self.want_value, self.retval = saved
            self.depth -= 1

    def apply(self, f, args):
        n = f[1] if isinstance(f, tuple) and f[0] == 'global' else None
        if n == 'group':
            return Seq(args)
        if n == 'sdwgroup':
            return Seq(self.mk(*self.triple(a)) for a in args)
        if n == 'sdwnode':
            return self.mk(*args)
        if n == 'sdnode':
            return self.mk(args[0], args[1], None)
        if n == 'swnode':
            return self.mk(args[0], None, args[1])
        if n == 'snode':
            return self.mk(args[0], None, None)
        if n == 'anode':
            return Item('access', w1=args[0], w2=args[1])
        raise self.unsupported(f'apply {f!r}')

    def triple(self, a):
        t = self.iterate(a)
        if len(t) != 3:
            raise self.unsupported(f'sdwgroup element of length {len(t)}')
        return t

    def mk(self, s, d, w):
        if not is_term(s):
            raise self.unsupported(f'node sentence {s!r}')
        if not (isinstance(d, bool) or d is None):
            raise self.unsupported(f'node designation {d!r}')
        return Item('sent', s=s, d=d, w=w)
