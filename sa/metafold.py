"""LogicMetaMeta.__new__ folded per logic Meta class, bases first: what the metaclass derives (merged native operators,
many_valued, category, tags) is read off the class objects it leaves behind, not re-implemented.  The Meta classes are
mirrored as real Python classes (so inheritance and `super(cls, cls)` behave as at run time) whose metaclass is a
stand-in for LogicMetaMeta; the body of __new__ is interpreted by minieval."""
from __future__ import annotations

import ast

from .core import AnalysisError
from .minieval import Interp, Obj, Raised
from .model import ClassRef, EnumRef, Model, Unknown

LOGICS = 'pytableaux.logics'


class Values:
    "a logic's value enum: callable by name, sized, iterable"

    def __init__(self, names):
        self.names = list(names)

    def __call__(self, name):
        name = getattr(name, 'name', name)
        if name not in self.names:
            raise ValueError(name)
        return ValM(name)

    def __len__(self):
        return len(self.names)

    def __iter__(self):
        return iter(ValM(n) for n in self.names)


class ValM(str):
    name = property(lambda s: str(s))


class MetaFolder:
    def __init__(self, m: Model, lex):
        self.m, self.lex = m, lex
        self.cache = {}
        self.fn = m.func(LOGICS, 'LogicMetaMeta.__new__')
        order = {n: i for i, n in enumerate(lex.operators)}

        class Op(str):
            name = property(lambda s: str(s))
            __lt__ = lambda a, b: order[a] < order[b]
            __gt__ = lambda a, b: order[a] > order[b]
            __hash__ = str.__hash__
        self.Op = Op
        catdef = next((x for x in ast.walk(m.trees[LOGICS]) if isinstance(x, ast.ClassDef) and x.name == 'Category'), None)
        if catdef is None:
            raise AnalysisError('logics/__init__.py: the Category enum not found')
        catnames = [st.targets[0].id for st in catdef.body if isinstance(st, ast.Assign) and isinstance(st.targets[0], ast.Name) and not st.targets[0].id.startswith('_')]

        class Cat(dict):
            def __getattr__(s_, k):
                try:
                    return s_[k]
                except KeyError:
                    raise AttributeError(k)

        class MM(type):
            "stand-in for LogicMetaMeta"
            Category = Cat({n: ('CATEGORY', n) for n in catnames})
        setattr(MM, '__modmap', {})
        setattr(MM, '_LogicMetaMeta__modmap', getattr(MM, '__modmap'))
        self.MM = MM
        # the root: LogicType.Meta with its class-level defaults (its module is the package, so __new__ returns it untouched)
        rootref = ClassRef(LOGICS, 'LogicType.Meta')
        defaults = dict(__module__=LOGICS, modal=False, quantified=False, category_order=0, native_operators=(), extension_of=frozenset(),
                        modal_operators=(Op('Possibility'), Op('Necessity')),
                        truth_functional_operators=tuple(Op(n) for n in lex.operators if n not in ('Possibility', 'Necessity')))
        self.root = MM('Meta', (), defaults)
        self.cache[rootref] = self.root

    def convert(self, v):
        if isinstance(v, EnumRef):
            return self.Op(v.member) if v.enum == 'Operator' else v.member
        if isinstance(v, (tuple, list)):
            return tuple(self.convert(x) for x in v)
        return v

    def fold(self, ref: ClassRef, values_of):
        """-> the class object LogicMetaMeta.__new__ returns for the Meta class `ref` (bases folded first)."""
        if ref in self.cache:
            return self.cache[ref]
        m = self.m
        bases = []
        for b in m.bases(ref):
            if b.module.startswith(LOGICS):
                bases.append(self.fold(b, values_of))
        if not bases:
            bases = [self.root]
        ns = {'__module__': ref.module, '__qualname__': ref.qualname}
        for k, raw in m.clsns(ref).items():
            if k.startswith('__'):
                continue
            v = m.force(raw)
            if isinstance(v, ClassRef):
                if k == 'values':
                    v = Values(values_of(v))
                else:
                    continue
            elif isinstance(v, Unknown) or hasattr(v, 'node'):
                continue
            ns[k] = self.convert(v)
        if 'values' not in ns and not any(hasattr(b, 'values') for b in bases):
            raise AnalysisError(f'{ref}: no `values` enum resolved')
        MM = self.MM
        sup = Obj('super')
        sup.__new__ = lambda mcls, name, bs, ns_, **kw: type.__new__(MM, name, tuple(bs), dict(ns_))
        g = dict(super=lambda *a: super(*a) if a else sup, __package__=LOGICS, check=Obj('check', subcls=lambda c, t: c),
                 LogicType=Obj('LogicType', Meta=self.root), qsetf=tuple, EMPTY_SET=frozenset(), isinstance=isinstance, setattr=setattr, getattr=getattr)
        it = Interp(g, where=f'logics/__init__.py LogicMetaMeta.__new__ for {ref.module.split(".")[-1]}.Meta', modtree=m.trees[LOGICS])
        try:
            cls = it.call(self.fn, [MM, 'Meta', tuple(bases), ns])
        except Raised as e:
            raise AnalysisError(f'LogicMetaMeta.__new__ does not fold for {ref}: {e.text}')
        except (TypeError, AttributeError, KeyError, ValueError) as e:
            raise AnalysisError(f'LogicMetaMeta.__new__ does not fold for {ref}: {type(e).__name__}: {e}')
        self.cache[ref] = cls
        return cls
