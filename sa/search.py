"""Folds of the search layer (C09): rule target selection and group application
over mock rules/targets for all four option combinations."""
from __future__ import annotations

import itertools

from .minieval import Interp, Obj, Raised, Raises
from .model import ClassRef, Model

TAB = 'pytableaux.proof.tableaux'


class Tgt(dict):
    "target mock: a dict with attribute access to its keys"

    def __init__(self, name, **kw):
        super().__init__(**kw)
        self['name'] = name

    def __getattr__(self, k):
        try:
            return self[k]
        except KeyError:
            raise AttributeError(k)

    def __repr__(self):
        return f"T({self['name']})"

    def __hash__(self):
        return id(self)

    def __eq__(self, o):
        return self is o


def fold_rule_target(m: Model):
    """Rule.target / _extend_targets / _select_best_target folded: the result is one of the targets the rule
    produced; with rank optimisation off it is the first, with it on a maximal-score one; never raises."""
    f_target = m.func(TAB, 'Rule.target')
    f_ext = m.func(TAB, 'Rule._extend_targets')
    f_sel = m.func(TAB, 'Rule._select_best_target')
    out = []
    from collections import deque
    for rank in (True, False):
        for scores in ((), (0.0,), (1.0, 3.0, 3.0, 2.0), (-1.0, -5.0)):
            targets = [Tgt(f't{i}') for i in range(len(scores))]
            score = dict(zip(map(id, targets), scores))
            rule = Obj('rule', __srcclass__=(m, ClassRef(TAB, 'Rule')), opts={'is_rank_optim': rank})
            rule.timers = {'search': _CM()}
            rule._get_targets = lambda branch: iter(list(targets))
            rule.score_candidate = lambda t: score[id(t)]
            it = Interp(dict(deque=deque, Sequence=(list, tuple, deque), isinstance=isinstance,
                             Target=lambda *a, **k: Tgt('fresh-copy', **dict(a[0] if a else {}, **k))), where='proof/tableaux.py Rule.target')
            rule._extend_targets = lambda ts: it.call(f_ext, [rule, ts])
            rule._select_best_target = lambda ts: it.call(f_sel, [rule, ts])
            r = it.safe(f_target, [rule, 'BRANCH'])
            case = f'is_rank_optim={rank} candidate scores={list(scores)}'
            if not scores:
                ok = r is None
                want = 'no target'
            elif isinstance(r, Raises):
                ok, want = False, 'a target'
            else:
                best = max(scores)
                ok = any(r is t for t in targets) and (r is targets[0] if not rank else score[id(r)] == best) \
                    and r.get('rule') is rule and r.get('is_rank_optim') is rank and \
                    (r.get('candidate_score') == score[id(r)] if rank else r.get('candidate_score') is None)
                want = 'the first produced target' if not rank else 'a produced target of maximal score'
            out.append((ok, case, f'expected {want} (annotated with rule/option/score); got {r!r}'))
    return out, [m.loc(TAB, f) + f' Rule.{n}' for f, n in ((f_target, 'target'), (f_ext, '_extend_targets'), (f_sel, '_select_best_target'))]


class _CM:
    def __enter__(self):
        return self

    def __exit__(self, *a):
        return False


def fold_group_application(m: Model):
    """Tableau._get_group_application / _select_optim_group_application folded: the entry returned pairs a rule of the
    group with that rule's own target; without group optimisation it is the first rule that has one, with it the first
    of maximal group score; no option combination raises."""
    f_get = m.func(TAB, 'Tableau._get_group_application')
    f_sel = m.func(TAB, 'Tableau._select_optim_group_application')
    out = []
    from collections import deque
    for gopt in (True, False):
        for spec in ((), (None, None), (None, 1.0, 2.0), (2.0, None, 2.0, 1.0), (-3.0,)):
            rules = []
            for i, sc in enumerate(spec):
                t = None if sc is None else Tgt(f't{i}')
                rl = Obj(f'rule{i}')
                rl.target = (lambda t: (lambda branch: t))(t)
                rl.group_score = (lambda sc: (lambda target: sc))(sc)
                rules.append((rl, t, sc))
            tab = Obj('tableau', __srcclass__=(m, ClassRef(TAB, 'Tableau')), opts={'is_group_optim': gopt})
            StepEntry = lambda rule, target, dur: Obj('entry', rule=rule, target=target, duration=dur)
            it = Interp(dict(deque=deque, Tableau=Obj('Tableau', StepEntry=StepEntry), Counter=lambda: 'CTR', bool=bool, len=len,
                             Target=lambda *a, **k: Tgt('fresh-copy', **dict(a[0] if a else {}, **k))), where='Tableau._get_group_application')
            tab._select_optim_group_application = lambda entries: it.call(f_sel, [tab, entries])
            r = it.safe(f_get, [tab, 'BRANCH', [x[0] for x in rules]])
            case = f'is_group_optim={gopt} group (target score or None per rule)={list(spec)}'
            have = [(rl, t, sc) for rl, t, sc in rules if t is not None]
            if not have:
                ok, want = r is None, 'no entry'
            elif isinstance(r, Raises) or not isinstance(r, Obj):
                ok, want = False, 'an entry (a rule of the group has a target)'
            else:
                pairs = [(rl, t) for rl, t, sc in have]
                inpairs = any(r.rule is rl and r.target is t for rl, t in pairs)
                if not gopt:
                    ok = inpairs and r.rule is have[0][0] and r.target.get('is_group_optim') is False
                    want = 'the first rule of the group that has a target, with its target'
                else:
                    best = max(sc for _, _, sc in have)
                    first_best = next(x for x in have if x[2] == best)
                    ok = inpairs and r.rule is first_best[0] and r.target.get('group_score') == best and r.target.get('is_group_optim') is True
                    want = 'the first (rule, own target) pair of maximal group score'
                ok = ok and getattr(r.target, '_entry', None) is r
            out.append((ok, case, f'expected {want}; got {r!r}' + (f' rule={r.rule!r} target={r.target!r}' if isinstance(r, Obj) else '')))
    return out, [m.loc(TAB, f_get) + ' Tableau._get_group_application', m.loc(TAB, f_sel) + ' Tableau._select_optim_group_application']


# ---- scoring of closure targets -------------------------------------------
HELPERS = 'pytableaux.proof.helpers'
RULES = 'pytableaux.proof.rules'


def fold_closure_scoring(m: Model, lgs):
    """For every closure rule class of every logic: the MRO-resolved score_candidate and group_score, folded on the
    very target the rule's (MRO-resolved) _branch_target_hook builds, return a number -- under is_rank_optim /
    is_group_optim the engine calls them on closure targets too, and a scorer written for expansion targets
    (it reads target['adds']) raises there."""
    from .model import FuncRef
    out, consulted = [], set()
    seen = set()
    f_cs = m.func(HELPERS, 'AdzHelper.closure_score')
    for lg in lgs:
        for rc in lg.closure:
            if rc in seen:
                continue
            seen.add(rc)
            it = Interp(dict(Target=lambda **kw: Tgt('closure-target', **kw), FilterHelper='FilterHelper', PredNodes='PredNodes',
                             AdzHelper='AdzHelper', NodeCount='NodeCount', float=float, min=min, max=max, len=len, bool=bool),
                        where=f'{rc.short} scoring')

            class Self(dict):
                pass
            self_ = Self()
            adz = Obj('AdzHelper', closure_rules=[Obj('closure-rule', nodes_will_close_branch=lambda nodes, branch: False)])
            adz.closure_score = lambda t: it.call(f_cs, [adz, t])
            self_['AdzHelper'] = adz
            self_['NodeCount'] = {'BRANCH': {}}
            self_['FilterHelper'] = Obj('FilterHelper', config=Obj('cfg', pred=lambda n: True), release=lambda n, b: None)
            self_['FilterHelper'].__class__ = type('FH', (Obj,), {'__call__': lambda s_, node, branch: True})
            self_['PredNodes'] = Obj('PredNodes', release=lambda n, b: None)
            self_.branching = 0
            self_.tableau = Obj('tableau', branching_complexity=lambda node: 0)
            self_.sentence = lambda node: ('a', 'a')
            self_._find_closing_node = lambda node, branch: 'PARTNER'
            self_.node_will_close_branch = lambda node, branch: True

            def invoke(name, args, kw, after=None, rc=rc, it=it, self_=self_):
                fn, owner = m.method(rc, name, after)
                if not isinstance(fn, FuncRef):
                    raise Raised(f'AttributeError {name}')
                consulted.add(m.floc(fn) + f' {fn.qualname}')

                class Sup:
                    def __getattr__(s_, n):
                        return lambda *a, **k: invoke(n, list(a), k, after=owner)
                old = it.g.get('super')
                it.g['super'] = lambda: Sup()
                try:
                    return it.call(fn.node, [self_, *args], kw)
                finally:
                    it.g['super'] = old
            for nm in ('score_candidate', 'group_score', '_branch_target_hook'):
                setattr(self_, nm, (lambda nm: (lambda *a, **k: invoke(nm, list(a), k)))(nm))
            try:
                target = self_._branch_target_hook('NODE', 'BRANCH')
            except Exception as e:
                target = None
            if not isinstance(target, Tgt):
                target = Tgt('closure-target', nodes=('NODE', 'PARTNER'), branch='BRANCH')
            target['rule'] = self_
            for nm in ('score_candidate', 'group_score'):
                try:
                    r = getattr(self_, nm)(target)
                except Raised as e:
                    r = Raises(e.text)
                except (TypeError, KeyError, AttributeError, IndexError, ValueError, ZeroDivisionError) as e:
                    r = Raises(f'{type(e).__name__}: {e}')
                ok = isinstance(r, (int, float)) and not isinstance(r, bool)
                fn, owner = m.method(rc, nm)
                out.append((ok, f'{rc.short}.{nm}', f'resolves to {fn.qualname if isinstance(fn, FuncRef) else fn!r}; on the closure target '
                            f'{sorted(k for k in target if k != "name")} it gives {r!r} (a number is required: the engine compares and sums scores)',
                            m.floc(fn) if isinstance(fn, FuncRef) else '?'))
    return out, sorted(consulted)


def nullable_target_keys(m: Model):
    """Target keys that hold None when an option is off, found by folding the two annotating functions with the option
    off and reading the annotated target: {key: option}."""
    from collections import deque
    keys = {}
    f_ext = m.func(TAB, 'Rule._extend_targets')
    t = Tgt('t0')
    rule = Obj('rule', __srcclass__=(m, ClassRef(TAB, 'Rule')), opts={'is_rank_optim': False})
    rule.score_candidate = lambda x: 1.0
    it = Interp(dict(deque=deque, Sequence=(list, tuple, deque), isinstance=isinstance,
                     Target=lambda *a, **k: Tgt('fresh-copy', **dict(a[0] if a else {}, **k))), where='proof/tableaux.py Rule._extend_targets')
    it.call(f_ext, [rule, [t]])
    for k, v in t.items():
        if v is None:
            keys[k] = 'is_rank_optim'
    f_get = m.func(TAB, 'Tableau._get_group_application')
    f_sel = m.func(TAB, 'Tableau._select_optim_group_application')
    t = Tgt('t0')
    rl = Obj('rule0', target=lambda branch: t, group_score=lambda target: 1.0)
    tab = Obj('tableau', __srcclass__=(m, ClassRef(TAB, 'Tableau')), opts={'is_group_optim': False})
    it = Interp(dict(deque=deque, Tableau=Obj('Tableau', StepEntry=lambda rule, target, dur: Obj('entry', rule=rule, target=target, duration=dur)),
                     Counter=lambda: 'CTR', bool=bool, len=len, Target=lambda *a, **k: Tgt('fresh-copy', **dict(a[0] if a else {}, **k))),
                where='Tableau._get_group_application')
    tab._select_optim_group_application = lambda entries: it.call(f_sel, [tab, entries])
    r = it.call(f_get, [tab, 'BRANCH', [rl]])
    tgt = getattr(r, 'target', None) or t
    for k, v in tgt.items():
        if v is None:
            keys[k] = 'is_group_optim'
    return keys
