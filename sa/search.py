"""Folds of the search layer (C09): rule target selection and group application
over mock rules/targets for all four option combinations."""
from __future__ import annotations

import itertools

from .minieval import Interp, Obj, Raises
from .model import Model

TAB = 'pytableaux.proof.tableaux'


class Tgt(dict):
    "target mock: a dict with attribute access to its keys"

    def __init__(self, name, **kw):
        super().__init__(**kw)
        self['name'] = name

    def __getattr__(self, k):
        try:
            return self[k]
        except KeyError:
            raise AttributeError(k)

    def __repr__(self):
        return f"T({self['name']})"

    def __hash__(self):
        return id(self)

    def __eq__(self, o):
        return self is o


def fold_rule_target(m: Model):
    """Rule.target / _extend_targets / _select_best_target folded: the result is one of the targets the rule
    produced; with rank optimisation off it is the first, with it on a maximal-score one; never raises."""
    f_target = m.func(TAB, 'Rule.target')
    f_ext = m.func(TAB, 'Rule._extend_targets')
    f_sel = m.func(TAB, 'Rule._select_best_target')
    out = []
    from collections import deque
    for rank in (True, False):
        for scores in ((), (0.0,), (1.0, 3.0, 3.0, 2.0), (-1.0, -5.0)):
            targets = [Tgt(f't{i}') for i in range(len(scores))]
            score = dict(zip(map(id, targets), scores))
            rule = Obj('rule', opts={'is_rank_optim': rank})
            rule.timers = {'search': _CM()}
            rule._get_targets = lambda branch: iter(list(targets))
            rule.score_candidate = lambda t: score[id(t)]
            it = Interp(dict(deque=deque, Sequence=(list, tuple, deque), isinstance=isinstance,
                             Target=lambda *a, **k: Tgt('fresh-copy', **dict(a[0] if a else {}, **k))), where='proof/tableaux.py Rule.target')
            rule._extend_targets = lambda ts: it.call(f_ext, [rule, ts])
            rule._select_best_target = lambda ts: it.call(f_sel, [rule, ts])
            r = it.safe(f_target, [rule, 'BRANCH'])
            case = f'is_rank_optim={rank} candidate scores={list(scores)}'
            if not scores:
                ok = r is None
                want = 'no target'
            elif isinstance(r, Raises):
                ok, want = False, 'a target'
            else:
                best = max(scores)
                ok = any(r is t for t in targets) and (r is targets[0] if not rank else score[id(r)] == best) \
                    and r.get('rule') is rule and r.get('is_rank_optim') is rank and \
                    (r.get('candidate_score') == score[id(r)] if rank else r.get('candidate_score') is None)
                want = 'the first produced target' if not rank else 'a produced target of maximal score'
            out.append((ok, case, f'expected {want} (annotated with rule/option/score); got {r!r}'))
    return out, [m.loc(TAB, f) + f' Rule.{n}' for f, n in ((f_target, 'target'), (f_ext, '_extend_targets'), (f_sel, '_select_best_target'))]


class _CM:
    def __enter__(self):
        return self

    def __exit__(self, *a):
        return False


def fold_group_application(m: Model):
    """Tableau._get_group_application / _select_optim_group_application folded: the entry returned pairs a rule of the
    group with that rule's own target; without group optimisation it is the first rule that has one, with it the first
    of maximal group score; no option combination raises."""
    f_get = m.func(TAB, 'Tableau._get_group_application')
    f_sel = m.func(TAB, 'Tableau._select_optim_group_application')
    out = []
    from collections import deque
    for gopt in (True, False):
        for spec in ((), (None, None), (None, 1.0, 2.0), (2.0, None, 2.0, 1.0), (-3.0,)):
            rules = []
            for i, sc in enumerate(spec):
                t = None if sc is None else Tgt(f't{i}')
                rl = Obj(f'rule{i}')
                rl.target = (lambda t: (lambda branch: t))(t)
                rl.group_score = (lambda sc: (lambda target: sc))(sc)
                rules.append((rl, t, sc))
            tab = Obj('tableau', opts={'is_group_optim': gopt})
            StepEntry = lambda rule, target, dur: Obj('entry', rule=rule, target=target, duration=dur)
            it = Interp(dict(deque=deque, Tableau=Obj('Tableau', StepEntry=StepEntry), Counter=lambda: 'CTR', bool=bool, len=len,
                             Target=lambda *a, **k: Tgt('fresh-copy', **dict(a[0] if a else {}, **k))), where='Tableau._get_group_application')
            tab._select_optim_group_application = lambda entries: it.call(f_sel, [tab, entries])
            r = it.safe(f_get, [tab, 'BRANCH', [x[0] for x in rules]])
            case = f'is_group_optim={gopt} group (target score or None per rule)={list(spec)}'
            have = [(rl, t, sc) for rl, t, sc in rules if t is not None]
            if not have:
                ok, want = r is None, 'no entry'
            elif isinstance(r, Raises):
                ok, want = False, 'an entry'
            else:
                pairs = [(rl, t) for rl, t, sc in have]
                inpairs = any(r.rule is rl and r.target is t for rl, t in pairs)
                if not gopt:
                    ok = inpairs and r.rule is have[0][0] and r.target.get('is_group_optim') is False
                    want = 'the first rule of the group that has a target, with its target'
                else:
                    best = max(sc for _, _, sc in have)
                    first_best = next(x for x in have if x[2] == best)
                    ok = inpairs and r.rule is first_best[0] and r.target.get('group_score') == best and r.target.get('is_group_optim') is True
                    want = 'the first (rule, own target) pair of maximal group score'
                ok = ok and getattr(r.target, '_entry', None) is r
            out.append((ok, case, f'expected {want}; got {r!r}' + (f' rule={r.rule!r} target={r.target!r}' if isinstance(r, Obj) else '')))
    return out, [m.loc(TAB, f_get) + ' Tableau._get_group_application', m.loc(TAB, f_sel) + ' Tableau._select_optim_group_application']
