"""Core plumbing shared by every check: findings, floors, known findings,
evidence, exit protocol.  Nothing here (or anywhere in `sa`) imports or runs
pytableaux; an import blocker enforces it."""
from __future__ import annotations

import json
import os
import sys
import time
import traceback
from dataclasses import dataclass, field
from pathlib import Path

VERIF = Path(__file__).resolve().parent.parent
KNOWN_FILE = VERIF / 'known_findings.json'
EVIDENCE_DIR = VERIF / 'evidence'
OUT_DIR = VERIF / 'out'


class AnalysisError(Exception):
    """The analysis could not be carried out (vanished anchor, idiom outside the
    supported subset).  Not a verdict: exit status 2."""


class _Blocker:
    """Meta-path finder that refuses to import the analysed package."""

    def find_spec(self, name, path=None, target=None):
        if name == 'pytableaux' or name.startswith('pytableaux.'):
            raise ImportError('sa: static analysis must not import pytableaux')
        return None


def install_import_blocker():
    if not any(isinstance(f, _Blocker) for f in sys.meta_path):
        sys.meta_path.insert(0, _Blocker())


@dataclass
class Finding:
    prop: str
    rule: str          # e.g. 'C04.R1'
    key: str           # stable triage key: rule + construct, never a line number
    where: str         # file:line (diagnostic only)
    construct: str     # class / function / logic+rule
    msg: str
    detail: dict = field(default_factory=dict)

    def to_json(self):
        return dict(property=self.prop, rule=self.rule, key=self.key, where=self.where,
                    construct=self.construct, msg=self.msg, detail=self.detail)


class Report:
    """Accumulates what one check run analysed and found."""

    def __init__(self, prop: str, tier: str, repo: Path):
        self.prop, self.tier, self.repo = prop, tier, Path(repo)
        self.findings: list[Finding] = []
        self.counts: dict[str, int] = {}
        self.samples: list = []
        self.consulted: set[str] = set()
        self.rules: dict[str, dict] = {}
        self.notes: list[str] = []
        self.obligations = 0
        self.discharged = 0
        self.nontrivial: set = set()
        self.floor_fail: list[str] = []
        self.t0 = time.time()

    # -- bookkeeping ---------------------------------------------------
    def rule(self, rid: str, text: str):
        self.rules.setdefault(rid, dict(text=text, instances=0, failed=0))
        return rid

    def count(self, name: str, n: int = 1):
        self.counts[name] = self.counts.get(name, 0) + n

    def instance(self, rid: str, ok: bool = True, sample=None, nontrivial=None):
        """Record one rule instance (an obligation)."""
        r = self.rules.setdefault(rid, dict(text='', instances=0, failed=0))
        r['instances'] += 1
        self.obligations += 1
        if ok:
            self.discharged += 1
        else:
            r['failed'] += 1
        if nontrivial is not None:
            self.nontrivial.add((rid, nontrivial))
        if sample is not None and len(self.samples) < 40:
            have = sum(1 for s in self.samples if s.get('rule_id') == rid)
            if have < 3:
                self.samples.append({'rule_id': rid, **sample} if isinstance(sample, dict) else {'rule_id': rid, 'case': sample})

    def consult(self, *locs: str):
        self.consulted.update(locs)

    def floor(self, rid: str, what: str, got: int, minimum: int):
        """Fail closed when a rule matched far fewer sites than confirmed by hand.  `minimum` is the count confirmed on the
        reviewed tree; a quarter of slack is allowed, because merging duplicated code or extracting a helper legitimately
        changes the number of sites while a vanished anchor or an unrecognised idiom loses (nearly) all of them."""
        self.counts[f'{rid}:{what}'] = got
        minimum = max(1, -(-minimum * 3 // 4))
        if got < minimum:
            # a shortfall is fatal (exit 2) unless the run also found violations, which then take precedence
            self.floor_fail.append(f'{rid}: matched {got} {what}, expected at least {minimum} '
                                   f'(anchor moved or idiom no longer recognised)')

    def finding(self, rule_id: str, key: str, where: str, construct: str, msg: str, /, **detail):
        self.findings.append(Finding(self.prop, rule_id, key, where, construct, msg, detail))

    def note(self, s: str):
        self.notes.append(s)


def load_known():
    if not KNOWN_FILE.exists():
        return []
    return json.loads(KNOWN_FILE.read_text()).get('findings', [])


def relpath(repo: Path, p) -> str:
    try:
        return str(Path(p).resolve().relative_to(Path(repo).resolve()))
    except Exception:
        return str(p)


def finish(rep: Report, level: str, explanation: str, trusted_base: list[str], assumptions: list[str],
           write_evidence: bool = True, only: str | None = None) -> int:
    """Apply the known-findings file, print the protocol lines, write evidence
    and the replay file(s); return the process exit status."""
    known = [k for k in load_known() if k.get('property') == rep.prop]
    known_keys = {k['key']: k for k in known if k.get('status') == 'known'}
    seen_known, violations = [], []
    for f in rep.findings:
        if only and only not in (f.rule, f.key):
            continue
        if f.key in known_keys:
            seen_known.append(f)
        else:
            violations.append(f)
    printed = set()
    for f in seen_known:
        if f.key in printed:
            continue
        printed.add(f.key)
        print(f'KNOWN-FINDING: property={rep.prop} {f.key} :: {known_keys[f.key].get("what", f.msg)}')
    stale = [k for k in known_keys if k not in {f.key for f in seen_known}]
    for k in stale:
        rep.note(f'known finding no longer reported (repaired or moved): {k}')
    status = 0
    if rep.floor_fail and not violations:
        raise AnalysisError('; '.join(rep.floor_fail))
    for ff in rep.floor_fail:
        print(f'  NOTE floor shortfall (superseded by the violations below): {ff}')
    if violations:
        status = 1
        OUT_DIR.mkdir(exist_ok=True)
        replay = OUT_DIR / f'{rep.prop}.replay.json'
        replay.write_text(json.dumps(dict(
            property=rep.prop, tier=rep.tier, repo=str(rep.repo),
            violations=[f.to_json() for f in violations]), indent=1, default=str))
        for f in violations[:50]:
            print(f'  {f.rule} {f.where} [{f.construct}] {f.msg}')
            print(f'    key={f.key}')
        if len(violations) > 50:
            print(f'  ... {len(violations) - 50} more in {replay}')
        print(f'VIOLATION property={rep.prop} replay={replay}')
    wall = time.time() - rep.t0
    for rid, r in sorted(rep.rules.items()):
        print(f'  [{rid}] instances={r["instances"]} failed={r["failed"]} :: {r["text"][:110]}')
    print(f'{rep.prop} {rep.tier}: obligations={rep.obligations} discharged={rep.discharged} '
          f'violations={len(violations)} known={len(printed)} wall={wall:.2f}s')
    if write_evidence:
        ev = dict(
            property_id=rep.prop, tier=rep.tier, seed=int(os.environ.get('VERIF_SEED', '0') or 0), level=level,
            coverage=dict(
                evaluations=max(rep.obligations, 1),
                distinct_nontrivial=max(len(rep.nontrivial), 0),
                rule='one evaluation = one rule instance (obligation) generated from /repo\'s source on this run; '
                     'distinct_nontrivial counts distinct (rule, construct) pairs, i.e. instances anchored in a '
                     'distinct class/function/table entry of the repository (not repeated valuations of one)',
                samples=rep.samples[:40] or [dict(note='no instances')],
                obligations=rep.obligations,
                discharged=rep.discharged,
                checker_cmd=f'/venv/bin/python -m sa {rep.prop} --tier {rep.tier}',
                trusted_base=trusted_base,
                explanation=explanation,
                exhaustive=True,
                rules={k: v for k, v in sorted(rep.rules.items())},
                counts=dict(sorted(rep.counts.items())),
                functions_consulted=sorted(rep.consulted)[:400],
                known_findings_reported=sorted(printed),
                notes=rep.notes[:60],
            ),
            assumptions=assumptions,
            wall_s=round(wall, 3),
            violations=len(violations),
        )
        EVIDENCE_DIR.mkdir(exist_ok=True)
        (EVIDENCE_DIR / f'{rep.prop}.json').write_text(json.dumps(ev, indent=1, default=str))
    return status


def main_guard(fn):
    """Run fn(); map exceptions to the exit protocol (2 = ANALYSIS-ERROR)."""
    try:
        return fn()
    except AnalysisError as e:
        print(f'ANALYSIS-ERROR {e}')
        return 2
    except Exception:
        traceback.print_exc()
        print('ANALYSIS-ERROR checker crashed (traceback above)')
        return 2
