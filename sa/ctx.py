"""Shared lazily-built analysis context (one per process)."""
from __future__ import annotations

from .core import AnalysisError
from .logics import Logics
from .model import Model
from .schema import Extractor
from .tables import Semantics


class Ctx:
    def __init__(self, repo):
        self.repo = repo
        self.m = Model(repo)
        self._lgs = None
        self._ex = None
        self._sem = {}

    @property
    def lgs(self) -> Logics:
        if self._lgs is None:
            self._lgs = Logics(self.m)
        return self._lgs

    @property
    def ex(self) -> Extractor:
        if self._ex is None:
            self._ex = Extractor(self.lgs)
        return self._ex

    def sem(self, lg) -> Semantics:
        if lg.module not in self._sem:
            self._sem[lg.module] = Semantics(self.lgs, lg)
        return self._sem[lg.module]
