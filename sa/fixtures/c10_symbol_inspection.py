# Positive fixture for C10.R2 (must be flagged on every run): rule code that
# looks at *which* symbol it is handling.
def _get_node_targets(self, node, branch):
    s = self.sentence(node)
    for c in s.constants:
        if c.index == 0 and c.subscript == 0:      # symbol identity inspected
            continue
        yield c
    if s.predicate.spec == (0, 0, 1):              # symbol identity inspected
        return
    a = Atomic(0, 0)                               # a specific symbol built outside example code
