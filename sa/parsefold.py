"""The parsers folded end to end.

PolishParser / StandardParser (and ParseContext) are rebuilt as MRO-bound classes (sa.bind): every method is the
repository's own definition interpreted by minieval; the parse tables are the ones of lang/_symdata.py (sa.symtab);
lexical classes and the predicate store are small mocks with the construction contracts the real ones have (wrong number
of parameters / operands -> TypeError, bad coordinates -> ValueError).  Each parser is run on a bounded but dense input
language: every well-formed sentence up to a size bound rendered in the notation, every single-character deletion,
insertion, replacement and truncation of those, whitespace variants, and every string up to length 3.

What is decided per input (C13): the outcome is a ParseError, or a sentence that is *closed* (every variable occurrence
bound by an enclosing quantifier, no vacuous and no re-bound quantifier) with every predicate used at one arity; never
another exception.  Against an independent reference reader of the Polish grammar (C12/C13): acceptance and the
sentence read agree on every input.  Parsing the same input twice with fresh predicate stores gives the same result
(history independence) and leaves nothing behind but auto-declared predicates."""
from __future__ import annotations

import ast
import itertools

from . import symtab
from .bind import bound_class
from .core import AnalysisError
from .minieval import Interp, Obj, Raised, Raises
from .model import ClassRef, Model

PAR = 'pytableaux.lang.parsing'
ERR = 'pytableaux.errors'


# ---- error classes mirrored from errors.py (hierarchy read from the source) -------------------------------
def error_classes(m: Model):
    tree = m.trees[ERR]
    made = {}
    pending = [st for st in tree.body if isinstance(st, ast.ClassDef)]
    base_map = {'Exception': Exception, 'ValueError': ValueError, 'TypeError': TypeError, 'KeyError': KeyError, 'AttributeError': AttributeError,
                'IndexError': IndexError, 'RuntimeError': RuntimeError}
    for _ in range(6):
        for st in pending:
            if st.name in made:
                continue
            bases = []
            for b in st.bases:
                n = ast.unparse(b)
                if n in made:
                    bases.append(made[n])
                elif n in base_map:
                    bases.append(base_map[n])
            if len(bases) == len(st.bases) and bases:
                try:
                    made[st.name] = type(st.name, tuple(bases), {})
                except TypeError:
                    made[st.name] = type(st.name, (bases[0],), {})
    if 'ParseError' not in made:
        raise AnalysisError('errors.py: ParseError not found')
    # UndefinedPredicateError carries the coordinates
    if 'UndefinedPredicateError' in made:
        UPE = made['UndefinedPredicateError']

        def init(self, coords, *args):
            self.coords = coords
            Exception.__init__(self, *args)
        UPE.__init__ = init
    return made


# ---- lexical mocks ------------------------------------------------------------------------------------------
class Lex:
    "namespace of mock lexical classes for one run"

    def __init__(self):
        L = self

        class Item:
            def __eq__(s, o):
                return type(s) is type(o) and s.key == o.key

            def __ne__(s, o):
                return not s.__eq__(o)

            def __hash__(s):
                return hash((type(s).__name__, s.key))

            def __repr__(s):
                return s.text

        class Coords(Item):
            maxi = 3

            def __init__(s, *spec):
                if len(spec) == 1:
                    spec = spec[0]
                spec = tuple(spec)
                if len(spec) != 2 or not all(isinstance(x, int) for x in spec):
                    raise TypeError(spec)
                if spec[0] > s.maxi or spec[0] < 0 or spec[1] < 0:
                    raise ValueError(spec)
                s.spec = s.key = spec
                s.text = f'{type(s).__name__[0].lower()}{spec[0]}.{spec[1]}'
                s.variables = frozenset()

        class Constant(Coords):
            pass

        class Variable(Coords):
            pass

        class Atomic(Coords):
            maxi = 4

        class Predicate(Item):
            System = None   # set below

            def __init__(s, *spec):
                if len(spec) == 1:
                    spec = spec[0]
                if isinstance(spec, Predicate):
                    s.__dict__.update(spec.__dict__)
                    return
                if isinstance(spec, str):
                    spec = {'Identity': (-1, 0, 2), 'Existence': (-2, 0, 1)}[spec]
                spec = tuple(spec)
                if len(spec) != 3 or not all(isinstance(x, int) for x in spec):
                    raise TypeError(spec)
                if spec[0] > 3 or spec[1] < 0 or spec[2] <= 0:
                    raise ValueError(spec)
                s.spec = s.key = spec
                s.bicoords = spec[:2]
                s.arity = spec[2]
                s.text = f'P{spec[0]}.{spec[1]}/{spec[2]}'

            def __call__(s, *params):
                if len(params) == 1 and not isinstance(params[0], Coords):
                    params = tuple(params[0])
                params = tuple(params)
                if len(params) != s.arity or not all(isinstance(p, (Constant, Variable)) for p in params):
                    raise TypeError(f'{s.text} applied to {params}')
                return Sent('pred', s, params)

        class SystemMarker:
            "the type Predicate.System that tables use for ! and ="
            def __repr__(s):
                return 'Predicate.System'
        Predicate.System = SystemMarker()

        class Operator(Item):
            def __init__(s, value):
                if isinstance(value, Operator):
                    s.__dict__.update(value.__dict__)
                    return
                name = value.path[-1] if isinstance(value, symtab.Sym) else value
                if name not in L.arity:
                    raise ValueError(name)
                s.name = s.key = s.text = name
                s.arity = L.arity[name]

            def __call__(s, *operands):
                if len(operands) == 1 and not isinstance(operands[0], Sent):
                    operands = tuple(operands[0])
                if len(operands) != s.arity or not all(isinstance(o, Sent) for o in operands):
                    raise TypeError(f'{s.name} applied to {operands}')
                return Sent('oper', s, tuple(operands))

        class Quantifier(Item):
            def __init__(s, value):
                name = value.path[-1] if isinstance(value, symtab.Sym) else value
                s.name = s.key = s.text = name

            def __call__(s, v, body):
                if not isinstance(v, Variable) or not isinstance(body, Sent):
                    raise TypeError((v, body))
                return Sent('quant', s, (v, body))

        class Sent(Item):
            def __init__(s, kind, head, parts):
                s.kind, s.head, s.parts = kind, head, parts
                s.key = (kind, head, parts)
                if kind == 'pred':
                    s.variables = frozenset(p for p in parts if isinstance(p, Variable))
                elif kind == 'oper':
                    s.variables = frozenset().union(*(p.variables for p in parts))
                elif kind == 'quant':
                    s.variables = parts[1].variables
                s.text = f'{head}({", ".join(map(repr, parts))})'

        def atomic(coords):
            a = Atomic(coords)
            return AtomS(a)

        class AtomS(Sent):
            def __init__(s, a):
                s.kind, s.head, s.parts = 'atom', a, ()
                s.key = ('atom', a.key)
                s.variables = frozenset()
                s.text = a.text
        self.Item, self.Constant, self.Variable, self.AtomicItem, self.Predicate, self.Operator, self.Quantifier, self.Sent = \
            Item, Constant, Variable, Atomic, Predicate, Operator, Quantifier, Sent
        self.AtomS = AtomS
        self.arity = {}

        class AtomicCls:
            "what the parser calls as Atomic(coords): a sentence"
            def __call__(s, coords):
                return AtomS(Atomic(coords))

            def __repr__(s):
                return 'Atomic'
        self.Atomic = AtomicCls()


def free_and_shape(L, s, bound=frozenset()):
    "problems of a sentence: free variables, vacuous / re-bound quantifiers"
    probs = []
    if s.kind == 'pred':
        for p in s.parts:
            if isinstance(p, L.Variable) and p not in bound:
                probs.append(f'free variable {p}')
    elif s.kind == 'oper':
        for x in s.parts:
            probs += free_and_shape(L, x, bound)
    elif s.kind == 'quant':
        v, body = s.parts
        if v in bound:
            probs.append(f're-bound variable {v}')
        if not occurs(L, v, body):
            probs.append(f'vacuous quantifier over {v}')
        probs += free_and_shape(L, body, bound | {v})
    return probs


def occurs(L, v, s):
    if s.kind == 'pred':
        return v in s.parts
    if s.kind == 'oper':
        return any(occurs(L, v, x) for x in s.parts)
    if s.kind == 'quant':
        return occurs(L, v, s.parts[1])
    return False


def predicates_of(s, out=None):
    out = out if out is not None else set()
    if s.kind == 'pred':
        out.add(s.head)
    elif s.kind == 'oper':
        for x in s.parts:
            predicates_of(x, out)
    elif s.kind == 'quant':
        predicates_of(s.parts[1], out)
    return out


# ---- the folded parser ----------------------------------------------------------------------------------------
class StoreBase:
    "PredicatesBase mock"


class Store(StoreBase):
    "Predicates store mock (mutable): get(coords) / add(pred)"

    def __init__(self, preds=()):
        self.members = list(preds)

    def get(self, ref, *default):
        for p in self.members:
            if ref == p or ref == p.bicoords or ref == p.spec:
                return p
        if default:
            return default[0]
        raise KeyError(ref)

    def add(self, pred):
        for p in self.members:
            if p.bicoords == pred.bicoords and p.spec != pred.spec:
                raise ValueError('conflict')
        if pred not in self.members:
            self.members.append(pred)

    def __iter__(self):
        return iter(self.members)


class FrozenStore(StoreBase):
    "Predicates.Frozen mock: no add()"

    def __init__(self, preds=()):
        self.members = list(preds)

    get = Store.get
    __iter__ = Store.__iter__


def build(m: Model, notation: str, lexinfo, consulted: set):
    """-> (make_parser(store, **opts), L, E (error classes), table)"""
    pts, _ = symtab.load(m)
    tbl = next((t for t in pts if repr(t['notation']).endswith(notation)), None)
    if tbl is None:
        raise AnalysisError(f'no parse table for {notation}')
    L = Lex()
    L.arity = dict(lexinfo.arity)
    E = error_classes(m)
    Marking = Obj('Marking', whitespace=Obj('Marking.whitespace'), digit=Obj('Marking.digit'), paren_open=Obj('Marking.paren_open'), paren_close=Obj('Marking.paren_close'))
    typemap = {'Operator': L.Operator, 'Quantifier': L.Quantifier, 'Variable': L.Variable, 'Constant': L.Constant, 'Predicate': L.Predicate,
               'Atomic': L.Atomic}

    def conv_type(t):
        p = t.path
        if p == ('Predicate', 'System'):
            return L.Predicate.System
        if p[0] == 'Marking':
            return getattr(Marking, p[1])
        return typemap[p[0]]

    def conv_val(t, v):
        if isinstance(v, symtab.Sym):
            p = v.path
            if p[0] == 'Quantifier':
                return L.Quantifier(v)
            if p[0] == 'Predicate':
                return p[1]           # system predicate name
            return v                  # Operator.X stays symbolic: Operator(value) builds it
        return v

    class Table(dict):
        pass
    table = Table()
    for ch, (t, v) in tbl['mapping'].items():
        table[ch] = (conv_type(t), conv_val(t, v))
    rev = {}
    for ch, (t, v) in table.items():
        rev.setdefault((t, v) if not isinstance(v, symtab.Sym) else (t, v), ch)
        if t in (Marking.whitespace, Marking.paren_open, Marking.paren_close):
            rev.setdefault(t, ch)
    table.reversed = rev
    table.notation, table.dialect = notation, 'default'
    g = dict(E)
    g.update(Atomic=L.Atomic, Constant=L.Constant, Variable=L.Variable, Predicate=L.Predicate, Operator=L.Operator, Quantifier=L.Quantifier,
             Marking=Marking, BiCoords=lambda *a: tuple(a), NOARG=object(), MapProxy=lambda d: d, Sentence=L.Sent, Predicates=Store, PredicatesBase=StoreBase,
             Parameter=(L.Constant, L.Variable), isinstance=isinstance, getattr=getattr, int=int, str=str, len=len, range=range, tuple=tuple, map=map,
             KeyError=KeyError, IndexError=IndexError, ValueError=ValueError, TypeError=TypeError, NotImplementedError=NotImplementedError)
    g['Ctype'] = Obj('Ctype', pred=frozenset({L.Predicate, L.Predicate.System}), param=frozenset({L.Constant, L.Variable}))
    it = Interp(g, where=f'lang/parsing.py {notation} parser')
    Ctx = bound_class(m, it, ClassRef(PAR, 'ParseContext'), consulted=consulted, with_init=True)
    it.g['ParseContext'] = Ctx
    clsname = {'polish': 'PolishParser', 'standard': 'StandardParser'}[notation]
    # class-level dispatch maps, evaluated from the class bodies (base first)
    maps = {}
    for cn in ('DefaultParser', clsname):
        for st in m.clsdef(ClassRef(PAR, cn)).body:
            if isinstance(st, ast.Assign) and isinstance(st.targets[0], ast.Name) and st.targets[0].id == '_methodmap':
                it.g['DefaultParser'] = Obj('DefaultParser', _methodmap=maps.get('DefaultParser', {}))
                maps[cn] = it.ev(st.value, {})
    mm = maps.get(clsname, maps.get('DefaultParser'))
    if not mm:
        raise AnalysisError(f'{clsname}._methodmap not readable')
    P = bound_class(m, it, ClassRef(PAR, clsname), consulted=consulted, exclude=('__init__', '__repr__', 'argument'),
                    extra_ns=dict(_methodmap=mm))

    def make(store, **opts):
        p = P()
        p.table, p.predicates = table, store
        p.opts = dict(dict(auto_preds=True, drop_parens=True), **opts)
        return p
    return make, L, E, table, Marking


# ---- input language -------------------------------------------------------------------------------------------
def polish_sentences(chars, depth):
    "well-formed Polish strings (with their structure) up to a nesting depth"
    atoms = [('a',), ('b',)]
    terms = ['m', 'n']
    out = [c for c, in atoms]
    preds = ['Fm', 'Fn', 'Gmn', 'Imn', 'Imm', 'Jm']
    base = out + preds
    level = list(base)
    allS = list(base)
    for _ in range(depth):
        nxt = []
        for s in level:
            nxt += ['N' + s, 'M' + s]
        for s, t in itertools.product(level[:4], base[:4]):
            nxt += ['K' + s + t, 'C' + t + s]
        nxt += ['VxFx', 'SxGxm', 'VxSyGxy', 'VxKFxa', 'SxNFx', 'VxIxm']
        level = nxt[:40]
        allS += nxt
    return list(dict.fromkeys(allS))


def standard_sentences(depth):
    base = ['A', 'B', 'Fa', 'Fb', 'Gab', 'a=b', 'a=a', '!a', 'aGb']
    level = list(base)
    allS = list(base)
    for _ in range(depth):
        nxt = []
        for s in level[:8]:
            nxt += ['~' + s, 'P' + s]
        for s, t in itertools.product(level[:4], base[:4]):
            nxt += [f'({s} & {t})', f'({t} > {s})', f'{s} V {t}']
        nxt += ['LxFx', 'XxGxa', 'LxXyGxy', 'Lx(Fx & A)', 'Xx~Fx', 'Lxx=a', 'LxxGa']
        level = nxt[:40]
        allS += nxt
    return list(dict.fromkeys(allS))


def mutations(s, alphabet):
    out = set()
    for i in range(len(s) + 1):
        if i < len(s):
            out.add(s[:i] + s[i + 1:])
            out.add(s[:i])
        for ch in alphabet:
            out.add(s[:i] + ch + s[i:])
            if i < len(s):
                out.add(s[:i] + ch + s[i + 1:])
    out.add(' ' + s + ' ')
    out.add(' '.join(s))
    return out


# ---- reference reader for Polish notation ------------------------------------------------------------------------
class Reject(Exception):
    pass


def reference_polish(L, table, Marking, text, store_preds, auto=True):
    "independent recursive-descent reader; returns the sentence or raises Reject"
    pos = 0
    n = len(text)
    bound = []
    preds = {p.bicoords: p for p in store_preds}

    def skip():
        nonlocal pos
        while pos < n and table.get(text[pos], (None,))[0] is Marking.whitespace:
            pos += 1

    def cur():
        return table.get(text[pos]) if pos < n else None

    def subscript():
        nonlocal pos
        digs = ''
        while pos < n and table.get(text[pos], (None,))[0] is Marking.digit:
            digs += str(table[text[pos]][1])
            pos += 1
            skip()
        return int(digs or 0)

    def coords():
        nonlocal pos
        idx = table[text[pos]][1]
        pos += 1
        skip()
        return (idx, subscript())

    def param():
        c = cur()
        if c is None or c[0] not in (L.Constant, L.Variable):
            raise Reject('param')
        p = c[0](coords())
        if isinstance(p, L.Variable) and p not in bound:
            raise Reject('unbound')
        return p

    def sentence():
        nonlocal pos
        c = cur()
        if c is None:
            raise Reject('end')
        t, v = c
        if t is L.Operator:
            op = L.Operator(v)
            pos += 1
            skip()
            return op(*[sentence() for _ in range(op.arity)])
        if t is L.Atomic:
            return L.AtomS(L.AtomicItem(coords()))
        if t is L.Quantifier:
            pos += 1
            skip()
            c2 = cur()
            if c2 is None or c2[0] is not L.Variable:
                raise Reject('quant var')
            var = L.Variable(coords())
            if var in bound:
                raise Reject('rebind')
            bound.append(var)
            body = sentence()
            if var not in body.variables:
                raise Reject('vacuous')
            bound.remove(var)
            return v(var, body)
        if t is L.Predicate.System:
            pr = L.Predicate(v)
            pos += 1
            skip()
            return pr(*[param() for _ in range(pr.arity)])
        if t is L.Predicate:
            co = coords()
            if co in preds:
                pr = preds[co]
                return pr(*[param() for _ in range(pr.arity)])
            if not auto:
                raise Reject('undefined predicate')
            ps = []
            while cur() is not None and cur()[0] in (L.Constant, L.Variable):
                ps.append(param())
            if not ps:
                raise Reject('no params')
            pr = L.Predicate(co[0], co[1], len(ps))
            preds[co] = pr
            return pr(*ps)
        raise Reject('symbol')
    skip()
    s = sentence()
    skip()
    if pos != n:
        raise Reject('trailing')
    return s


# ---- the checks ----------------------------------------------------------------------------------------------------
def fold_parser(m: Model, lexinfo, notation: str, deep=False):
    consulted = set()
    make, L, E, table, Marking = build(m, notation, lexinfo, consulted)
    PE = E['ParseError']
    if notation == 'polish':
        good = polish_sentences(table, 2 if deep else 1)
        alphabet = ['N', 'K', 'a', 'F', 'm', 'x', 'V', 'I', '1', ' ', '?']
    else:
        good = standard_sentences(2 if deep else 1)
        alphabet = ['~', '&', 'A', 'F', 'a', 'x', 'L', '=', '(', ')', '1', ' ', '?']
    tricky = {'polish': ['VxVyFx', 'VxVxFx', 'VxFy', 'VxKFxFy', 'KVxFxFx', 'Fx', 'Gxm', 'VxGxx', 'SxVyGxy', 'F1m', 'F12 m', 'a1', 'a 1', 'Fmn', 'Fm m',
                         'Imnm', 'Im', 'Jmn', 'VxIxx', 'NNa', 'Ka', 'Kab c', 'V', 'Vx', 'VxF', 'Vm Fm', 'Hm', 'Hmn', 'KHmHmn', 'KHmnHm', 'Om', 'F', 'I', 'x', 'm'],
              'standard': ['LxLyFx', 'LxLxFx', 'LxFy', 'Lx(Fx & Fy)', '(LxFx & Fx)', 'Fx', 'x=a', 'xFa', 'a=x', 'Lxx=x', 'LxLy xGy', '(A & B', 'A & B)', 'A & B & C',
                           '(A & B) & C', '((A & B) & C)', '(A)', '()', 'A B', '~', '~~A', '(~A)', 'a', 'aF', 'aFb', 'aGb c', 'F1a', 'A1', 'A 1', 'a=', '=ab', '!ab', 'a!',
                           'Ha', 'Hab', '(Ha & Hab)', '(A & & B)', 'A > B > C', ' ( A & B ) ', 'LxFx & A', 'Lx(Fx) ', '(Lx Fx & A)', 'Fa V Gab', 'P~A', 'A~']}[notation]
    inputs = list(dict.fromkeys(good + tricky))
    seen = set(inputs)
    for s in good[: (60 if deep else 10)] + tricky[: (40 if deep else 6)]:
        for mu in sorted(mutations(s, alphabet)):
            if mu not in seen and len(mu) <= 14:
                seen.add(mu)
                inputs.append(mu)
    for r in range(0, 4 if deep else 3):
        for tup in itertools.product(alphabet, repeat=r):
            s = ''.join(tup)
            if s not in seen:
                seen.add(s)
                inputs.append(s)
    results = []
    declared = [L.Predicate(0, 0, 1)]          # F/1 declared; G, H, O auto-declared on first use
    ALLOWED_EXC = (PE,)
    for text in inputs:
        outcomes = []
        for store_kind in ('mutable', 'frozen'):
            store = Store(declared) if store_kind == 'mutable' else FrozenStore(declared)
            parser = make(store)
            try:
                r = parser(text)
                outcome = ('ok', r)
            except ALLOWED_EXC as e:
                outcome = ('parse-error', type(e).__name__)
            except Raised as e:
                outcome = ('other-error', f'Raised {e.text}')
            except Exception as e:        # noqa: BLE001 -- anything but ParseError is what this check is looking for
                outcome = ('other-error', f'{type(e).__name__}: {e}')
            outcomes.append((store_kind, outcome, store))
        for store_kind, (kind, val), store in outcomes:
            case = f'{notation} {text!r} ({store_kind} predicate store)'
            if kind == 'other-error':
                results.append((False, 'escape', case, f'raises {val} instead of ParseError'))
                continue
            if kind == 'ok':
                if not isinstance(val, L.Sent):
                    results.append((False, 'result', case, f'returns {val!r}, not a sentence'))
                    continue
                probs = free_and_shape(L, val)
                ar = {}
                for p in predicates_of(val) | set(store.members):
                    ar.setdefault(p.bicoords, set()).add(p.arity)
                probs += [f'predicate symbol {k} used with arities {sorted(v)}' for k, v in ar.items() if len(v) > 1]
                if probs:
                    results.append((False, 'closed', case, f'accepts {val!r}: ' + '; '.join(probs)))
                    continue
            if notation == 'polish' and store_kind == 'mutable':
                try:
                    want = ('ok', reference_polish(L, table, Marking, text, declared))
                except Reject as rj:
                    want = ('parse-error', str(rj))
                except (ValueError, TypeError, KeyError) as e:
                    want = ('parse-error', f'{type(e).__name__}')
                if want[0] != kind or (kind == 'ok' and want[1] != val):
                    results.append((False, 'grammar', case, f'parser: {kind} {val!r}; the Polish grammar gives {want[0]} {want[1]!r}'))
                    continue
            results.append((True, 'ok', case, f'{kind}'))
    # history pass: one parser instance (frozen store) over the whole corpus twice -- every outcome equals the fresh-parser outcome
    frozen_decl = declared + [L.Predicate(1, 0, 2)]

    def outcome(parser, text):
        try:
            return ('ok', repr(parser(text)))
        except ALLOWED_EXC as e:
            return ('parse-error', type(e).__name__)
        except Raised as e:
            return ('other-error', f'Raised {e.text}')
        except Exception as e:        # noqa: BLE001
            return ('other-error', f'{type(e).__name__}: {e}')
    corpus = list(dict.fromkeys(good + tricky))
    fresh = {t: outcome(make(FrozenStore(frozen_decl)), t) for t in corpus}
    shared = make(FrozenStore(frozen_decl))
    for rnd in (1, 2):
        for t in (corpus if rnd == 1 else reversed(corpus)):
            got = outcome(shared, t)
            ok = got == fresh[t]
            results.append((ok, 'history' if not ok else 'ok', f'{notation} {t!r} (one parser re-used, pass {rnd})',
                            f'gives {got[0]} {got[1]}; a fresh parser with the same declarations gives {fresh[t][0]} {fresh[t][1]}'))
    return results, sorted(consulted), len(inputs)


def fold_roundtrip(m: Model, lexinfo, deep=False):
    """C12: every well-formed Polish string of a structure corpus (what the Polish writer emits, by C12.R1/R3) goes through the
    folded parser and must come back as the structure an independent reader of the grammar gives."""
    consulted = set()
    make, L, E, table, Marking = build(m, 'polish', lexinfo, consulted)
    PE = E['ParseError']
    corpus = polish_sentences(table, 2 if deep else 1)
    # quantifier scoping: the same variable in disjoint scopes, nested different variables, subscripted variables
    q1 = ['VxFx', 'SxFx', 'VxGxm', 'SyGmy', 'Vx1Fx1', 'VxSyGxy', 'SxVyGyx', 'VxNFx', 'VxKFxGxm']
    corpus += q1
    for a, b in itertools.product(q1[:7], repeat=2):
        corpus += ['K' + a + b, 'C' + a + 'N' + b]
    corpus += ['KKVxFxSxFxVxGxm', 'VxKFxSyGxy', 'KVxSyGxyVySxGxy', 'NKVxFxNVxFx', 'VxCFxSyKGxyVzGyz']
    corpus = list(dict.fromkeys(corpus))
    declared = [L.Predicate(0, 0, 1)]
    results = []
    for text in corpus:
        try:
            want = reference_polish(L, table, Marking, text, declared)
        except (Reject, ValueError, TypeError, KeyError):
            continue
        parser = make(Store(declared))
        try:
            got = ('ok', parser(text))
        except PE as e:
            got = ('error', f'{type(e).__name__}: {e}')
        except Raised as e:
            got = ('error', f'Raised {e.text}')
        except Exception as e:        # noqa: BLE001
            got = ('error', f'{type(e).__name__}: {e}')
        ok = got == ('ok', want)
        results.append((ok, text, f'the Polish rendering {text!r} of {want!r} parses to {got[1]!r}' if not ok else 'ok'))
    # standard notation: well-formed infix strings (with / without the outer parentheses, extra whitespace) denote the sentence
    # whose Polish form is given alongside; structures of the two runs are compared by their canonical text
    makeS, LS, ES, tableS, MarkingS = build(m, 'standard', lexinfo, consulted)
    PES = ES['ParseError']
    pairs = [('A', 'a'), ('~A', 'Na'), ('A & B', 'Kab'), ('(A & B)', 'Kab'), ('A > B', 'Cab'), ('A V B', 'Aab'), ('(A & B) > A', 'CKaba'),
             ('((A & B) > A)', 'CKaba'), ('~(A & B)', 'NKab'), ('~~A', 'NNa'), ('PA', 'Ma'), ('Fa', 'Fm'), ('Gab', 'Gmn'), ('a=b', 'Imn'), ('!a', 'Jm'),
             ('LxFx', 'VxFx'), ('XxGxa', 'SxGxm'), ('LxXyGxy', 'VxSyGxy'), ('Lx(Fx & A)', 'VxKFxa'), ('LxFx & LxFx', 'KVxFxVxFx'),
             ('(LxFx > XxFx)', 'CVxFxSxFx'), ('Lxx=a', 'VxIxm'), ('~a=b', 'NImn'), ('A & (B V A)', 'KaAba'), ('A1', 'a1'), ('Fa1', 'Fm1'),
             ('Xx~Fx', 'SxNFx'), ('(A & B) & (B & A)', 'KKabKba'), ('LxXy(Gxy & Fx)', 'VxSyKGxyFx'),
             # subscripted symbols followed by whitespace (the cursor must sit on the next non-blank character after a subscript)
             ('L x1 F x1', 'Vx1Fx1'), ('Lx1 Fx1', 'Vx1Fx1'), ('a1 = b', 'Im1n'), ('G a1 b2', 'Gm1n2'), ('A1 & B2', 'Ka1b2'), ('Xy3 (Gy3a V ~Fy3)', 'Sy3AGy3mNFy3'),
             ('F a1', 'Fm1')]
    variants = lambda t: [t, ' ' + t + '  ', t.replace(' ', '   '), t.replace('(', '( ').replace(')', ' )')] + ([f'({t})'] if any(op_ in t for op_ in (' & ', ' V ', ' > ')) and not t.startswith('(') and t[0] not in '~LXP' else [])
    for std, pol in pairs:
        try:
            want = reference_polish(L, table, Marking, pol, declared)
        except (Reject, ValueError, TypeError, KeyError) as e:
            raise AnalysisError(f'parsefold: reference Polish form {pol!r} of {std!r} not readable: {e}')
        for text in dict.fromkeys(variants(std)):
            parser = makeS(Store([LS.Predicate(0, 0, 1)]))
            try:
                got = ('ok', parser(text))
            except PES as e:
                got = ('error', f'{type(e).__name__}: {e}')
            except Raised as e:
                got = ('error', f'Raised {e.text}')
            except Exception as e:        # noqa: BLE001
                got = ('error', f'{type(e).__name__}: {e}')
            ok = got[0] == 'ok' and repr(got[1]) == repr(want)
            results.append((ok, f'standard {text!r}', f'the infix string {text!r} denotes {want!r} but parses to {got[1]!r}' if not ok else 'ok'))
    return results, sorted(consulted)
