"""Trunk shape of each logic: fold System.build_trunk over a mock argument."""
from __future__ import annotations

from .core import AnalysisError
from .glue import MockNode, builder_interp, node_keys
from .minieval import Interp, Obj
from .model import ClassRef, FuncRef, Model


class Sent:
    def __init__(self, name):
        self.name = name

    def __invert__(self):
        return Sent(f'~{self.name}')

    def __neg__(self):
        # Sentence.negative(): strips a negation if there is one -- not the same sentence as ~s for a negated s
        return Sent(f'negative({self.name})')

    def __repr__(self):
        return self.name

    def __eq__(self, o):
        return isinstance(o, Sent) and o.name == self.name

    def __hash__(self):
        return hash(self.name)


class MockBranch:
    def __init__(self):
        self.nodes = []

    def _add(self, x):
        if isinstance(x, MockNode):
            self.nodes.append(x)
        else:
            for n in x:
                if not isinstance(n, MockNode):
                    raise AnalysisError(f'trunk: non-node {n!r} added')
                self.nodes.append(n)
        return self

    __iadd__ = _add
    extend = _add
    append = _add


def trunk_of(m: Model, systemcls: ClassRef, modal: bool):
    """Returns (owner-class, fn, [ (sentence-name, designated, world) ... ]) for
    premises P1, P2 and conclusion C."""
    fn, owner = m.method(systemcls, 'build_trunk')
    if not isinstance(fn, FuncRef):
        raise AnalysisError(f'{systemcls}.build_trunk not found')
    it, fns, keys = builder_interp(m)
    b = MockBranch()
    arg = Obj('arg', premises=(Sent('P1'), Sent('P2')), conclusion=Sent('C'))
    cls = Obj('System', modal=modal)
    it.where = m.floc(fn)
    it.call(fn.node, [cls, b, arg])
    out = []
    for n in b.nodes:
        out.append((n[keys['sentence']].name, n.get(keys['designated']), n.get(keys['world'])))
    return owner, fn, out


def classify(nodes, modal):
    w = 0 if modal else None
    if nodes == [('P1', True, w), ('P2', True, w), ('C', False, w)]:
        return 'designation'
    if nodes == [('P1', None, w), ('P2', None, w), ('~C', None, w)]:
        return 'negation'
    return None
