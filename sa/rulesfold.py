"""The rule collections of a tableau (RulesRoot / RuleGroups / RuleGroup) folded as a state machine, the `locking`
decorator included: before the first branch exists rules can be added, grouped and cleared; the root registers its
lock on the first AFTER_BRANCH_ADD; once locked every mutator -- and attribute assignment -- raises and changes nothing."""
from __future__ import annotations

import ast
import types

from .bind import bound_class
from .core import AnalysisError
from .minieval import Interp, Obj, Raised
from .model import ClassRef, Model

TAB = 'pytableaux.proof.tableaux'
EXC = (Raised, TypeError, KeyError, AttributeError, IndexError, ValueError, RuntimeError)


class IllegalStateError(Exception):
    pass


def fold_rule_collections(m: Model):
    consulted = set()
    it = Interp(dict(Emsg=Obj('Emsg', IllegalState=lambda *a: IllegalStateError(*a), DuplicateKey=lambda *a: KeyError(*a), ReadOnly=Obj('RO', razr=None)),
                     MapProxy=types.MappingProxyType, SeqCover=tuple, check=Obj('check', subcls=lambda c, b: c, inst=lambda o, t: o),
                     NOARG=object(), isinstance=isinstance, list=list, wraps=lambda *a, **k: (lambda f: f), AttributeError=AttributeError, KeyError=KeyError,
                     Tableau=Obj('Tableau', Events=Obj('Events', AFTER_BRANCH_ADD='AFTER_BRANCH_ADD'))), where='proof/tableaux.py rule collections')
    lockfn = next((st for st in m.trees[TAB].body if isinstance(st, ast.FunctionDef) and st.name == 'locking'), None)
    if lockfn is None:
        raise AnalysisError('locking decorator vanished')
    consulted.add(m.loc(TAB, lockfn) + ' locking')

    def setattr_guard():
        return it.call(lockfn, [object.__setattr__])
    classes = {}
    for name in ('RuleGroup', 'RuleGroups', 'RulesRoot'):
        cd = m.clsdef(ClassRef(TAB, name))
        guarded_setattr = any(isinstance(st, ast.Assign) and any(isinstance(t, ast.Name) and t.id == '__setattr__' for t in st.targets)
                              and 'locking' in ast.unparse(st.value) for st in cd.body)
        extra = dict(__setattr__=setattr_guard()) if guarded_setattr else {}
        C = bound_class(m, it, ClassRef(TAB, name), consulted=consulted, with_init=True, apply_decorators=('locking',), extra_ns=extra)
        C._guarded_setattr = guarded_setattr
        classes[name] = C
        it.g[name] = C
    it.g['Rule'] = object

    class Tab:
        def __init__(self):
            self.once_calls, self.off_calls, self.opts = [], [], {}

        def once(self, ev, cb):
            self.once_calls.append((ev, cb))

        def off(self, ev, cb):
            self.off_calls.append((ev, cb))

    def rulecls(n):
        def make(tab, **opts):
            return Obj(f'rule-{n}', name=n)
        make.name = n
        return make
    A, B, C_, D = (rulecls(x) for x in 'ABCD')
    results = []

    def snapshot(root):
        return (len(root), sorted(root.names()) if hasattr(root, 'names') else None,
                [(g.name, [r.name for r in g]) for g in root.groups])

    def attempt(f):
        try:
            f()
            return None
        except IllegalStateError as e:
            return 'IllegalStateError'
        except EXC as e:
            return f'{type(e).__name__}: {getattr(e, "text", e)}'
    try:
        tab = Tab()
        root = classes['RulesRoot'](tab)
        ok = tab.once_calls and tab.once_calls[0][0] == 'AFTER_BRANCH_ADD' and callable(tab.once_calls[0][1])
        results.append((bool(ok), 'lock registered', f'RulesRoot.__init__ registers {tab.once_calls!r}; expected its lock on the first AFTER_BRANCH_ADD'))
        # before locking
        errs = [attempt(lambda: root.groups.create('closure').extend([A])), attempt(lambda: root.groups.create().extend([B, C_])),
                attempt(lambda: root.append(D, name='extra'))]
        snap = snapshot(root)
        want = [('closure', ['A']), (None, ['B', 'C']), ('extra', ['D'])]
        ok = not any(errs) and snap[2] == want
        results.append((ok, 'unlocked: groups and rules are added', f'errors {errs}; groups {snap[2]}, expected {want}'))
        e = attempt(lambda: root.clear())
        ok = e is None and snapshot(root)[2] == []
        results.append((ok, 'unlocked: clear() empties', f'{e}; groups {snapshot(root)[2]}'))
        root.groups.create('closure').extend([A])
        root.groups.create().extend([B])
        before = snapshot(root)
        # the registered callback locks
        cb = tab.once_calls[0][1]
        e = attempt(lambda: cb('BRANCH'))
        ok = e is None and getattr(root, 'locked', None) is True
        results.append((ok, 'first branch locks the root', f'callback -> {e}; locked={getattr(root, "locked", None)!r}'))
        muts = {
            'root.append': lambda: root.append(C_), 'root.extend': lambda: root.extend([C_]), 'root.clear': lambda: root.clear(),
            'groups.create': lambda: root.groups.create('x'), 'groups.append': lambda: root.groups.append([C_]), 'groups.extend': lambda: root.groups.extend([[C_]]),
            'groups.clear': lambda: root.groups.clear(), 'group.append': lambda: root.groups[0].append(C_), 'group.extend': lambda: root.groups[0].extend([C_]),
            'group.clear': lambda: root.groups[0].clear(), 'root.lock again': lambda: root.lock(),
        }
        for nm, cls_ in (('root', 'RulesRoot'), ('groups', 'RuleGroups'), ('group', 'RuleGroup')):
            if classes[cls_]._guarded_setattr:
                target = {'root': root, 'groups': root.groups, 'group': root.groups[0]}[nm]
                muts[f'{nm}.attribute = ...'] = (lambda t: (lambda: setattr(t, 'name' if t is not root else 'locked', 'CHANGED')))(target)
        for label, f in muts.items():
            e = attempt(f)
            after = snapshot(root)
            ok = e == 'IllegalStateError' and after == before and getattr(root, 'locked', None) is True
            results.append((ok, f'locked: {label}', f'{"raises " + e if e else "is accepted"}; contents {after[2]} (before {before[2]}); expected IllegalStateError and no change'))
    except EXC as e:
        results.append((False, 'rule collections', f'fold raises {type(e).__name__}: {getattr(e, "text", e)}'))
    return results, sorted(consulted)
