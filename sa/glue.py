"""The glue between rule schemas and the engine, decided by folding the short
definitions involved (minieval) over mock inputs:

  G1  node builders  snode/swnode/sdnode/sdwnode/anode/sdwgroup
  G2  CompareSentence.sentence  (negatum for negated filters)
  G3  NodeSentence filter built from a rule's attributes accepts exactly the
      node shapes the rule is named for
  G4  NodeDesignation filter compares the node's designation with the rule's
  G5  every operator/quantifier rule class carries the three filters
A semantic mismatch is a finding; an unrecognised idiom is an ANALYSIS-ERROR."""
from __future__ import annotations

import ast
import itertools
import operator as _opr

from .core import AnalysisError
from .minieval import Interp, Obj, Raised
from .model import ClassRef, Model

PROOF = 'pytableaux.proof'
FILTERS = 'pytableaux.proof.filters'
RULES = 'pytableaux.proof.rules'


def node_keys(m: Model):
    "NodeMeta.Key members (name -> string value), read from the enum's class body"
    cd = m.clsdef(ClassRef(PROOF, 'NodeMeta.Key'))
    out = {}
    for st in cd.body:
        if isinstance(st, ast.Assign) and isinstance(st.value, ast.Constant) and isinstance(st.value.value, str):
            for t in st.targets:
                if isinstance(t, ast.Name):
                    out[t.id] = st.value.value
    for need in ('sentence', 'designation', 'designated', 'world', 'world1', 'world2', 'flag'):
        if need not in out:
            raise AnalysisError(f'Node.Key.{need} vanished')
    return out


class MockNode(dict):
    def __init__(self, cls, mapping):
        super().__init__(mapping)
        self.cls = cls


def builder_interp(m: Model):
    keys = node_keys(m)
    KeyObj = Obj('Node.Key', **keys)
    NodeObj = Obj('Node', Key=KeyObj)
    g = dict(Node=NodeObj, itertools=itertools)
    for cls in ('SentenceNode', 'SentenceWorldNode', 'SentenceDesignationNode', 'SentenceDesignationWorldNode', 'AccessNode'):
        g[cls] = (lambda c: (lambda mapping: MockNode(c, mapping)))(cls)
    it = Interp(g, where='proof/__init__.py builders')
    fns = {}
    for name in ('snode', 'swnode', 'sdnode', 'sdwnode', 'anode', 'sdwgroup'):
        fns[name] = m.func(PROOF, name)
        it.g[name] = (lambda n: (lambda *a: it.safe(fns[n], list(a))))(name)
    return it, fns, keys


def check_builders(m: Model):
    """G1: yields (ok, case, got, want) for each builder x argument shape."""
    it, fns, keys = builder_interp(m)
    S, W = Obj('S'), 7
    out = []

    def want(s, d, w):
        exp = {keys['sentence']: s}
        if d is not None:
            exp[keys['designated']] = d
        if w is not None:
            exp[keys['world']] = w
        return exp
    for d, w in itertools.product((None, True, False), (None, W)):
        got = it.safe(fns['sdwnode'], [S, d, w])
        out.append((isinstance(got, MockNode) and dict(got) == want(S, d, w), f'sdwnode(S, {d}, {w})', dict(got) if isinstance(got, dict) else got, want(S, d, w)))
    for d in (None, True, False):
        got = it.safe(fns['sdnode'], [S, d])
        out.append((isinstance(got, MockNode) and dict(got) == want(S, d, None), f'sdnode(S, {d})', got, want(S, d, None)))
    for w in (None, W):
        got = it.safe(fns['swnode'], [S, w])
        out.append((isinstance(got, MockNode) and dict(got) == want(S, None, w), f'swnode(S, {w})', got, want(S, None, w)))
    got = it.safe(fns['snode'], [S])
    out.append((isinstance(got, MockNode) and dict(got) == want(S, None, None), 'snode(S)', got, want(S, None, None)))
    got = it.safe(fns['anode'], [3, 4])
    exp = {keys['world1']: 3, keys['world2']: 4}
    out.append((isinstance(got, MockNode) and got.cls == 'AccessNode' and dict(got) == exp, 'anode(3, 4)', got, exp))
    got = it.safe(fns['sdwgroup'], [(S, True, W), (S, False, None)])
    exp = [want(S, True, W), want(S, False, None)]
    out.append((isinstance(got, tuple) and [dict(x) for x in got] == exp, 'sdwgroup((S,True,W),(S,False,None))', got, exp))
    return out, [m.loc(PROOF, f) for f in fns.values()]


# ---- filters -------------------------------------------------------------
class T:
    "mock sentence types"
    Operated = Obj('Operated')
    Quantified = Obj('Quantified')
    Predicated = Obj('Predicated')
    Atomic = Obj('Atomic')


def filter_env(m: Model):
    opers = {n: Obj(f'Operator.{n}') for n in ('Negation', 'Conjunction', 'Disjunction')}
    Operator = Obj('Operator', **opers)
    quants = {n: Obj(f'Quantifier.{n}') for n in ('Existential', 'Universal')}
    keys = node_keys(m)
    NodeObj = Obj('Node', Key=Obj('Node.Key', **keys))
    g = dict(Operated=T.Operated, Quantified=T.Quantified, Predicated=T.Predicated, Operator=Operator, Node=NodeObj,
             opr=Obj('operator', is_=_opr.is_, eq=_opr.eq, not_=_opr.not_), MapProxy=lambda d: d,
             EMPTY_MAP={}, staticmethod=lambda f: f, thru=lambda x: x, dictns=dict)
    return g, opers, quants, keys


def sent(typ, **attrs):
    return Obj(f'sent:{typ._name}', typ=typ, **attrs)


def check_sentence_filter(m: Model):
    """G2+G3: fold CompareSentence._build / sentence / __call__ and NodeSentence.rget."""
    g, opers, quants, keys = filter_env(m)
    it = Interp(g, where='proof/filters.py CompareSentence')
    CS = ClassRef(FILTERS, 'CompareSentence')
    fn = lambda cls, name: m.func(FILTERS, f'{cls}.{name}')
    f_build, f_sentence, f_call = fn('CompareSentence', '_build'), fn('CompareSentence', 'sentence'), fn('CompareSentence', '__call__')
    f_rget = fn('NodeSentence', 'rget')
    f_getattr_safe = m.func(FILTERS, 'getattr_safe')
    it.g['getattr_safe'] = lambda o, n: it.safe(f_getattr_safe, [o, n])
    # class-level constants of CompareSentence, folded from the class body
    raw, _ = m.getraw(CS, 'compmap')
    if raw is None:
        raise AnalysisError('CompareSentence.compmap vanished')
    compmap = it.ev(raw[1], {})
    CompItem = lambda *a: Obj('CompItem', **dict(zip(('type', 'item', 'name', 'fcmp', 'negated'), a)))
    # field order of the NamedTuple
    ci = m.clsdef(ClassRef(FILTERS, 'CompareSentence.CompItem'))
    fields = [st.target.id for st in ci.body if isinstance(st, ast.AnnAssign) and isinstance(st.target, ast.Name)]
    CompItem = lambda *a: Obj('CompItem', **dict(zip(fields, a)))
    lget_raw, _ = m.getraw(CS, 'lget')
    lget = it.ev(lget_raw[1], {})
    cls = Obj('NodeSentence-class', compmap=compmap, lget=lget, CompItem=CompItem)
    results = []
    consulted = [m.loc(FILTERS, x) for x in (f_build, f_sentence, f_call, f_rget)]
    A = sent(T.Atomic)
    conj = sent(T.Operated, operator=opers['Conjunction'], lhs=A, rhs=A)
    disj = sent(T.Operated, operator=opers['Disjunction'], lhs=A, rhs=A)
    nconj = sent(T.Operated, operator=opers['Negation'], lhs=conj)
    ndisj = sent(T.Operated, operator=opers['Negation'], lhs=disj)
    nnconj = sent(T.Operated, operator=opers['Negation'], lhs=nconj)
    exq = sent(T.Quantified, quantifier=quants['Existential'])
    nexq = sent(T.Operated, operator=opers['Negation'], lhs=exq)
    unq = sent(T.Quantified, quantifier=quants['Universal'])
    cases = {'A&B': conj, 'AvB': disj, '~(A&B)': nconj, '~(AvB)': ndisj, '~~(A&B)': nnconj, 'ExF': exq, '~ExF': nexq,
             'UxF': unq, 'A': A}
    rules = {
        'Conjunction': dict(operator=opers['Conjunction'], negated=None, want={'A&B'}),
        'ConjunctionNegated': dict(operator=opers['Conjunction'], negated=True, want={'~(A&B)'}),
        'DoubleNegation': dict(operator=opers['Negation'], negated=True, want={'~~(A&B)'}),
        'Existential': dict(quantifier=quants['Existential'], negated=None, want={'ExF'}),
        'ExistentialNegated': dict(quantifier=quants['Existential'], negated=True, want={'~ExF'}),
    }
    for rname, spec in rules.items():
        want = spec.pop('want')
        rule = Obj(f'rule:{rname}', **spec)
        compitem = it.safe(f_build, [cls, rule])
        self_ = Obj('filter', compitem=compitem)
        self_.rget = lambda node: it.safe(f_rget, [node])
        self_.sentence = lambda rhs: it.safe(f_sentence, [self_, rhs])
        for cname, s in cases.items():
            node = {keys['sentence']: s}
            got = bool(it.safe(f_call, [self_, node]))
            results.append((got == (cname in want), f'filter[{rname}] on node {cname}', got, cname in want))
            # the sentence handed to the rule body: the negatum for negated rules
            if cname in want:
                ssel = it.safe(f_sentence, [self_, node])
                exp = s.lhs if spec.get('negated') else s
                results.append((ssel is exp, f'filter[{rname}].sentence({cname})', repr(ssel), repr(exp)))
        # a node without a sentence never matches
        got = bool(it.safe(f_call, [self_, {}]))
        results.append((got is False, f'filter[{rname}] on a node without sentence', got, False))
    return results, consulted


def check_designation_filter(m: Model):
    "G4: NodeDesignation built from a rule's `designation`"
    g, opers, quants, keys = filter_env(m)
    it = Interp(g, where='proof/filters.py NodeDesignation')
    CA, ND = ClassRef(FILTERS, 'CompareAttr'), ClassRef(FILTERS, 'NodeDesignation')
    f_build = m.func(FILTERS, 'CompareAttr._build')
    f_call = m.func(FILTERS, 'CompareAttr.__call__')
    f_rget = m.func(FILTERS, 'NodeDesignation.rget')
    f_gs = m.func(FILTERS, 'getattr_safe')
    it.g['getattr_safe'] = lambda o, n: it.safe(f_gs, [o, n])
    it.g['getattr'] = lambda o, n, *d: getattr(o, n, *d)
    raw, _ = m.getraw(ND, 'attrmap')
    attrmap = it.ev(raw[1], {})
    lget = it.ev(m.getraw(ND, 'lget')[0][1], {})
    fcmp = it.ev(m.getraw(ND, 'fcmp')[0][1], {})
    cls = Obj('NodeDesignation-class', attrmap=attrmap, lget=lget)
    results = []
    for d in (True, False, None):
        rule = Obj('rule', designation=d)
        compitem = it.safe(f_build, [cls, rule])
        self_ = Obj('filter', compitem=compitem, fcmp=fcmp)
        self_.rget = lambda node, key: it.safe(f_rget, [node, key])
        for nd in (True, False, None):
            node = {keys['designated']: nd}
            got = bool(it.safe(f_call, [self_, node]))
            want = True if d is None else (nd == d)
            results.append((got == want, f'NodeDesignation[rule.designation={d}] on node designated={nd}', got, want))
    return results, [m.loc(FILTERS, x) for x in (f_build, f_call, f_rget)]


def merged_filters(m: Model, rc: ClassRef):
    "NodeFilters merged over the MRO, as FilterHelper.configure_rule does"
    out = []
    for c in m.mro(rc):
        ns = m.clsns(c)
        if 'NodeFilters' in ns:
            v = m.force(ns['NodeFilters'])
            if isinstance(v, ClassRef):
                v = (v,)
            if not isinstance(v, tuple):
                raise AnalysisError(f'{c}.NodeFilters not a literal group: {v}')
            for f in v:
                if isinstance(f, ClassRef) and f not in out:
                    out.append(f)
    return out


def sentence_delegation_ok(m: Model):
    "BaseSentenceRule.sentence delegates to the NodeSentence filter's .sentence(node)"
    fn = m.func(RULES, 'BaseSentenceRule.sentence')
    rets = [n for n in ast.walk(fn) if isinstance(n, ast.Return)]
    if len(rets) != 1:
        return False, m.loc(RULES, fn)
    r = rets[0].value
    params = [a.arg for a in fn.args.posonlyargs + fn.args.args]
    ok = (isinstance(r, ast.Call) and isinstance(r.func, ast.Attribute) and r.func.attr == 'sentence'
          and len(r.args) == 1 and isinstance(r.args[0], ast.Name) and r.args[0].id == params[1]
          and 'filters.NodeSentence' in ast.unparse(r.func.value) and 'FilterHelper' in ast.unparse(r.func.value))
    return ok, m.loc(RULES, fn)
