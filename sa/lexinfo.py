"""Facts about the lexical enums (Operator, Quantifier) read from lang/lex.py:
member order (-> .index), arity, and the `.other` pairing."""
from __future__ import annotations

import ast

from .core import AnalysisError
from .model import Model, ClassRef

LEX = 'pytableaux.lang.lex'


class LexInfo:
    def __init__(self, m: Model):
        self.m = m
        self.operators: list[str] = []
        self.arity: dict[str, int] = {}
        self.order: dict[str, int] = {}
        self.quantifiers: list[str] = []
        self.other: dict[str, str] = {}
        self._read_enum('Operator')
        self._read_enum('Quantifier')
        if len(self.operators) != 10 or len(self.quantifiers) != 2:
            raise AnalysisError(f'lex.py: expected 10 operators and 2 quantifiers, found '
                                f'{len(self.operators)} / {len(self.quantifiers)}')

    def _read_enum(self, name):
        cd = self.m.clsdef(ClassRef(LEX, name))
        members = []
        pairing_ok = False
        for st in cd.body:
            if isinstance(st, ast.Assign) and len(st.targets) == 1 and isinstance(st.targets[0], ast.Name):
                nm = st.targets[0].id
                if nm.startswith('_'):
                    continue
                try:
                    val = ast.literal_eval(st.value)
                except Exception:
                    continue
                members.append((nm, val))
            if isinstance(st, ast.FunctionDef) and st.name == '_after_init':
                # it = iter(cls); for a in it: b = next(it); a.other = b; b.other = a
                src = ast.unparse(st)
                pairing_ok = all(x in src for x in ('it = iter(cls)', 'for a in it', 'b = next(it)', 'a.other = b', 'b.other = a'))
        if not pairing_ok:
            raise AnalysisError(f'lex.py {name}._after_init: the consecutive-pair `.other` wiring was not recognised')
        names = [n for n, _ in members]
        for i in range(0, len(names) - 1, 2):
            self.other[names[i]] = names[i + 1]
            self.other[names[i + 1]] = names[i]
        if name == 'Operator':
            self.operators = names
            for n, v in members:
                if not (isinstance(v, tuple) and len(v) == 2):
                    raise AnalysisError(f'Operator.{n}: value {v!r} is not (order, arity)')
                self.order[n], self.arity[n] = v
        else:
            self.quantifiers = names

    def index(self, enum, member):
        seq = self.operators if enum == 'Operator' else self.quantifiers
        return seq.index(member)

    @property
    def modal_operators(self):
        return ('Possibility', 'Necessity')

    @property
    def truth_functional(self):
        return [o for o in self.operators if o not in self.modal_operators]
