"""Facts about the lexical enums (Operator, Quantifier) read from lang/lex.py:
member order (-> .index), arity, and the `.other` pairing."""
from __future__ import annotations

import ast

from .core import AnalysisError
from .model import Model, ClassRef

LEX = 'pytableaux.lang.lex'


class LexInfo:
    def __init__(self, m: Model):
        self.m = m
        self.operators: list[str] = []
        self.arity: dict[str, int] = {}
        self.order: dict[str, int] = {}
        self.quantifiers: list[str] = []
        self.other: dict[str, str] = {}
        self._read_enum('Operator')
        self._read_enum('Quantifier')
        if len(self.operators) != 10 or len(self.quantifiers) != 2:
            raise AnalysisError(f'lex.py: expected 10 operators and 2 quantifiers, found '
                                f'{len(self.operators)} / {len(self.quantifiers)}')

    def _read_enum(self, name):
        cd = self.m.clsdef(ClassRef(LEX, name))
        members = []
        for st in cd.body:
            if isinstance(st, ast.Assign) and len(st.targets) == 1 and isinstance(st.targets[0], ast.Name):
                nm = st.targets[0].id
                if nm.startswith('_'):
                    continue
                try:
                    val = ast.literal_eval(st.value)
                except Exception:
                    continue
                members.append((nm, val))
        # the `.other` wiring: the class's _after_init folded over its members in definition order
        from .minieval import Interp, Obj, Raised
        names = [n for n, _ in members]
        fn, _owner = self.m.method(ClassRef(LEX, name), '_after_init')
        if fn is None or not hasattr(fn, 'node'):
            raise AnalysisError(f'lex.py {name}._after_init not found')
        mocks = [Obj(n, name=n) for n in names]

        class ClsM(list):
            pass
        clsm = ClsM(mocks)
        it = Interp(dict(super=lambda *a: Obj('super', _after_init=lambda: None)), where=f'lang/lex.py {name}._after_init')
        try:
            it.call(fn.node, [clsm])
        except Raised as e:
            raise AnalysisError(f'lex.py {name}._after_init does not fold: {e.text}')
        for mk in mocks:
            o = getattr(mk, 'other', None)
            if o is None or not hasattr(o, 'name'):
                raise AnalysisError(f'lex.py {name}._after_init leaves {mk.name}.other unset')
            self.other[mk.name] = o.name
        if name == 'Operator':
            self.operators = names
            for n, v in members:
                if not (isinstance(v, tuple) and len(v) == 2):
                    raise AnalysisError(f'Operator.{n}: value {v!r} is not (order, arity)')
                self.order[n], self.arity[n] = v
        else:
            self.quantifiers = names

    def index(self, enum, member):
        seq = self.operators if enum == 'Operator' else self.quantifiers
        return seq.index(member)

    @property
    def modal_operators(self):
        return ('Possibility', 'Necessity')

    @property
    def truth_functional(self):
        return [o for o in self.operators if o not in self.modal_operators]
