"""Self-test of the checkers: mutants (single edits that still parse) on a
scratch copy must be reported (exit 1, naming the expected rule); refactors
(behaviour-preserving edits) must stay silent (exit 0).  Scratch copies live
under a temporary directory outside /repo and /verif and are removed at once.

    /venv/bin/python -m sa.selftest [PID ...] [--jobs N]
"""
from __future__ import annotations

import ast
import concurrent.futures as cf
import json
import os
import shutil
import subprocess
import sys
import tempfile
import time
from pathlib import Path

VERIF = Path(__file__).resolve().parent.parent
REPO = Path('/repo')

from .selftest_cases import MUTANTS, REFACTORS   # noqa: E402


def apply_edit(root: Path, edit):
    """edit = (relative file, old text, new text[, occurrence-count])"""
    rel, old, new = edit[:3]
    cnt = edit[3] if len(edit) > 3 else 1
    p = root / rel
    s = p.read_text()
    if s.count(old) != cnt:
        return f'stale: `{old[:50]}` occurs {s.count(old)}x in {rel} (expected {cnt})'
    s = s.replace(old, new)
    try:
        if rel.endswith('.py'):
            ast.parse(s)
    except SyntaxError as e:
        return f'edit does not parse: {e}'
    p.write_text(s)
    return None


def run_case(pid, kind, name, edits, expect, base: Path):
    t0 = time.time()
    td = Path(tempfile.mkdtemp(prefix=f'sa-selftest-{pid}-'))
    try:
        shutil.copytree(base / 'pytableaux', td / 'pytableaux', ignore=shutil.ignore_patterns('__pycache__', '*.pyc'))
        for e in edits:
            err = apply_edit(td, e)
            if err:
                return dict(pid=pid, kind=kind, name=name, status='stale', detail=err, wall=0)
        r = subprocess.run([sys.executable, '-m', 'sa', pid, '--repo', str(td), '--no-evidence', '--tier', 'quick'],
                           cwd=str(VERIF), capture_output=True, text=True, timeout=600)
        out = r.stdout + r.stderr
        if kind == 'mutant':
            hit = r.returncode == 1 and (expect is None or expect in out)
            status = 'caught' if hit else ('missed' if r.returncode == 0 else f'wrong-report(rc={r.returncode})')
        else:
            status = 'silent' if r.returncode == 0 else f'noisy(rc={r.returncode})'
        tail = [l for l in out.splitlines() if l.startswith(('  C', 'VIOLATION', 'ANALYSIS-ERROR'))][:3]
        return dict(pid=pid, kind=kind, name=name, status=status, expect=expect, detail=tail, wall=round(time.time() - t0, 2))
    finally:
        shutil.rmtree(td, ignore_errors=True)


def run(pids=None, jobs=None, base=REPO):
    jobs = jobs or min(16, os.cpu_count() or 4)
    cases = []
    for pid, lst in MUTANTS.items():
        if pids and pid not in pids:
            continue
        for name, edits, expect in lst:
            cases.append((pid, 'mutant', name, edits, expect))
    for pid, lst in REFACTORS.items():
        if pids and pid not in pids:
            continue
        for name, edits in lst:
            cases.append((pid, 'refactor', name, edits, None))
    results = []
    with cf.ThreadPoolExecutor(max_workers=jobs) as ex:
        futs = [ex.submit(run_case, *c, base) for c in cases]
        for f in cf.as_completed(futs):
            results.append(f.result())
    results.sort(key=lambda r: (r['pid'], r['kind'], r['name']))
    return results


def summarize(results):
    s = dict(mutants=0, caught=0, missed=[], refactors=0, silent=0, noisy=[], stale=[])
    for r in results:
        if r['status'] == 'stale':
            s['stale'].append(f"{r['pid']}:{r['name']}: {r['detail']}")
            continue
        if r['kind'] == 'mutant':
            s['mutants'] += 1
            if r['status'] == 'caught':
                s['caught'] += 1
            else:
                s['missed'].append(f"{r['pid']}:{r['name']} -> {r['status']} {r['detail']}")
        else:
            s['refactors'] += 1
            if r['status'] == 'silent':
                s['silent'] += 1
            else:
                s['noisy'].append(f"{r['pid']}:{r['name']} -> {r['status']} {r['detail']}")
    return s


def run_for(pid, rep=None):
    """Called by the thorough tier: runs this property's variants and records the outcome in the report."""
    res = run([pid])
    s = summarize(res)
    print(f'SELFTEST {pid}: mutants {s["caught"]}/{s["mutants"]} caught; refactors {s["silent"]}/{s["refactors"]} silent; stale {len(s["stale"])}')
    for x in s['missed']:
        print('  SELFTEST-MISSED', x)
    for x in s['noisy']:
        print('  SELFTEST-NOISY', x)
    for x in s['stale']:
        print('  SELFTEST-STALE', x)
    if rep is not None:
        rep.counts['selftest:mutants'] = s['mutants']
        rep.counts['selftest:caught'] = s['caught']
        rep.counts['selftest:refactors'] = s['refactors']
        rep.counts['selftest:silent'] = s['silent']
        for x in s['missed']:
            rep.note('selftest missed mutant: ' + x)
        for x in s['noisy']:
            rep.note('selftest noisy on refactor: ' + x)
        for x in s['stale']:
            rep.note('selftest stale variant: ' + x)
        for r in res[:6]:
            rep.samples.append(dict(rule_id='selftest', variant=r['name'], kind=r['kind'], status=r['status']))
    return s


def main(argv=None):
    argv = list(sys.argv[1:] if argv is None else argv)
    jobs = None
    if '--jobs' in argv:
        i = argv.index('--jobs')
        jobs = int(argv[i + 1])
        del argv[i:i + 2]
    pids = [a.upper() for a in argv] or None
    t0 = time.time()
    res = run(pids, jobs)
    s = summarize(res)
    for r in res:
        print(f"{r['pid']} {r['kind']:8} {r['status']:14} {r['name']}  ({r.get('wall', 0)}s)")
        if r['status'] not in ('caught', 'silent'):
            print('      ', r.get('detail'))
    print(json.dumps({k: (v if not isinstance(v, list) else len(v)) for k, v in s.items()}), f'wall={time.time() - t0:.1f}s')
    return 0 if not s['missed'] and not s['noisy'] else 1


if __name__ == '__main__':
    sys.exit(main())
