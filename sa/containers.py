"""Inductive step checks for the ordered-set containers: each mutator's
*definition* is folded (minieval) over every small pre-state that satisfies the
container invariant and every small argument; the post-state must satisfy the
invariant again, match the list-without-duplicates model, and be unchanged if
the mutator raised (single-element mutators)."""
from __future__ import annotations

import ast
import itertools

from . import astq
from .core import AnalysisError
from .minieval import Interp, Obj, Raised, Raises
from .model import ClassRef, Model

HYB = 'pytableaux.tools.hybrids'
LNK = 'pytableaux.tools.linked'
TOOLS = 'pytableaux.tools'
UNIVERSE = ('a', 'b', 'c', 'd')


class DupErr(Exception):
    pass


def _interp(m: Model, where):
    it = Interp({}, where=where)
    sr, ai = m.func(TOOLS, 'slicerange'), m.func(TOOLS, 'absindex')
    it.g['slicerange'] = lambda *a, **k: it.call(sr, list(a), k)
    it.g['absindex'] = lambda *a, **k: it.call(ai, list(a), k)
    it.g['abs'] = abs
    it.g['ValueError'] = lambda *a: 'ValueError'
    it.g['IndexError'] = lambda *a: 'IndexError'
    it.g['SupportsIndex'] = int
    it.g['slice'] = slice
    it.g['Collection'] = (list, tuple)
    it.g['echeck'] = Obj('check', inst=lambda o, t: o)
    it.g['check'] = it.g['echeck']
    it.g['EMPTY_SEQ'] = ()
    it.g['EMPTY_SET'] = frozenset()
    it.g['DuplicateValueError'] = lambda *a: 'DuplicateValueError'
    it.g['Emsg'] = Obj('Emsg', DuplicateValue=lambda *a: 'DuplicateValueError', MissingValue=lambda *a: 'MissingValueError',
                       InstCheck=lambda *a: 'TypeError')
    import itertools as _it
    it.g['filterfalse'] = lambda f, x: tuple(_it.filterfalse(f, x))
    return it


# ---------------------------------------------------------------- qset ----
class QMock:
    "self for qset methods: real list + set; read methods are the (trivially checked) qsetf ones"

    def __init__(self, seq):
        self._seq_ = list(seq)
        self._set_ = set(seq)
        self.log = []

    def __contains__(self, v):
        return v in self._set_

    def __len__(self):
        return len(self._seq_)

    def __getitem__(self, i):
        if isinstance(i, slice):
            return QMock(self._seq_[i])
        return self._seq_[i]

    def __iter__(self):
        return iter(self._seq_)

    def _hook_cast(self, v):
        return v

    def _hook_check(self, arriving, leaving):
        self.log.append(('check', tuple(arriving), tuple(leaving), list(self._seq_), set(self._set_)))

    def _hook_done(self, arriving, leaving):
        self.log.append(('done', tuple(arriving), tuple(leaving)))

    def state(self):
        return list(self._seq_), set(self._set_)


def qset_cases(deep=False):
    k = 4 if deep else 3
    for n in range(0, k + 1):
        for seq in itertools.permutations(UNIVERSE[:k], n):
            yield list(seq)


def fold_qset(m: Model, deep=False):
    """Yield (ok, method, case, detail) for qset.insert / __delitem__ / __setitem__ (index and slice) / clear / reverse / sort"""
    cd = m.clsdef(ClassRef(HYB, 'qset'))
    fns = {st.name: st for st in cd.body if isinstance(st, ast.FunctionDef)}
    for need in ('insert', '__delitem__', '__setitem__', '__setitem_index__', '__setitem_slice__', 'clear', 'reverse'):
        if need not in fns:
            raise AnalysisError(f'qset.{need} vanished')
    it = _interp(m, 'tools/hybrids.py qset')
    results = []

    def run(name, seq, args, model, single):
        q = QMock(seq)
        q.__dict__['_QMock__dummy'] = None
        for nm in ('__setitem_index__', '__setitem_slice__'):
            setattr(q, nm, (lambda nm: (lambda *a: it.call(fns[nm], [q, *a])))(nm))
        before = q.state()
        r = it.safe(fns[name], [q, *args])
        after_seq, after_set = q.state()
        inv = set(after_seq) == after_set and len(after_seq) == len(set(after_seq))
        case = f'{name}{tuple(args)} on {seq}'
        if isinstance(r, Raises):
            try:
                expected = model(list(seq))
            except Exception:
                expected = 'raises'
            if expected != 'raises' and expected is not None:
                results.append((False, name, case, f'raises {r.text} although the list model accepts the operation (-> {expected})'))
                return
            ok = inv and (not single or (after_seq, after_set) == before)
            results.append((ok, name, case, f'raised {r.text}; state after {after_seq}/{sorted(after_set)} (before {before[0]}) invariant={inv}'))
            return
        try:
            expected = model(list(seq))
        except Exception as e:
            expected = 'raises'
        if expected == 'raises':
            results.append((False, name, case, f'accepted an operation the list-without-duplicates model rejects; state {after_seq}'))
            return
        ok = inv and after_seq == expected
        # hooks: check before any change, done after, same arguments
        chk = [x for x in q.log if x[0] == 'check']
        dn = [x for x in q.log if x[0] == 'done']
        if name != 'clear' and name not in ('reverse', 'sort'):
            hooks_ok = len(chk) == 1 and len(dn) == 1 and chk[0][1:3] == dn[0][1:3] and (chk[0][3], chk[0][4]) == before
            ok = ok and hooks_ok
        results.append((ok, name, case, f'state {after_seq}/{sorted(after_set)}, model {expected}, hooks {[(x[0], x[1], x[2]) for x in q.log]}'))

    def nodup(lst):
        if len(set(lst)) != len(lst):
            raise DupErr()
        return lst
    for seq in qset_cases(deep):
        n = len(seq)
        for v in UNIVERSE:
            for i in range(-n - 1, n + 2):
                def model(l, i=i, v=v):
                    l.insert(i, v)
                    return nodup(l)
                run('insert', seq, [i, v], model, True)
        for i in range(-n - 1, n + 1):
            def model(l, i=i):
                del l[i]
                return l
            run('__delitem__', seq, [i], model, True)
            for v in UNIVERSE:
                def model(l, i=i, v=v):
                    l[i] = v
                    return nodup(l)
                run('__setitem__', seq, [i, v], model, True)
        for sl in (slice(0, 2), slice(1, None), slice(None, None, 2), slice(0, 0), slice(1, 3)):
            def model(l, sl=sl):
                del l[sl]
                return l
            run('__delitem__', seq, [sl], model, True)
            k = len(range(*sl.indices(n)))
            for vals in itertools.product(UNIVERSE, repeat=k):
                def model(l, sl=sl, vals=vals):
                    if len(range(*sl.indices(len(l)))) != len(vals):
                        raise ValueError
                    l[sl] = list(vals)
                    return nodup(l)
                run('__setitem__', seq, [sl, list(vals)], model, True)
        run('clear', seq, [], lambda l: [], False)
        run('reverse', seq, [], lambda l: list(reversed(l)), False)
    return results, [m.loc(HYB, fns[n]) + f' qset.{n}' for n in ('insert', '__delitem__', '__setitem_index__', '__setitem_slice__')]


# ---------------------------------------------------------------- linqset ----
class Link:
    def __init__(self, v):
        self.value, self.prev, self.next = v, None, None


def fold_linqset_setitem(m: Model, deep=False):
    """linqset.__setitem__ folded: after the in-place rewrite by linkseq.__setitem__ (also folded),
    the table must map exactly the chain's values to their links."""
    lq = {st.name: st for st in m.clsdef(ClassRef(LNK, 'linqset')).body if isinstance(st, ast.FunctionDef)}
    ls = {st.name: st for st in m.clsdef(ClassRef(LNK, 'linkseq')).body if isinstance(st, ast.FunctionDef)}
    results = []
    consulted = []
    if '__setitem__' not in lq:
        return [(False, '__setitem__', 'linqset has no __setitem__ override', 'linkseq.__setitem__ rewrites link values in place, so the table goes stale')], consulted
    fn, base = lq['__setitem__'], ls['__setitem__']
    hook = lq.get('_hook_check')
    consulted = [m.loc(LNK, fn) + ' linqset.__setitem__', m.loc(LNK, base) + ' linkseq.__setitem__']
    it = _interp(m, 'tools/linked.py linqset.__setitem__')
    for n in range(1, 5):
        seq = list(UNIVERSE[:n])
        if n == 4 and not deep:
            pass
        targets = [(i, None) for i in range(-n, n)] + [(slice(0, 2), 2), (slice(1, 3), None), (slice(None, None, 2), None), (slice(0, n), None)]
        for idx, _ in targets:
            if isinstance(idx, slice):
                k = len(range(*idx.indices(n)))
                arrivals = [list(v) for v in itertools.product(UNIVERSE + ('e',), repeat=k)] if k <= 3 else []
            else:
                arrivals = list(UNIVERSE + ('e',))
            for arr in arrivals:
                links = [Link(v) for v in seq]
                self_ = Obj('linqset', __srcclass__=(m, ClassRef(LNK, 'linqset')))      # private helpers the mutator may be split into resolve through the class
                setattr(self_, '__table', {l.value: l for l in links})
                self_._link_at = lambda i, links=links: links[i]
                self_.__class__ = type('LQ', (Obj,), {
                    '__len__': lambda s_: len(links), '__contains__': lambda s_, v: v in getattr(s_, '__table'),
                    '__getitem__': lambda s_, i: [l.value for l in links][i]})
                it.g['iter_links_sliced'] = lambda s_, sl, links=links: iter(links[sl])
                if hook is not None:
                    self_._hook_check = lambda a, d: it.call(hook, [self_, a, d])
                else:
                    self_._hook_check = lambda a, d: None
                sup = Obj('super')
                sup.__class__ = type('Sup', (Obj,), {'__setitem__': lambda s_, i, v: it.call(base, [self_, i, v])})
                it.g['super'] = lambda: sup
                before = [l.value for l in links]
                r = it.safe(fn, [self_, idx, arr])
                chain = [l.value for l in links]
                table = getattr(self_, '__table')
                consistent = set(table) == set(chain) and all(table[l.value] is l for l in links) and len(set(chain)) == len(chain)
                case = f'{before}[{idx}] = {arr}'
                # list model
                try:
                    mdl = list(before)
                    if isinstance(idx, slice) and len(range(*idx.indices(len(mdl)))) != len(arr):
                        raise ValueError
                    mdl[idx] = arr if not isinstance(idx, slice) else list(arr)
                    if len(set(mdl)) != len(mdl):
                        raise DupErr()
                    expected = mdl
                except Exception:
                    expected = 'raises'
                if isinstance(r, Raises):
                    ok = expected == 'raises' and consistent and chain == before
                    results.append((ok, '__setitem__', case, f'raised {r.text}; chain {chain}, table keys {sorted(table)}; model {expected}'))
                else:
                    ok = expected != 'raises' and consistent and chain == expected
                    results.append((ok, '__setitem__', case, f'chain {chain}, table keys {sorted(table)}; model {expected}'))
    return results, consulted
