"""Model completion folded end to end: `Model.finish()` of a logic -- every method it reaches through the model
MRO (cpl.Model.finish, BaseModel.finish, _complete_frames, the identity helpers) and the logic's own Access class
(enforce / add, through its MRO) -- is interpreted (minieval, sa.bind) on hand-built pre-states: small access
graphs, frames present for some of the worlds only, a few assigned letters and predicate tuples.

Post-conditions (what the evaluator and get_data() rely on):
  * the model is finished; the worlds that have a frame are exactly the worlds of the access relation -- including
    worlds that the frame condition itself adds (the serial successor);
  * every frame lists every letter / opaque sentence / predicate known anywhere in the model (unassigned default);
  * assigned values are kept;
  * classical family: c=c and !c are true for every constant at every world;
  * the access relation satisfies the frame condition of the logic's Access class."""
from __future__ import annotations

import itertools
from collections import OrderedDict, defaultdict, deque

from . import frames as framesmod
from .bind import bound_class
from .core import AnalysisError
from .minieval import Interp, Obj, Raised, Raises
from .model import ClassRef, Model

TOOLS = 'pytableaux.tools'
MODELS = 'pytableaux.models'
_cache = {}


class PI(dict):
    "PredicateInterpretation mock: tuple of constants -> value name"

    def having(self, *values):
        return [k for k, v in self.items() if v in values]


def _key(m, lg):
    names = ('finish', '_complete_frames', '_ensure_self_identity', '_ensure_self_existence', '_agument_extension_with_identicals',
             '_get_identicals', '_check_not_finished', '_check_finished')
    out = []
    for n in names:
        fn, owner = m.method(lg.modelcls, n)
        out.append((n, owner.module + ':' + owner.qualname if owner else None))
    for n in ('enforce', 'add', 'has'):
        fn, owner = m.method(lg.accesscls, n)
        out.append((n, owner.module + ':' + owner.qualname if owner else None))
    return tuple(out)


def fold_finish(m: Model, lgs, lg, deep=False):
    key = (_key(m, lg), lg.unassigned, deep)
    if key in _cache:
        return _cache[key]
    consulted = set()
    it = Interp(dict(deque=deque, group=lambda *a: tuple(a), IllegalStateError=lambda *a: 'IllegalStateError', type=type, str=str),
                where=f'{lg.name}.Model.finish', modtree=m.trees[MODELS])
    sub = m.func(TOOLS, 'substitute')
    it.g['substitute'] = lambda c, old, new: it.call(sub, [c, old, new])
    Identity, Existence, F = Obj('Identity'), Obj('Existence'), Obj('F')
    it.g['Predicate'] = Obj('Predicate', Identity=Identity, Existence=Existence)
    ModelC = bound_class(m, it, lg.modelcls, consulted=consulted)
    AccessC = bound_class(m, it, lg.accesscls, base=defaultdict, consulted=consulted)
    classical = any(o and o.endswith('pytableaux.logics.cpl:Model') for n, o in key[0] if n == 'finish')
    exp_frame = framesmod.FRAME_OF[framesmod.expected_frame(lg, lgs)] if lg.modal else frozenset()
    exp_names = {c[0] for c in exp_frame}
    results = []
    A, B, O = Obj('A'), Obj('B'), Obj('opaque')
    a, b = 'a', 'b'
    graphs = [(), ((0, 1),), ((0, 1), (1, 2)), ((0, 1), (1, 0)), ((0, 0),), ((0, 1), (0, 2)), ((0, 2), (2, 2))]
    if deep:
        graphs += [((0, 1), (1, 2), (2, 0)), ((0, 1), (1, 1)), ((0, 1), (2, 2))]
    if not lg.modal:
        graphs = [()]
    for graph in graphs:
        worlds = sorted({0} | {w for p in graph for w in p})
        subsets = [(0,), tuple(worlds)] + ([tuple(worlds[:2])] if len(worlds) > 2 else [])
        for with_frames in dict.fromkeys(subsets):
            mdl = ModelC()

            def mkframe():
                return Obj('frame', atomics={}, opaques={}, predicates=defaultdict(PI))
            fr = defaultdict(mkframe)
            for w in with_frames:
                fr[w]
            fr[0].atomics[A] = 'T'
            fr[with_frames[-1]].opaques[O] = 'T'
            fr[with_frames[-1]].predicates[F][(a,)] = 'T'
            if classical:
                fr[0].predicates[Identity][(a, b)] = 'T'
            mdl.frames = fr
            R = AccessC(set)
            for p in graph:
                R[p[0]].add(p[1])
                R[p[1]]
            R[0]
            mdl.R = R
            mdl.Meta = Obj('Meta', modal=lg.modal, unassigned_value='UNASSIGNED', quantified=lg.quantified)
            mdl.values = Obj('values')
            mdl.constants = {a, b}
            mdl.sentences = {Obj('sentence', atomics=frozenset({A, B}), predicates=frozenset({F}))}
            mdl._finished = False
            mdl._is_frame_complete = False
            case = f'access pairs {list(graph)}, frames at worlds {list(with_frames)}'
            try:
                mdl.finish()
                err = None
            except Raised as e:
                err = e.text
            except (TypeError, KeyError, AttributeError, IndexError, ValueError, RuntimeError) as e:
                err = f'{type(e).__name__}: {e}'
            probs = []
            if err:
                probs.append(f'finish() raises {err}')
            else:
                if mdl._finished is not True:
                    probs.append('model not marked finished')
                fw, rw = set(mdl.frames), set(mdl.R) | {w2 for ws in mdl.R.values() for w2 in ws}
                if fw != rw:
                    probs.append(f'worlds with a frame {sorted(fw)} != worlds of the access relation {sorted(rw)}')
                for w in sorted(fw):
                    f = mdl.frames[w]
                    miss = [x._name for x in (A, B) if x not in f.atomics]
                    if miss:
                        probs.append(f'frame of world {w} lacks the letters {miss}')
                    if O not in f.opaques:
                        probs.append(f'frame of world {w} lacks the opaque sentence')
                    for x, store in ((A, f.atomics), (B, f.atomics), (O, f.opaques)):
                        assigned = (x is A and w == 0) or (x is O and w == with_frames[-1])
                        if x in store and not assigned and store[x] != 'UNASSIGNED':
                            probs.append(f'world {w}: {x._name} was never assigned there but has value {store[x]!r}, not the unassigned value')
                    if F not in f.predicates:
                        probs.append(f'frame of world {w} has no interpretation of predicate F')
                    if classical:
                        for c in (a, b):
                            if f.predicates[Identity].get((c, c)) != 'T':
                                probs.append(f'{c}={c} is not true at world {w}')
                            if f.predicates[Existence].get((c,)) != 'T':
                                probs.append(f'!{c} is not true at world {w}')
                if mdl.frames[0].atomics.get(A) != 'T':
                    probs.append('the assigned value of A at world 0 was lost')
                if mdl.frames[with_frames[-1]].opaques.get(O) != 'T':
                    probs.append('the assigned value of the opaque sentence was lost')
                if mdl._is_frame_complete is not True:
                    probs.append('_is_frame_complete not set')
                if mdl.frames[with_frames[-1]].predicates[F].get((a,)) != 'T':
                    probs.append('the assigned extension of F was lost')
                if classical and mdl.frames[0].predicates[F].get((b,)) != 'T' and with_frames[-1] == 0:
                    probs.append('a=b and Fa at world 0, but Fb was not added there')
                # frame condition
                rel = {(w1, w2) for w1, ws in mdl.R.items() for w2 in ws}
                W = set(mdl.R)
                if 'serial' in exp_names and any(not mdl.R[w] for w in W):
                    probs.append('serial frame: a world has no successor')
                if 'reflexive' in exp_names and any((w, w) not in rel for w in W):
                    probs.append('reflexive frame: a world does not see itself')
                if 'transitive' in exp_names and any((x, z) not in rel for x, y in rel for y2, z in rel if y == y2):
                    probs.append('transitive frame: not transitive')
                if 'symmetric' in exp_names and any((y, x) not in rel for x, y in rel):
                    probs.append('symmetric frame: not symmetric')
                if not set(graph) <= rel:
                    probs.append('an access pair of the branch was lost')
            results.append((not probs, case, '; '.join(dict.fromkeys(probs)) or 'finished, frames = worlds of R, all frames complete'))
    out = (results, sorted(consulted))
    _cache[key] = out
    return out


def fold_identity_completion(m: Model, lgs, lg):
    """Classical family: after finish(), at every world the Identity extension is an equivalence relation on the
    model's constants and every predicate's extension is closed under replacing an occurrence of a constant by an
    identical one -- for every order in which the values were set (the stores are dicts: insertion order is the
    history) and every iteration order of the model's set of constants (constants are small ints here, so sets
    created by the folded code iterate deterministically; the order of `self.constants` is permuted explicitly)."""
    key = ('identity', _key(m, lg))
    if key in _cache:
        return _cache[key]
    consulted = set()
    it = Interp(dict(deque=deque, group=lambda *a: tuple(a), IllegalStateError=lambda *a: 'IllegalStateError', type=type, str=str),
                where=f'{lg.name}.Model.finish', modtree=m.trees[MODELS])
    sub = m.func(TOOLS, 'substitute')
    it.g['substitute'] = lambda c, old, new: it.call(sub, [c, old, new])
    Identity, Existence, F, G = Obj('Identity'), Obj('Existence'), Obj('F'), Obj('G')
    it.g['Predicate'] = Obj('Predicate', Identity=Identity, Existence=Existence)
    ModelC = bound_class(m, it, lg.modelcls, consulted=consulted)
    AccessC = bound_class(m, it, lg.accesscls, base=defaultdict, consulted=consulted)
    results = []
    a, b, c = 0, 1, 2
    NAME = 'abc'

    def show(pred, params):
        if pred is Identity:
            return f'{NAME[params[0]]}={NAME[params[1]]}'
        return pred._name + ''.join(NAME[x] for x in params)

    class ConstSet(tuple):
        "the model's set of constants with one fixed iteration order"
    scenarios = [
        ('a=b', [(Identity, (a, b))]),
        ('b=a', [(Identity, (b, a))]),
        ('a=b, b=c', [(Identity, (a, b)), (Identity, (b, c))]),
        ('b=c, a=b', [(Identity, (b, c)), (Identity, (a, b))]),
        ('a=b, c=b', [(Identity, (a, b)), (Identity, (c, b))]),
        ('Fa, a=b', [(F, (a,)), (Identity, (a, b))]),
        ('a=b, Fa', [(Identity, (a, b)), (F, (a,))]),
        ('b=a, Fa', [(Identity, (b, a)), (F, (a,))]),
        ('Gaa, a=b', [(G, (a, a)), (Identity, (a, b))]),
        ('Gac, a=b, b=c', [(G, (a, c)), (Identity, (a, b)), (Identity, (b, c))]),
    ]
    for label, sets in scenarios:
        probs = {}      # kind -> set of texts
        for order in itertools.permutations((a, b, c)):
            mdl = ModelC()

            def mkframe():
                return Obj('frame', atomics={}, opaques={}, predicates=defaultdict(PI))
            fr = defaultdict(mkframe)
            fr[0]
            for pred, params in sets:
                fr[0].predicates[pred][params] = 'T'
            mdl.frames = fr
            R = AccessC(set)
            R[0]
            mdl.R = R
            mdl.Meta = Obj('Meta', modal=lg.modal, unassigned_value='F', quantified=lg.quantified)
            mdl.values = Obj('values')
            mdl.constants = ConstSet(order)
            mdl.sentences = set()
            mdl._finished = False
            mdl._is_frame_complete = False
            try:
                mdl.finish()
                err = None
            except Raised as e:
                err = e.text
            except (TypeError, KeyError, AttributeError, IndexError, ValueError, RuntimeError) as e:
                err = f'{type(e).__name__}: {e}'
            if err:
                probs.setdefault('raises', set()).add(f'finish() raises {err}')
                continue
            ext = {p for p, v in mdl.frames[0].predicates[Identity].items() if v == 'T'}
            for x in (a, b, c):
                if (x, x) not in ext:
                    probs.setdefault('reflexive', set()).add(show(Identity, (x, x)))
            for x, y in ext:
                if (y, x) not in ext:
                    probs.setdefault('symmetric', set()).add(show(Identity, (y, x)))
            # transitivity of the symmetric closure is what equivalence adds beyond symmetry
            sym = ext | {(y, x) for x, y in ext}
            for x, y in sym:
                for y2, z in sym:
                    if y == y2 and (x, z) not in sym:
                        probs.setdefault('transitive', set()).add(show(Identity, (x, z)))
            # closure of the extensions under the equivalence generated by the identity facts
            eq = set(sym)
            while True:
                more = {(x, z) for x, y in eq for y2, z in eq if y == y2} - eq
                if not more:
                    break
                eq |= more
            for pred in (F, G):
                pe = {p for p, v in mdl.frames[0].predicates[pred].items() if v == 'T'}
                for params in pe:
                    for i, x in enumerate(params):
                        for (u, v) in eq:
                            if u == x:
                                new = params[:i] + (v,) + params[i + 1:]
                                if new not in pe:
                                    probs.setdefault('respects', set()).add(show(pred, new))
        if not probs:
            results.append((True, label, 'ok', 'identity is an equivalence respected by every extension'))
        TEXT = {'reflexive': 'identity is not reflexive on the constants: missing ', 'symmetric': 'identity is not symmetric: missing ',
                'transitive': 'identity (symmetrically closed) is not transitive: missing ',
                'respects': 'a predicate extension does not respect identity: missing ', 'raises': ''}
        for kind in sorted(probs):
            results.append((False, label, kind, TEXT[kind] + ', '.join(sorted(probs[kind])) + ' (union over the iteration orders of the set of constants)'))
    # identity is interpreted per world: facts at one world must not move extensions at another (modal logics)
    if lg.modal:
        for label, idw, fw in (('a=b at w0; Fa true, Fb false at w1', 0, 1), ('a=b at w1; Fa true, Fb false at w0', 1, 0)):
            probs = set()
            for order in itertools.permutations((a, b, c)):
                mdl = ModelC()

                def mkframe():
                    return Obj('frame', atomics={}, opaques={}, predicates=defaultdict(PI))
                fr = defaultdict(mkframe)
                fr[0], fr[1]
                fr[idw].predicates[Identity][(a, b)] = 'T'
                fr[fw].predicates[F][(a,)] = 'T'
                fr[fw].predicates[F][(b,)] = 'F'
                mdl.frames = fr
                R = AccessC(set)
                R[0].add(1)
                R[1]
                mdl.R = R
                mdl.Meta = Obj('Meta', modal=True, unassigned_value='F', quantified=lg.quantified)
                mdl.values = Obj('values')
                mdl.constants = ConstSet(order)
                mdl.sentences = set()
                mdl._finished = False
                mdl._is_frame_complete = False
                try:
                    mdl.finish()
                except Raised as e:
                    probs.add(f'finish() raises {e.text}')
                    continue
                except (TypeError, KeyError, AttributeError, IndexError, ValueError, RuntimeError) as e:
                    probs.add(f'finish() raises {type(e).__name__}: {e}')
                    continue
                if mdl.frames[fw].predicates[F].get((b,)) != 'F':
                    probs.add(f'Fb at w{fw} became {mdl.frames[fw].predicates[F].get((b,))!r}')
                if mdl.frames[fw].predicates[Identity].get((a, b)) == 'T':
                    probs.add(f'a=b became true at w{fw}')
            if probs:
                results.append((False, label, 'locality', 'identity facts of one world act on another world: ' + '; '.join(sorted(probs))))
            else:
                results.append((True, label, 'ok', 'identity acts at its own world only'))
    out = (results, sorted(consulted))
    _cache[key] = out
    return out
