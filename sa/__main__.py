"""Entry point:  /venv/bin/python -m sa <ID> --tier quick|thorough [--repo /repo] [--only RULE-or-KEY]

Exit 0: every rule instance held (or is a listed known finding).
Exit 1 + `VIOLATION property=<id> replay=<path>`: an unlisted violation.
Exit 2 + `ANALYSIS-ERROR ...`: the analysis could not be carried out (not a verdict).
"""
from __future__ import annotations

import argparse
import importlib
import json
import os
import sys

from . import core


def main(argv=None):
    ap = argparse.ArgumentParser(prog='sa')
    ap.add_argument('prop')
    ap.add_argument('--tier', default=os.environ.get('VERIF_TIER') or 'quick', choices=['quick', 'thorough'])
    ap.add_argument('--repo', default='/repo')
    ap.add_argument('--only', default=None, help='re-run / report one rule id or one finding key')
    ap.add_argument('--replay', default=None, help='replay file written by a failing run')
    ap.add_argument('--no-evidence', action='store_true')
    ap.add_argument('--no-selftest', action='store_true')
    args = ap.parse_args(argv)
    core.install_import_blocker()

    def go():
        pid = args.prop.upper()
        only = args.only
        if args.replay:
            data = json.loads(open(args.replay).read())
            keys = [v['key'] for v in data.get('violations', [])]
            print(f'replaying {len(keys)} violation key(s) from {args.replay}')
            only = None
            replay_keys = set(keys)
        else:
            replay_keys = None
        try:
            mod = importlib.import_module(f'sa.props.{pid.lower()}')
        except ModuleNotFoundError:
            raise core.AnalysisError(f'no check for property {pid}')
        from .ctx import Ctx
        ctx = Ctx(args.repo)
        rep = core.Report(pid, args.tier, args.repo)
        try:
            mod.run(ctx, rep)
        except core.AnalysisError as e:
            # rules already decided stand: a violation found before the analysis stopped is reported (finish() turns an
            # incomplete analysis without violations into ANALYSIS-ERROR, exit 2)
            rep.floor_fail.append(f'analysis stopped early: {e}')
        if 'pytableaux' in sys.modules:
            raise core.AnalysisError('pytableaux was imported during a static check')
        if replay_keys is not None:
            rep.findings = [f for f in rep.findings if f.key in replay_keys]
        real = args.repo == '/repo' and not (args.only or args.replay)
        if real and args.tier == 'thorough' and not args.no_selftest:
            from . import selftest
            selftest.run_for(pid, rep)
        status = core.finish(rep, mod.LEVEL, mod.EXPLANATION, mod.TRUSTED, mod.ASSUMPTIONS,
                             write_evidence=not args.no_evidence and real, only=only)
        return status
    return core.main_guard(go)


if __name__ == '__main__':
    sys.exit(main())
