"""Symbol tables of lang/_symdata.py evaluated from source (minieval)."""
from __future__ import annotations

import html

from .core import AnalysisError
from .minieval import Interp
from .model import Model

SYM = 'pytableaux.lang._symdata'


class Sym:
    "symbolic reference such as Operator.Negation / Marking.paren_open / Predicate.System"

    def __init__(self, *path):
        self.path = path

    def __getattr__(self, name):
        if name.startswith('__'):
            raise AttributeError(name)
        return Sym(*self.path, name)

    def __eq__(self, o):
        return isinstance(o, Sym) and o.path == self.path

    def __hash__(self):
        return hash(self.path)

    def __repr__(self):
        return '.'.join(self.path)


NAMES = ('Atomic', 'Constant', 'Marking', 'Notation', 'Operator', 'Predicate', 'Quantifier', 'Variable')


def load(m: Model):
    """Returns (parse_tables, string_tables) as lists of plain dicts with Sym keys."""
    g = {n: Sym(n) for n in NAMES}
    g['NotImplemented'] = NotImplemented
    g['html_unescape'] = html.unescape
    it = Interp(g, where='lang/_symdata.py')
    dunesc = m.func(SYM, 'dunesc')
    it.g['dunesc'] = lambda d: it.call(dunesc, [d])
    pt = it.generate(m.func(SYM, 'parse_tables'), [])
    st = it.generate(m.func(SYM, 'string_tables'), [])
    if len(pt) < 2 or len(st) < 10:
        raise AnalysisError(f'_symdata: {len(pt)} parse tables and {len(st)} string tables found (expected 2 and 10)')
    return pt, st


def lexical_items(lex):
    "The 31 lexical items every notation must be able to spell: as parse-table values"
    O, Q, P = Sym('Operator'), Sym('Quantifier'), Sym('Predicate')
    out = [(O, getattr(O, n)) for n in lex.operators] + [(Q, getattr(Q, n)) for n in lex.quantifiers]
    out += [(P.System, P.Existence), (P.System, P.Identity)]
    out += [(Sym('Atomic'), i) for i in range(5)]
    for t in ('Variable', 'Constant', 'Predicate'):
        out += [(Sym(t), i) for i in range(4)]
    return out


def string_key_to_item(k):
    "map a string-table key to the parse-table value it denotes (None for non-lexical keys)"
    if isinstance(k, Sym):
        if k.path[0] in ('Operator', 'Quantifier') and len(k.path) == 2:
            return (Sym(k.path[0]), k)
        if k.path[0] == 'Predicate' and len(k.path) == 2 and k.path[1] in ('Identity', 'Existence'):
            return (Sym('Predicate').System, k)
        return None
    if isinstance(k, tuple) and len(k) == 2 and isinstance(k[0], Sym) and k[0].path[0] in ('Atomic', 'Variable', 'Constant', 'Predicate') \
            and len(k[0].path) == 1 and isinstance(k[1], int):
        return k
    return None
