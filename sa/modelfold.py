"""Sentence evaluation folded end to end: `Model.value_of` is called (minieval)
on mock sentences -- Operated over Atomic operands, distinct and identical,
plain and under a negation -- with every method it reaches (is_sentence_opaque,
value_of_operated, value_of_atomic, ...) resolved through the logic's model
MRO, super() included.  The truth function is a recording mock, so the result
is a term `TF(op, v1, .., vn)`; it must be exactly the table application to the
operands' values *at the evaluated world*."""
from __future__ import annotations

import itertools

from .core import AnalysisError
from .minieval import Interp, Obj, Raised, Raises
from .model import ClassRef, FuncRef, Model

MODELS = 'pytableaux.models'


class Op:
    def __init__(self, name, table):
        self.name = name
        self._table = table

    def __getattr__(self, a):
        t = self.__dict__.get('_table', {})
        if a in t:
            return t[a]
        raise AttributeError(a)

    def __repr__(self):
        return f'Operator.{self.name}'


class SentBase:
    pass


def sentence_classes():
    class Atomic(SentBase):
        def __init__(self, name):
            self.name = name

        def __repr__(self):
            return self.name

    class Predicated(SentBase):
        pass

    class Quantified(SentBase):
        pass

    class Operated(SentBase):
        def __init__(self, operator, operands):
            self.operator, self.operands = operator, tuple(operands)

        def __iter__(self):
            return iter(self.operands)

        def __len__(self):
            return len(self.operands)

        def __getitem__(self, i):
            return self.operands[i]

        lhs = property(lambda s: s.operands[0])
        rhs = property(lambda s: s.operands[-1])
        operand = property(lambda s: s.operands[0])

        def __repr__(self):
            return f'{self.operator.name}({", ".join(map(repr, self.operands))})'
    return Atomic, Predicated, Quantified, Operated


class TF(tuple):
    def __repr__(self):
        return f'{self[0]}({",".join(map(repr, self[1:]))})'


def chain_key(m: Model, cls: ClassRef, names):
    out = []
    for n in names:
        for c in m.mro(cls):
            v = m.clsns(c).get(n)
            if v is not None:
                out.append((n, c.module, c.qualname))
    return tuple(out)


METHODS = ('value_of', 'is_sentence_opaque', 'is_sentence_literal', 'value_of_operated', 'value_of_atomic', 'value_of_opaque')
_cache = {}


def fold_value_of(m: Model, lgs, lg, deep=False):
    """-> (results [(ok, case, detail)], consulted).  Cached by the resolved method chain and the value domain."""
    V = [n for n, _ in lg.values]
    key = (chain_key(m, lg.modelcls, METHODS), tuple(V), lg.modal, lg.quantified, lg.unassigned, deep)
    if key in _cache:
        return _cache[key]
    lex = lgs.lex
    table = {}
    ops = {n: Op(n, table) for n in lex.operators}
    table.update(ops)
    Atomic, Predicated, Quantified, Operated = sentence_classes()
    consulted = set()
    it = Interp(dict(Atomic=Atomic, Predicated=Predicated, Quantified=Quantified, Operated=Operated, Sentence=SentBase,
                     NotImplementedError=lambda *a: 'NotImplementedError', ValueError=lambda *a: 'ValueError',
                     AttributeError=AttributeError,
                     check=Obj('check', inst=lambda o, t: o)), where=f'{lg.name}.Model.value_of')
    it.g['type'] = type
    W = 1   # the evaluated world; values at world 0 are different, so a dropped `world` shows
    calls = []

    class Self:
        pass
    self_ = Self()
    meta = Obj('Meta', modal=lg.modal, quantified=lg.quantified, unassigned_value=lg.unassigned,
               truth_functional_operators=frozenset(ops[o] for o in lex.truth_functional),
               modal_operators=frozenset(ops[o] for o in lex.modal_operators),
               values=Obj('values', **{v: v for v in V}))
    self_.Meta = meta
    self_._check_finished = lambda: None
    self_.maxval, self_.minval = V[-1], V[0]

    def tf(oper, *vals):
        calls.append((oper, vals))
        return TF((oper.name,) + tuple(vals))
    self_.truth_function = tf

    def invoke(name, args, kw, after=None):
        fn, owner = m.method(lg.modelcls, name, after)
        if not isinstance(fn, FuncRef):
            raise AnalysisError(f'{lg.name}.Model.{name} does not resolve to a function')
        consulted.add(m.floc(fn) + f' {fn.qualname}')

        class Sup:
            def __getattr__(s_, n):
                return lambda *a, **k: invoke(n, list(a), k, after=owner)
        old = it.g.get('super')
        it.g['super'] = lambda: Sup()
        try:
            return it.call(fn.node, [self_, *args], kw)
        finally:
            it.g['super'] = old
    for nm in METHODS:
        setattr(self_, nm, (lambda nm: (lambda *a, **k: invoke(nm, list(a), k)))(nm))
    results = []
    A, B = Atomic('A'), Atomic('B')
    vals = V + [None]     # None: the atom is unassigned
    binary = [o for o in lex.truth_functional if lex.arity[o] == 2]
    unary = [o for o in lex.truth_functional if lex.arity[o] == 1]

    opq = {}     # opaque sentence mock -> its stored value at the evaluated world (None: not stored)

    def frames_for(va, vb):
        def fr(a, b, here):
            d = {}
            if a is not None:
                d[A] = a
            if b is not None:
                d[B] = b
            return Obj('frame', atomics=d, opaques={o: v for o, v in opq.items() if v is not None} if here else {o: other for o in opq}, predicates={})
        # world 0 carries *other* values than the evaluated world
        other = V[0] if va != V[0] else V[-1]
        return {0: fr(other, other, False), W: fr(va, vb, True)}

    def expect_atom(v):
        return lg.unassigned if v is None else v

    def check(sent, want, va, vb, shape):
        self_.frames = frames_for(va, vb)
        del calls[:]
        try:
            got = self_.value_of(sent, world=W)
        except Raised as e:
            got = Raises(e.text)
        except (TypeError, KeyError, AttributeError, IndexError, ValueError) as e:
            got = Raises(f'{type(e).__name__}: {e}')
        ok = got == want and not isinstance(got, Raises)
        case = f'{sent!r} [{shape}] with A={expect_atom(va)}' + (f', B={expect_atom(vb)}' if 'B' in repr(sent) else '')
        results.append((ok, case, f'model evaluation yields {got!r}; the truth table applied to the operand values is {want!r}'))
    for op in unary:
        for va in vals:
            s = Operated(ops[op], [A])
            check(s, TF((op, expect_atom(va))), va, None, 'unary')
            check(Operated(ops['Negation'], [s]), TF(('Negation', TF((op, expect_atom(va))))), va, None, 'negated unary')
    for op in binary:
        for va, vb in itertools.product(vals, repeat=2):
            s = Operated(ops[op], [A, B])
            w = TF((op, expect_atom(va), expect_atom(vb)))
            check(s, w, va, vb, 'distinct operands')
            if deep or va == vb:
                check(Operated(ops['Negation'], [s]), TF(('Negation', w)), va, vb, 'negated')
        for va in vals:
            s = Operated(ops[op], [A, A])
            w = TF((op, expect_atom(va), expect_atom(va)))
            check(s, w, va, None, 'identical operands')
            check(Operated(ops['Negation'], [s]), TF(('Negation', w)), va, None, 'negated, identical operands')
            # nested on one side
            n = Operated(ops[op], [A, Operated(ops[op], [A, A])])
            check(n, TF((op, expect_atom(va), w)), va, None, 'nested')
    # compounds over an *uninterpreted* operand (a modal sentence in a non-modal logic, a quantified one in a propositional
    # logic): the operand's value is the one stored for it (or the unassigned value), and the compound is still the table
    # applied to the operands' values -- only the uninterpreted sentence itself is looked up
    opaques = []
    if not lg.modal:
        opaques.append(Operated(ops['Necessity'], [A]))
    if not lg.quantified:
        qs = Quantified()
        qs.__dict__['_repr'] = 'Q'
        opaques.append(qs)
    for O in opaques:
        nm = repr(O) if isinstance(O, Operated) else 'QxFx'

        def chk(sent, want, vo, vb, shape):
            opq.clear()
            opq[O] = vo
            n0 = len(results)
            check(sent, want, None, vb, shape)
            ok_, case_, det_ = results[n0]
            results[n0] = (ok_, f'{case_} and the uninterpreted operand {nm}={expect_atom(vo)}'.replace(repr(O), nm) if not isinstance(O, Operated) else
                           f'{case_} and the uninterpreted operand {nm}={expect_atom(vo)}', det_)
        for vo in vals:
            chk(O, expect_atom(vo), vo, None, 'uninterpreted sentence')
            for op in unary:
                chk(Operated(ops[op], [O]), TF((op, expect_atom(vo))), vo, None, 'unary over an uninterpreted operand')
            for op in binary:
                for vb in (vals if deep else [V[-1], None]):
                    chk(Operated(ops[op], [O, B]), TF((op, expect_atom(vo), expect_atom(vb))), vo, vb, 'uninterpreted left operand')
                    chk(Operated(ops[op], [B, O]), TF((op, expect_atom(vb), expect_atom(vo))), vo, vb, 'uninterpreted right operand')
    opq.clear()
    out = (results, sorted(consulted))
    _cache[key] = out
    return out
