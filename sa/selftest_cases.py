"""Variants for the self-test.  MUTANTS[pid] = [(name, [edit...], expected-substring)],
REFACTORS[pid] = [(name, [edit...])]; edit = (relative file, old, new[, count])."""

FDE = 'pytableaux/logics/fde.py'
KFDE = 'pytableaux/logics/kfde.py'
CPL = 'pytableaux/logics/cpl.py'
K3 = 'pytableaux/logics/k3.py'
LP = 'pytableaux/logics/lp.py'
L3 = 'pytableaux/logics/l3.py'
MH = 'pytableaux/logics/mh.py'
K3WQ = 'pytableaux/logics/k3wq.py'
RULES = 'pytableaux/proof/rules.py'
HELPERS = 'pytableaux/proof/helpers.py'
COMMON = 'pytableaux/proof/common.py'
TAB = 'pytableaux/proof/tableaux.py'
PROOF = 'pytableaux/proof/__init__.py'
FILTERS = 'pytableaux/proof/filters.py'
MODELS = 'pytableaux/models/__init__.py'
TOOLS = 'pytableaux/tools/__init__.py'

M_FDE_MC_DES = (FDE, """            yield adds(
                sdwgroup((~s.lhs, d, w)),
                sdwgroup(( s.rhs, d, w)))

    class MaterialConditionalNegatedDesignated""", """            yield adds(
                sdwgroup((~s.lhs, d, w), ( s.rhs, d, w)))

    class MaterialConditionalNegatedDesignated""")

MUTANTS = {
    'C04': [
        ('fde-material-conditional-designated-one-branch', [M_FDE_MC_DES], 'C04.R1'),
        ('rules-OperandsRule-flips-designation', [(RULES, "        yield adds(sdwgroup(*((s, d, w) for s in s)))", "        yield adds(sdwgroup(*((s, not d, w) for s in s)))")], 'C04.R1'),
        ('fde-universal-uses-fresh-constant-only', [(FDE, "    class ExistentialNegatedDesignated(UniversalDesignated): pass", "    class ExistentialNegatedDesignated(ExistentialDesignated): pass")], 'C04.R2'),
        ('kfde-necessity-at-node-world', [(KFDE, "                add = sdwnode(si, d, w2)", "                add = sdwnode(si, d, w1)")], 'C04.R'),
        ('kfde-possibility-drops-negation', [(KFDE, """            s = self.sentence(node)
            si = s.lhs
            if self.new_negated(self.negated):
                si = ~si
            d = self.designation
            # Allow override for S4GO""", """            s = self.sentence(node)
            si = s.lhs
            d = self.designation
            # Allow override for S4GO""")], 'C04.R3'),
        ('mh-existential-generaliser-changed', [(MH, """        if len(valset) > 1:
            return values.N
        return values.F""", """        if len(valset) > 1:
            return values.F
        return values.F""")], 'C04.R2'),
        ('l3-conditional-table-changed', [(L3, """            if a == b:
                return self.values.T
            return self.MaterialConditional(a, b)""", """            if a == b == 'N':
                return self.values.N
            return self.MaterialConditional(a, b)""")], 'C04.R1'),
        ('default-node-rule-passes-negated-designation', [(RULES, "return self._get_sdw_targets(self.sentence(node), node['designated'], node.get('world'))", "return self._get_sdw_targets(self.sentence(node), not node['designated'], node.get('world'))")], 'C04.R'),
        ('compare-sentence-ignores-negated', [(FILTERS, """            if self.compitem.negated:
                if type(s) is Operated and s.operator is Operator.Negation:
                    return s.lhs
            else:
                return s""", """            if self.compitem.negated:
                if type(s) is Operated and s.operator is Operator.Negation:
                    return s
            else:
                return s""")], 'C04.R0'),
        ('sdwnode-drops-world', [(PROOF, """    return SentenceDesignationWorldNode({
        Node.Key.sentence: s,
        Node.Key.designation: d,
        Node.Key.world: w})""", """    return SentenceDesignationWorldNode({
        Node.Key.sentence: s,
        Node.Key.designation: d})""")], 'C04.R0'),
        ('fde-rule-removed-from-groups', [(FDE, "            ConjunctionNegatedDesignated,\n            ConjunctionUndesignated,", "            ConjunctionUndesignated,")], 'C04.R4'),
        ('fde-rule-drops-world-used-by-modal-logics', [
            (FDE, "from ..proof import Branch, Node, adds, rules, sdwgroup, sdwnode", "from ..proof import Branch, Node, adds, rules, sdwgroup, sdwnode, sdnode"),
            (FDE, "    class ConjunctionDesignated(rules.OperandsRule): pass", "    class ConjunctionDesignated(rules.OperatorNodeRule):\n        def _get_sd_targets(self, s, d, /):\n            yield adds(group(sdnode(s.lhs, d), sdnode(s.rhs, d)))")], 'C04.R5'),
        ('t-logic-loses-reflexive-rule', [('pytableaux/logics/tfde.py', "group(Reflexive)", "group()")], 'C04.R6'),
        ('reflexive-access-enforce-noop', [(MODELS, """        for w in self:
            self.add((w, w))

class ReflexiveTransitiveAccesss""", """        for w in self:
            pass

class ReflexiveTransitiveAccesss""")], 'C04.R6'),
        ('symmetric-rule-not-reversed', [(RULES, "            pair = node.pair().reversed()", "            pair = node.pair()")], 'C04.R6'),
        ('node-designation-filter-removed', [(RULES, "    NodeFilters = group(filters.NodeDesignation, filters.NodeType)", "    NodeFilters = group(filters.NodeType)")], 'C04.R0'),
    ],
    'C05': [
        ('read-node-table-swapped', [(MODELS, "                base = 'FNTB'", "                base = 'FNBT'")], 'C05.R3'),
        ('gap-closure-any-designation', [(LP, "            if node['designated'] is False:", "            if node['designated'] is not None:")], 'C05.R'),
        ('designation-closure-other-world', [(FDE, "return branch.find(sdwnode(s, not node['designated'], node.get('world')))", "return branch.find(sdwnode(s, not node['designated'], None))")], 'C05.R1'),
        ('glut-closure-removed-from-k3', [(K3, "    closure = (GlutClosure, *FDE.Rules.closure)", "    closure = (*FDE.Rules.closure,)")], 'C05.R2'),
        ('contradiction-closure-same-sentence', [(CPL, "                return branch.find(swnode(-s, node.get('world')))", "                return branch.find(swnode(s, node.get('world')))")], 'C05.R2'),
        ('self-identity-closure-any-identity', [(CPL, "                len(set(self.sentence(node))) == 1)", "                len(set(self.sentence(node))) >= 1)")], 'C05.R4'),
        ('negated-read-table-changed', [(MODELS, "                base = 'TNFB'", "                base = 'TFNB'")], 'C05.R3'),
    ],
    'C07': [
        ('base-negation-table', [(MODELS, """            if a == 'F':
                return self.values.T
            if a == 'T':
                return self.values.F
            return self.values[a]""", """            if a == 'F':
                return self.values.T
            return self.values[a]""")], 'C07.R1'),
        ('rm3-conditional', [('pytableaux/logics/rm3.py', "            if a > b:", "            if a >= b:")], 'C07.R1'),
        ('material-biconditional-one-direction', [(MODELS, "return self.Conjunction(*starmap(self.MaterialConditional, ((a, b), (b, a))))", "return self.Conjunction(*starmap(self.MaterialConditional, ((a, b), (a, b))))")], 'C07.R'),
        ('designated-values-lp', [(LP, "class Meta(FDE.Meta):\n    name = 'LP'", "class Meta(FDE.Meta):\n    designated_values = 'T'\n    name = 'LP'")], 'C07.R1'),
        ('modal-extension-own-truthfunction', [('pytableaux/logics/kk3.py', "class Model(K3.Model, KFDE.Model): pass", "class Model(K3.Model, KFDE.Model):\n    class TruthFunction(K3.Model.TruthFunction):\n        def Conjunction(self, a, b):\n            return max(a, b)\n")], 'C07.R3'),
        ('p3-negation-direction', [('pytableaux/logics/p3.py', """            if a == 'T':
                return self.values.N
            if a == 'N':
                return self.values.F
            return self.values.T""", """            if a == 'T':
                return self.values.F
            if a == 'N':
                return self.values.T
            return self.values.N""")], 'C07.R1'),
    ],
    'C06': [
        ('nextconst-membership-idiom', [(COMMON, """                maxconst = max(cons)
                if maxconst >= self._nextconst:
                    self._nextconst = maxconst.next()""", """                if self._nextconst in cons:
                    self._nextconst = max(cons).next()""")], 'C06.R1'),
        ('nextworld-strict-comparison', [(COMMON, "                if maxworld >= self._nextworld:", "                if maxworld > self._nextworld:")], 'C06.R1'),
        ('copy-shares-constants', [(COMMON, "        b._constants = self._constants.copy()", "        b._constants = self._constants")], 'C06.R3'),
        ('copy-view-over-parent', [(COMMON, "        b.worlds = SetView(b._worlds)", "        b.worlds = SetView(self._worlds)")], 'C06.R3'),
        ('new-world-returns-previous', [(COMMON, "        return self._nextworld\n", "        return max(0, self._nextworld - 1)\n")], 'C06.R2'),
        ('marks-updated-after-event', [(COMMON, """        # Add to index *before* after_node_add event
        self._index.add(node)
        self.emit(Branch.Events.AFTER_ADD, node, self)""", """        # Add to index *before* after_node_add event
        self.emit(Branch.Events.AFTER_ADD, node, self)
        self._index.add(node)""")], 'C06.R1'),
        ('coords-next-skips', [('pytableaux/lang/lex.py', "        if idx < cls.TYPE.maxi:\n            idx += 1", "        if idx < cls.TYPE.maxi - 1:\n            idx += 1")], 'C06.R0'),
        ('helper-resets-nextconst', [(HELPERS, "        self[branch][w1].add(w2)\n", "        self[branch][w1].add(w2)\n            branch._nextworld = w2\n")], 'C06.R2'),
    ],
    'C01': [
        ('premature-cleared-when-limit-hit', [(TAB, """                if not self._is_max_steps_exceeded():
                    entry = self.next()
                    if entry is None:
                        self.flag &= ~self.flag.PREMATURE""", """                if not self._is_max_steps_exceeded():
                    entry = self.next()
                if entry is None:
                    self.flag &= ~self.flag.PREMATURE""")], 'C01.R1'),
        ('valid-ignores-premature', [(TAB, """        if self.completed and self.argument is not None:
            return len(self.open) == 0""", """        if self.finished and self.argument is not None:
            return len(self.open) == 0""")], 'C01.R1'),
        ('cpl-trunk-unnegated-conclusion', [(CPL, "        b += swnode(~arg.conclusion, w)", "        b += swnode(arg.conclusion, w)")], 'C01.R2'),
        ('fde-trunk-premises-undesignated', [(FDE, "        b += (sdwnode(s, True, w) for s in arg.premises)", "        b += (sdwnode(s, False, w) for s in arg.premises)")], 'C01.R2'),
        ('adz-apply-first-group-on-every-branch', [(HELPERS, "            branch.extend(nodes)\n            if self.rule.ticking:", "            branch.extend(adds[0])\n            if self.rule.ticking:")], 'C01.R4'),
        ('helper-appends-node', [(HELPERS, "            self[branch][w1].add(w2)\n", "            self[branch][w1].add(w2)\n            branch.append(anode(w2, w1))\n")], 'C01.R3'),
        ('identity-rule-ignores-world', [(CPL, "                if n is node or n.get('world') != w:", "                if n is node:")], 'C01.R8'),
        ('fde-unsound-rule', [M_FDE_MC_DES], 'C01.R5'),
        ('tableau-branch-does-not-copy-parent', [(TAB, "            branch = parent.copy(parent = parent)", "            branch = Branch()")], 'C01.R4'),
    ],
    'C02': [
        ('fde-disjunction-undesignated-branches', [(FDE, "    class DisjunctionUndesignated(rules.OperandsRule): pass", "    class DisjunctionUndesignated(rules.BranchingOperandsRule): pass")], 'C02.R1'),
        ('read-node-table-swapped', [(MODELS, "                base = 'FNTB'", "                base = 'FNBT'")], 'C02.R2'),
        ('countermodel-test-ignores-conclusion', [(MODELS, "            self.value_of(a.conclusion) not in self.Meta.designated_values)", "            self.value_of(a.conclusion) in self.Meta.values)")], 'C02.R3'),
        ('models-generated-for-any-result', [(TAB, "        if self.invalid and self.opts['is_build_models'] and self.logic is not None:", "        if self.opts['is_build_models'] and self.logic is not None:")], 'C02.R3'),
        ('access-node-not-read', [(MODELS, "            self.R.add(node.pair())\n            return", "            return")], 'C02.R3'),
    ],
    'C03': [
        ('conjunction-rule-not-ticking', [(FDE, "    class ConjunctionDesignated(rules.OperandsRule): pass", "    class ConjunctionDesignated(rules.OperandsRule):\n        ticking = False")], 'C03.R3'),
        ('reducing-rule-cycle', [(RULES, """        oper = self.conjoined
        lhs, rhs = s
        s = oper(lhs, rhs) & oper(rhs, lhs)""", """        oper = self.operator
        lhs, rhs = s
        s = oper(lhs, rhs) & oper(rhs, lhs)""")], 'C03.R'),
        ('plain-node-rule-emits-quit-flag', [(RULES, """        ``_get_node_targets()``.
        \"\"\"
        return self._get_node_targets(node, branch)""", """        ``_get_node_targets()``.
        \"\"\"
        if len(branch) > 500:
            return [adds(group(self[MaxWorlds].quit_flag(branch)), flag='quit')]
        return self._get_node_targets(node, branch)""")], 'C03.R4'),
        ('fde-inexact-operator-rule', [M_FDE_MC_DES], 'C03.R1'),
    ],
    'C10': [
        ('designation-closure-never-closes-same-designation-pair', [(FDE, "return branch.find(sdwnode(s, not node['designated'], node.get('world')))", "return branch.find(sdwnode(~s, node['designated'], node.get('world')))")], 'C10.R1'),
        ('rule-inspects-constant-index', [(FDE, "            s = c >> self.sentence(node)\n            if self.negated:", "            if c.index == 0 and c.subscript > 3:\n                return\n            s = c >> self.sentence(node)\n            if self.negated:")], 'C10.R2'),
        ('helper-builds-specific-constant', [(HELPERS, "        access = self[branch]\n", "        access = self[branch]\n        probe = Constant(0, 0)\n")], 'C10.R2'),
    ],
    'C11': [
        ('lp-declared-extension-of-k3', [(LP, "    extension_of = ('FDE')", "    extension_of = ('FDE', 'K3')")], 'C11.R2'),
        ('unknown-extension-name', [(K3, "    extension_of = ('FDE')", "    extension_of = ('FDEE')")], 'C11.R1'),
        ('t-does-not-extend-d', [('pytableaux/logics/t.py', "        'D',\n", "")], 'C11.R1'),
        ('cycle', [(FDE, "    category_order = 1\n    native_operators", "    category_order = 1\n    extension_of = ('K3')\n    native_operators")], 'C11.R'),
    ],
    'C17': [
        ('finish-sets-flag-late', [(TAB, """        # Mark the flag early to avoid recursion with timeout error handling.
        self.flag |= self.flag.FINISHED
        timeouterr = None""", """        timeouterr = None""")], 'C17.R'),
        ('step-without-finished-guard', [(TAB, """        if self.flag.FINISHED in self.flag:
            return
        entry = None""", """        entry = None""")], 'C17.R2'),
        ('max-steps-off-by-one', [(TAB, "            len(self.history) >= self.opts['max_steps'])", "            len(self.history) > self.opts['max_steps'])")], 'C17.R3'),
        ('argument-setter-no-guard', [(TAB, """        if self.flag.STARTED in self.flag:
            raise Emsg.IllegalState("Tableau already started")
        self._argument = Argument(value)""", """        self._argument = Argument(value)""")], 'C17.R5'),
        ('timeout-raises-before-finish', [(TAB, """            self.flag |= self.flag.TIMED_OUT
            self.finish()
            raise Emsg.Timeout(self.opts['build_timeout'])""", """            self.flag |= self.flag.TIMED_OUT
            raise Emsg.Timeout(self.opts['build_timeout'])""")], 'C17.R4'),
        ('rulegroup-append-not-locking', [(TAB, """    @locking
    def append(self, rulecls: type[Rule], /):""", """    def append(self, rulecls: type[Rule], /):""")], 'C17.R5'),
        ('extra-writer-clears-started', [(TAB, "        self.rules.clear()\n        self._logic = registry(value)", "        self.rules.clear()\n        self.flag &= ~self.flag.STARTED\n        self._logic = registry(value)")], 'C17.R1'),
        ('step-limit-flag-for-zero', [(TAB, "        if maxsteps is not None and maxsteps > 0:", "        if maxsteps is not None:")], 'C17.R1'),
        ('apply-without-limit-check', [(TAB, """                if not self._is_max_steps_exceeded():
                    entry = self.next()""", """                if True:
                    entry = self.next()""")], 'C17.R'),
    ],
}

REFACTORS = {
    'C04': [
        ('rename-local-in-fde-rule', [(FDE, """        def _get_node_targets(self, node, branch, /):
            s = branch.new_constant() >> self.sentence(node)
            if self.negated:
                s = ~s
            yield adds(
                sdwgroup((s, self.designation, node.get('world'))))""", """        def _get_node_targets(self, node, branch, /):
            inst = branch.new_constant() >> self.sentence(node)
            if self.negated:
                inst = ~inst
            yield adds(
                sdwgroup((inst, self.designation, node.get('world'))))""")]),
        ('inline-operands-as-lhs-rhs', [(FDE, "    class ConjunctionDesignated(rules.OperandsRule): pass", "    class ConjunctionDesignated(rules.OperatorNodeRule):\n        def _get_sdw_targets(self, s, d, w, /):\n            lhs, rhs = s\n            yield adds(sdwgroup((lhs, d, w), (rhs, d, w)))")]),
        ('reorder-rules-within-group', [(FDE, "            AssertionDesignated,\n            AssertionUndesignated,", "            AssertionUndesignated,\n            AssertionDesignated,")]),
        ('truth-function-equivalent-form', [(MODELS, "            return min(a, b)", "            return a if a <= b else b")]),
    ],
    'C05': [
        ('gap-closure-equivalent-guard', [(LP, "            if node['designated'] is False:", "            if node['designated'] is not None and not node['designated']:")]),
        ('read-node-rename-local', [(MODELS, "            has_negative = branch.has(sdwnode(s_negative, d, node.get('world')))", "            has_negative = branch.has(sdwnode(s_negative, d, node.get('world'))) is True")]),
    ],
    'C06': [
        ('max-idiom-variant', [(COMMON, """                maxconst = max(cons)
                if maxconst >= self._nextconst:
                    self._nextconst = maxconst.next()""", """                self._nextconst = max(self._nextconst, max(cons).next())""")]),
        ('while-idiom-variant', [(COMMON, """                if maxworld >= self._nextworld:
                    self._nextworld = maxworld + 1
                self._worlds.update(worlds)""", """                self._worlds.update(worlds)
                self._nextworld = max(self._worlds) + 1""")]),
    ],
    'C07': [
        ('l3-conditional-rewritten', [(L3, """            if a == b:
                return self.values.T
            return self.MaterialConditional(a, b)""", """            if a != b:
                return self.MaterialConditional(a, b)
            return self.values.T""")]),
    ],
    'C01': [
        ('verdict-equivalent-form', [(TAB, """        if self.completed and self.argument is not None:
            return len(self.open) == 0""", """        if self.argument is not None and self.completed:
            return not len(self.open)""")]),
    ],
    'C17': [
        ('max-steps-equivalent', [(TAB, """        return (
            self.flag.HAS_STEP_LIMIT in self.flag and
            len(self.history) >= self.opts['max_steps'])""", """        if self.flag.HAS_STEP_LIMIT not in self.flag:
            return False
        return not len(self.history) < self.opts['max_steps']""")]),
    ],
}
