"""Variants for the self-test.  MUTANTS[pid] = [(name, [edit...], expected-substring)],
REFACTORS[pid] = [(name, [edit...])]; edit = (relative file, old, new[, count])."""

FDE = 'pytableaux/logics/fde.py'
KFDE = 'pytableaux/logics/kfde.py'
CPL = 'pytableaux/logics/cpl.py'
K3 = 'pytableaux/logics/k3.py'
LP = 'pytableaux/logics/lp.py'
L3 = 'pytableaux/logics/l3.py'
MH = 'pytableaux/logics/mh.py'
K3WQ = 'pytableaux/logics/k3wq.py'
RULES = 'pytableaux/proof/rules.py'
HELPERS = 'pytableaux/proof/helpers.py'
COMMON = 'pytableaux/proof/common.py'
TAB = 'pytableaux/proof/tableaux.py'
PROOF = 'pytableaux/proof/__init__.py'
FILTERS = 'pytableaux/proof/filters.py'
MODELS = 'pytableaux/models/__init__.py'
TOOLS = 'pytableaux/tools/__init__.py'

M_FDE_MC_DES = (FDE, """            yield adds(
                sdwgroup((~s.lhs, d, w)),
                sdwgroup(( s.rhs, d, w)))

    class MaterialConditionalNegatedDesignated""", """            yield adds(
                sdwgroup((~s.lhs, d, w), ( s.rhs, d, w)))

    class MaterialConditionalNegatedDesignated""")

MUTANTS = {
    'C04': [
        ('necessity-redundancy-guard-wrong-world', [(KFDE, "                if (node, w2) in self[NodesWorlds][branch]:", "                if (node, w1) in self[NodesWorlds][branch]:")], 'C04.R3'),
        ('fde-material-conditional-designated-one-branch', [M_FDE_MC_DES], 'C04.R1'),
        ('rules-OperandsRule-flips-designation', [(RULES, "        yield adds(sdwgroup(*((s, d, w) for s in s)))", "        yield adds(sdwgroup(*((s, not d, w) for s in s)))")], 'C04.R1'),
        ('fde-universal-uses-fresh-constant-only', [(FDE, "    class ExistentialNegatedDesignated(UniversalDesignated): pass", "    class ExistentialNegatedDesignated(ExistentialDesignated): pass")], 'C04.R2'),
        ('kfde-necessity-at-node-world', [(KFDE, "                add = sdwnode(si, d, w2)", "                add = sdwnode(si, d, w1)")], 'C04.R'),
        ('kfde-possibility-drops-negation', [(KFDE, """            s = self.sentence(node)
            si = s.lhs
            if self.new_negated(self.negated):
                si = ~si
            d = self.designation
            # Allow override for S4GO""", """            s = self.sentence(node)
            si = s.lhs
            d = self.designation
            # Allow override for S4GO""")], 'C04.R3'),
        ('mh-existential-generaliser-changed', [(MH, """        if len(valset) > 1:
            return values.N
        return values.F""", """        if len(valset) > 1:
            return values.F
        return values.F""")], 'C04.R2'),
        ('l3-conditional-table-changed', [(L3, """            if a == b:
                return self.values.T
            return self.MaterialConditional(a, b)""", """            if a == b == 'N':
                return self.values.N
            return self.MaterialConditional(a, b)""")], 'C04.R1'),
        ('default-node-rule-passes-negated-designation', [(RULES, "return self._get_sdw_targets(self.sentence(node), node['designated'], node.get('world'))", "return self._get_sdw_targets(self.sentence(node), not node['designated'], node.get('world'))")], 'C04.R'),
        ('compare-sentence-ignores-negated', [(FILTERS, """            if self.compitem.negated:
                if type(s) is Operated and s.operator is Operator.Negation:
                    return s.lhs
            else:
                return s""", """            if self.compitem.negated:
                if type(s) is Operated and s.operator is Operator.Negation:
                    return s
            else:
                return s""")], 'C04.R0'),
        ('sdwnode-drops-world', [(PROOF, """    return SentenceDesignationWorldNode({
        Node.Key.sentence: s,
        Node.Key.designation: d,
        Node.Key.world: w})""", """    return SentenceDesignationWorldNode({
        Node.Key.sentence: s,
        Node.Key.designation: d})""")], 'C04.R0'),
        ('fde-rule-removed-from-groups', [(FDE, "            ConjunctionNegatedDesignated,\n            ConjunctionUndesignated,", "            ConjunctionUndesignated,")], 'C04.R4'),
        ('fde-rule-drops-world-used-by-modal-logics', [
            (FDE, "from ..proof import Branch, Node, adds, rules, sdwgroup, sdwnode", "from ..proof import Branch, Node, adds, rules, sdwgroup, sdwnode, sdnode"),
            (FDE, "    class ConjunctionDesignated(rules.OperandsRule): pass", "    class ConjunctionDesignated(rules.OperatorNodeRule):\n        def _get_sd_targets(self, s, d, /):\n            yield adds(group(sdnode(s.lhs, d), sdnode(s.rhs, d)))")], 'C04.R5'),
        ('t-logic-loses-reflexive-rule', [('pytableaux/logics/tfde.py', "group(Reflexive)", "group()")], 'C04.R6'),
        ('reflexive-access-enforce-noop', [(MODELS, """        for w in self:
            self.add((w, w))

class ReflexiveTransitiveAccesss""", """        for w in self:
            pass

class ReflexiveTransitiveAccesss""")], 'C04.R6'),
        ('symmetric-rule-not-reversed', [(RULES, "            pair = node.pair().reversed()", "            pair = node.pair()")], 'C04.R6'),
        ('node-designation-filter-removed', [(RULES, "    NodeFilters = group(filters.NodeDesignation, filters.NodeType)", "    NodeFilters = group(filters.NodeType)")], 'C04.R0'),
    ],
    'C05': [
        ('self-existence-not-completed', [(CPL, "            self._ensure_self_existence(w)\n", "")], 'C05.R4'),
        ('read-node-table-swapped', [(MODELS, "                base = 'FNTB'", "                base = 'FNBT'")], 'C05.R3'),
        ('gap-closure-any-designation', [(LP, "            if node['designated'] is False:", "            if node['designated'] is not None:")], 'C05.R'),
        ('designation-closure-other-world', [(FDE, "return branch.find(sdwnode(s, not node['designated'], node.get('world')))", "return branch.find(sdwnode(s, not node['designated'], None))")], 'C05.R1'),
        ('glut-closure-removed-from-k3', [(K3, "    closure = (GlutClosure, *FDE.Rules.closure)", "    closure = (*FDE.Rules.closure,)")], 'C05.R2'),
        ('contradiction-closure-same-sentence', [(CPL, "                return branch.find(swnode(-s, node.get('world')))", "                return branch.find(swnode(s, node.get('world')))")], 'C05.R2'),
        ('self-identity-closure-any-identity', [(CPL, "                len(set(self.sentence(node))) == 1)", "                len(set(self.sentence(node))) >= 1)")], 'C05.R4'),
        ('negated-read-table-changed', [(MODELS, "                base = 'TNFB'", "                base = 'TFNB'")], 'C05.R3'),
    ],
    'C07': [
        ('base-negation-table', [(MODELS, """            if a == 'F':
                return self.values.T
            if a == 'T':
                return self.values.F
            return self.values[a]""", """            if a == 'F':
                return self.values.T
            return self.values[a]""")], 'C07.R1'),
        ('rm3-conditional', [('pytableaux/logics/rm3.py', "            if a > b:", "            if a >= b:")], 'C07.R1'),
        ('material-biconditional-one-direction', [(MODELS, "return self.Conjunction(*starmap(self.MaterialConditional, ((a, b), (b, a))))", "return self.Conjunction(*starmap(self.MaterialConditional, ((a, b), (a, b))))")], 'C07.R'),
        ('designated-values-lp', [(LP, "class Meta(FDE.Meta):\n    name = 'LP'", "class Meta(FDE.Meta):\n    designated_values = 'T'\n    name = 'LP'")], 'C07.R1'),
        ('modal-extension-own-truthfunction', [('pytableaux/logics/kk3.py', "class Model(K3.Model, KFDE.Model): pass", "class Model(K3.Model, KFDE.Model):\n    class TruthFunction(K3.Model.TruthFunction):\n        def Conjunction(self, a, b):\n            return max(a, b)\n")], 'C07.R3'),
        ('p3-negation-direction', [('pytableaux/logics/p3.py', """            if a == 'T':
                return self.values.N
            if a == 'N':
                return self.values.F
            return self.values.T""", """            if a == 'T':
                return self.values.F
            if a == 'N':
                return self.values.T
            return self.values.N""")], 'C07.R1'),
    ],
    'C06': [
        ('nextconst-membership-idiom', [(COMMON, """                maxconst = max(cons)
                if maxconst >= self._nextconst:
                    self._nextconst = maxconst.next()""", """                if self._nextconst in cons:
                    self._nextconst = max(cons).next()""")], 'C06.R1'),
        ('nextworld-strict-comparison', [(COMMON, "                if maxworld >= self._nextworld:", "                if maxworld > self._nextworld:")], 'C06.R1'),
        ('copy-shares-constants', [(COMMON, "        b._constants = self._constants.copy()", "        b._constants = self._constants")], 'C06.R3'),
        ('copy-view-over-parent', [(COMMON, "        b.worlds = SetView(b._worlds)", "        b.worlds = SetView(self._worlds)")], 'C06.R3'),
        ('new-world-returns-previous', [(COMMON, "        return self._nextworld\n", "        return max(0, self._nextworld - 1)\n")], 'C06.R2'),
        ('marks-updated-after-event', [(COMMON, """        # Add to index *before* after_node_add event
        self._index.add(node)
        self.emit(Branch.Events.AFTER_ADD, node, self)""", """        # Add to index *before* after_node_add event
        self.emit(Branch.Events.AFTER_ADD, node, self)
        self._index.add(node)""")], 'C06.R1'),
        ('coords-next-skips', [('pytableaux/lang/lex.py', "        if idx < cls.TYPE.maxi:\n            idx += 1", "        if idx < cls.TYPE.maxi - 1:\n            idx += 1")], 'C06.R0'),
        ('helper-resets-nextconst', [(HELPERS, "        self[branch][w1].add(w2)\n", "        self[branch][w1].add(w2)\n            branch._nextworld = w2\n")], 'C06.R2'),
    ],
    'C01': [
        ('closing-rule-closes-every-open-branch', [(RULES, "        target.branch.close()\n", "        for b in list(self.tableau.open):\n            b.close()\n")], 'C01.R4'),
        ('premature-cleared-when-limit-hit', [(TAB, """                if not self._is_max_steps_exceeded():
                    entry = self.next()
                    if entry is None:
                        self.flag &= ~self.flag.PREMATURE""", """                if not self._is_max_steps_exceeded():
                    entry = self.next()
                if entry is None:
                    self.flag &= ~self.flag.PREMATURE""")], 'C01.R1'),
        ('valid-ignores-premature', [(TAB, """        if self.completed and self.argument is not None:
            return len(self.open) == 0""", """        if self.finished and self.argument is not None:
            return len(self.open) == 0""")], 'C01.R1'),
        ('cpl-trunk-unnegated-conclusion', [(CPL, "        b += swnode(~arg.conclusion, w)", "        b += swnode(arg.conclusion, w)")], 'C01.R2'),
        ('fde-trunk-premises-undesignated', [(FDE, "        b += (sdwnode(s, True, w) for s in arg.premises)", "        b += (sdwnode(s, False, w) for s in arg.premises)")], 'C01.R2'),
        ('adz-apply-first-group-on-every-branch', [(HELPERS, "            branch.extend(nodes)\n            if self.rule.ticking:", "            branch.extend(adds[0])\n            if self.rule.ticking:")], 'C01.R4'),
        ('helper-appends-node', [(HELPERS, "            self[branch][w1].add(w2)\n", "            self[branch][w1].add(w2)\n            branch.append(anode(w2, w1))\n")], 'C01.R3'),
        ('identity-rule-ignores-world', [(CPL, "                if n is node or n.get('world') != w:", "                if n is node:")], 'C01.R8'),
        ('fde-unsound-rule', [M_FDE_MC_DES], 'C01.R5'),
        ('tableau-branch-does-not-copy-parent', [(TAB, "            branch = parent.copy(parent = parent)", "            branch = Branch()")], 'C01.R4'),
    ],
    'C02': [
        ('necessity-gate-starves', [(KFDE, "                not self[NodeCount].isleast(node, branch) and\n                self._least_pending(branch)", "                not self[NodeCount].isleast(node, branch)")], 'C02.R8'),
        ('fde-disjunction-undesignated-branches', [(FDE, "    class DisjunctionUndesignated(rules.OperandsRule): pass", "    class DisjunctionUndesignated(rules.BranchingOperandsRule): pass")], 'C02.R1'),
        ('read-node-table-swapped', [(MODELS, "                base = 'FNTB'", "                base = 'FNBT'")], 'C02.R2'),
        ('countermodel-test-ignores-conclusion', [(MODELS, "            self.value_of(a.conclusion) not in self.Meta.designated_values)", "            self.value_of(a.conclusion) in self.Meta.values)")], 'C02.R3'),
        ('models-generated-for-any-result', [(TAB, "        if self.invalid and self.opts['is_build_models'] and self.logic is not None:", "        if self.opts['is_build_models'] and self.logic is not None:")], 'C02.R3'),
        ('access-node-not-read', [(MODELS, "            self.R.add(node.pair())\n            return", "            return")], 'C02.R3'),
    ],
    'C03': [
        ('conjunction-rule-not-ticking', [(FDE, "    class ConjunctionDesignated(rules.OperandsRule): pass", "    class ConjunctionDesignated(rules.OperandsRule):\n        ticking = False")], 'C03.R3'),
        ('reducing-rule-cycle', [(RULES, """        oper = self.conjoined
        lhs, rhs = s
        s = oper(lhs, rhs) & oper(rhs, lhs)""", """        oper = self.operator
        lhs, rhs = s
        s = oper(lhs, rhs) & oper(rhs, lhs)""")], 'C03.R'),
        ('plain-node-rule-emits-quit-flag', [(RULES, """        ``_get_node_targets()``.
        \"\"\"
        return self._get_node_targets(node, branch)""", """        ``_get_node_targets()``.
        \"\"\"
        if len(branch) > 500:
            return [adds(group(self[MaxWorlds].quit_flag(branch)), flag='quit')]
        return self._get_node_targets(node, branch)""")], 'C03.R4'),
        ('fde-inexact-operator-rule', [M_FDE_MC_DES], 'C03.R1'),
    ],
    'C10': [
        ('necessity-gate-releases-node', [(KFDE, "                self._least_pending(branch)\n            ):\n                return", "                self._least_pending(branch)\n            ):\n                self[FilterHelper].release(node, branch)\n                return")], 'C10.R6'),
        ('necessity-redundancy-guard-wrong-world', [(KFDE, "                if (node, w2) in self[NodesWorlds][branch]:", "                if (node, w1) in self[NodesWorlds][branch]:")], 'C10.R6'),
        ('reflexive-guard-other-pair', [(RULES, "                pair = WorldPair(w, w)\n                if self[WorldIndex].has(branch, pair):", "                pair = WorldPair(w, w)\n                if self[WorldIndex].has(branch, WorldPair(0, w)):")], 'C10.R6'),
        ('possibility-skips-when-body-here', [(KFDE, "            w1 = node['world']\n            w2 = branch.new_world()", "            w1 = node['world']\n            if branch.has(sdwnode(si, d, w1)):\n                return\n            w2 = branch.new_world()")], 'C10.R6'),
        ('designation-closure-never-closes-same-designation-pair', [(FDE, "return branch.find(sdwnode(s, not node['designated'], node.get('world')))", "return branch.find(sdwnode(~s, node['designated'], node.get('world')))")], 'C10.R1'),
        ('rule-inspects-constant-index', [(FDE, "            s = c >> self.sentence(node)\n            if self.negated:", "            if c.index == 0 and c.subscript > 3:\n                return\n            s = c >> self.sentence(node)\n            if self.negated:")], 'C10.R2'),
        ('helper-builds-specific-constant', [(HELPERS, "        access = self[branch]\n", "        access = self[branch]\n        probe = Constant(0, 0)\n")], 'C10.R2'),
    ],
    'C11': [
        ('lp-declared-extension-of-k3', [(LP, "    extension_of = ('FDE')", "    extension_of = ('FDE', 'K3')")], 'C11.R2'),
        ('unknown-extension-name', [(K3, "    extension_of = ('FDE')", "    extension_of = ('FDEE')")], 'C11.R1'),
        ('t-does-not-extend-d', [('pytableaux/logics/t.py', "        'D',\n", "")], 'C11.R1'),
        ('cycle', [(FDE, "    category_order = 1\n    native_operators", "    category_order = 1\n    extension_of = ('K3')\n    native_operators")], 'C11.R'),
    ],
    'C17': [
        ('finish-sets-flag-late', [(TAB, """        # Mark the flag early to avoid recursion with timeout error handling.
        self.flag |= self.flag.FINISHED
        timeouterr = None""", """        timeouterr = None""")], 'C17.R'),
        ('step-without-finished-guard', [(TAB, """        if self.flag.FINISHED in self.flag:
            return
        entry = None""", """        entry = None""")], 'C17.R2'),
        ('max-steps-off-by-one', [(TAB, "            len(self.history) >= self.opts['max_steps'])", "            len(self.history) > self.opts['max_steps'])")], 'C17.R3'),
        ('argument-setter-no-guard', [(TAB, """        if self.flag.STARTED in self.flag:
            raise Emsg.IllegalState("Tableau already started")
        self._argument = Argument(value)""", """        self._argument = Argument(value)""")], 'C17.R5'),
        ('timeout-raises-before-finish', [(TAB, """            self.flag |= self.flag.TIMED_OUT
            self.finish()
            raise Emsg.Timeout(self.opts['build_timeout'])""", """            self.flag |= self.flag.TIMED_OUT
            raise Emsg.Timeout(self.opts['build_timeout'])""")], 'C17.R4'),
        ('rulegroup-append-not-locking', [(TAB, """    @locking
    def append(self, rulecls: type[Rule], /):""", """    def append(self, rulecls: type[Rule], /):""")], 'C17.R5'),
        ('extra-writer-clears-started', [(TAB, "        self.rules.clear()\n        self._logic = registry(value)", "        self.rules.clear()\n        self.flag &= ~self.flag.STARTED\n        self._logic = registry(value)")], 'C17.R1'),
        ('step-limit-flag-for-zero', [(TAB, "        if maxsteps is not None and maxsteps > 0:", "        if maxsteps is not None:")], 'C17.R1'),
        ('apply-without-limit-check', [(TAB, """                if not self._is_max_steps_exceeded():
                    entry = self.next()""", """                if True:
                    entry = self.next()""")], 'C17.R'),
    ],
}

REFACTORS = {
    'C04': [
        ('rename-local-in-fde-rule', [(FDE, """        def _get_node_targets(self, node, branch, /):
            s = branch.new_constant() >> self.sentence(node)
            if self.negated:
                s = ~s
            yield adds(
                sdwgroup((s, self.designation, node.get('world'))))""", """        def _get_node_targets(self, node, branch, /):
            inst = branch.new_constant() >> self.sentence(node)
            if self.negated:
                inst = ~inst
            yield adds(
                sdwgroup((inst, self.designation, node.get('world'))))""")]),
        ('inline-operands-as-lhs-rhs', [(FDE, "    class ConjunctionDesignated(rules.OperandsRule): pass", "    class ConjunctionDesignated(rules.OperatorNodeRule):\n        def _get_sdw_targets(self, s, d, w, /):\n            lhs, rhs = s\n            yield adds(sdwgroup((lhs, d, w), (rhs, d, w)))")]),
        ('reorder-rules-within-group', [(FDE, "            AssertionDesignated,\n            AssertionUndesignated,", "            AssertionUndesignated,\n            AssertionDesignated,")]),
        ('truth-function-equivalent-form', [(MODELS, "            return min(a, b)", "            return a if a <= b else b")]),
    ],
    'C05': [
        ('gap-closure-equivalent-guard', [(LP, "            if node['designated'] is False:", "            if node['designated'] is not None and not node['designated']:")]),
        ('read-node-rename-local', [(MODELS, "            has_negative = branch.has(sdwnode(s_negative, d, node.get('world')))", "            has_negative = branch.has(sdwnode(s_negative, d, node.get('world'))) is True")]),
    ],
    'C06': [
        ('max-idiom-variant', [(COMMON, """                maxconst = max(cons)
                if maxconst >= self._nextconst:
                    self._nextconst = maxconst.next()""", """                self._nextconst = max(self._nextconst, max(cons).next())""")]),
        ('while-idiom-variant', [(COMMON, """                if maxworld >= self._nextworld:
                    self._nextworld = maxworld + 1
                self._worlds.update(worlds)""", """                self._worlds.update(worlds)
                self._nextworld = max(self._worlds) + 1""")]),
    ],
    'C07': [
        ('l3-conditional-rewritten', [(L3, """            if a == b:
                return self.values.T
            return self.MaterialConditional(a, b)""", """            if a != b:
                return self.MaterialConditional(a, b)
            return self.values.T""")]),
    ],
    'C01': [
        ('verdict-equivalent-form', [(TAB, """        if self.completed and self.argument is not None:
            return len(self.open) == 0""", """        if self.argument is not None and self.completed:
            return not len(self.open)""")]),
    ],
    'C17': [
        ('max-steps-equivalent', [(TAB, """        return (
            self.flag.HAS_STEP_LIMIT in self.flag and
            len(self.history) >= self.opts['max_steps'])""", """        if self.flag.HAS_STEP_LIMIT not in self.flag:
            return False
        return not len(self.history) < self.opts['max_steps']""")]),
    ],
}

LEX = 'pytableaux/lang/lex.py'
PARSING = 'pytableaux/lang/parsing.py'
WRITING = 'pytableaux/lang/writing.py'
SYMDATA = 'pytableaux/lang/_symdata.py'
HYBRIDS = 'pytableaux/tools/hybrids.py'
LINKED = 'pytableaux/tools/linked.py'
COLLECT = 'pytableaux/lang/collect.py'
NODES = 'pytableaux/proof/writers/doctree/nodes.py'
TEXTW = 'pytableaux/proof/writers/doctree/text.py'

MUTANTS.update({
    'C08': [
        ('access-add-forgets-target-world', [(MODELS, "            self[w1].add(w2)\n            self[w2]\n", "            self[w1].add(w2)\n")], 'C08.R4'),
        ('access-has-any-successor', [(MODELS, "            return w1 in self and w2 in self[w1]\n", "            return w1 in self and bool(self[w1])\n")], 'C08.R4'),
        ('mh-existential-both-n-and-f', [(MH, """        if len(valset) > 1:
            return values.N
        return values.F""", """        if len(valset) > 1:
            return values.F
        return values.F""")], 'C08.R2'),
        ('value-of-operated-reversed-operands', [(MODELS, "            it = (self.value_of(s, **kw) for s in s)", "            it = (self.value_of(s, **kw) for s in reversed(s))")], 'C08.R1'),
        ('possibility-uses-min', [(MODELS, """            if oper is oper.Possibility:
                return maxceil(self.maxval, it, self.minval)""", """            if oper is oper.Possibility:
                return minfloor(self.minval, it, self.maxval)""")], 'C08.R'),
        ('complete-frames-before-enforce', [(MODELS, """        # access restrictions can add a world (serial), do that before completing
        self.R.enforce()
        # ensure frames for each world
        for w in self.R:
            self.frames[w]
""", """        # ensure frames for each world
        for w in self.R:
            self.frames[w]
""")], 'C08.R3'),
        ('finish-never-marks-finished', [(MODELS, """        self.R.enforce()
        self._finished = True
        return self""", """        self.R.enforce()
        return self""")], 'C08.R3'),
        ('transitive-enforce-single-pass', [(MODELS, """            if not to_add:
                break
            for _ in map(self.add, to_add): pass

class GlobalAccess""", """            for _ in map(self.add, to_add): pass
            break

class GlobalAccess""")], None),
        ('complete-frames-skips-opaques', [(MODELS, """            for s in opaques:
                if s not in frame.opaques:
                    frame.opaques[s] = unass""", """            for s in opaques:
                pass""")], 'C08.R3'),
        ('unmodal-values-at-current-world', [(MODELS, "            yield value_of(s.lhs, world=w2)", "            yield value_of(s.lhs, world=world)")], None),
        ('k3wq-quantifier-drops-kw', [(K3WQ, "        it = self._unquantify_values(s, **kw)", "        it = self._unquantify_values(s)")], 'C08.R1'),
        ('maxceil-wrong-comparator', [(TOOLS, "    return _limit_best(gt, ceil, it, default, 'maxceil')", "    return _limit_best(lt, ceil, it, default, 'maxceil')")], 'C08.R2'),
        ('set-value-after-finish-allowed', [(MODELS, """    def set_atomic_value(self, s: Atomic, value: MvalT_co, /, *, world: int = 0):
        self._check_not_finished()""", """    def set_atomic_value(self, s: Atomic, value: MvalT_co, /, *, world: int = 0):""")], 'C08.R3'),
    ],
    'C09': [
        ('necessity-group-score-reads-candidate-score', [(KFDE, """            if self.score_candidate(target) > 0:
                return 1.0
            return -1.0 * self[NodeCount][target.branch][target.node]""", """            if target['candidate_score'] > 0:
                return 1.0
            return -1.0 * self[NodeCount][target.branch][target.node]""")], 'C09.R1'),
        ('rule-reads-search-option', [(KFDE, """        def _get_node_targets(self, node, branch, /):
            # Only count least-applied-to nodes""", """        def _get_node_targets(self, node, branch, /):
            if not self.tableau.opts['is_group_optim']:
                return
            # Only count least-applied-to nodes""")], 'C09.R2'),
        ('isleast-subscript-read', [(HELPERS, "        return self.min(branch) >= self[branch].get(node, 0)", "        return self.min(branch) >= self[branch][node]")], 'C09.R4'),
        ('select-best-target-returns-new-target', [(TAB, """            if not is_rank_optim:
                return target
            if target['candidate_score'] == target['max_candidate_score']:""", """            if not is_rank_optim:
                return Target(target)
            if target['candidate_score'] == target['max_candidate_score']:""")], 'C09.R2'),
        ('build-stops-after-one-step', [(TAB, "        for _ in self.stepiter(): pass\n        return self", "        for _ in self.stepiter(): break\n        return self")], None),
    ],
    'C12': [
        ('parse-table-drops-whitespace-default', [(PARSING, "        mapping = dict(data['mapping'])\n", "        mapping = dict(data['mapping'])\n        mapping.pop(' ', None)\n")], 'C12.R'),
        ('string-table-defaults-override', [(WRITING, "            strings.setdefault(key, strings[defaultkey])\n", "            strings[key] = strings[defaultkey]\n")], 'C12.R4'),
        ('polish-string-swapped-operators', [(SYMDATA, "            Operator.Conjunction: 'K',\n            Operator.Disjunction: 'A',", "            Operator.Conjunction: 'A',\n            Operator.Disjunction: 'K',")], 'C12.R1'),
        ('polish-parse-table-missing-constant', [(SYMDATA, "            's' : (Constant, 3),\n", "")], 'C12.R1'),
        ('two-symbols-same-string', [(SYMDATA, "        Operator.Necessity              :  'N',\n        Quantifier.Universal   : 'L',", "        Operator.Necessity              :  'L',\n        Quantifier.Universal   : 'L',")], 'C12.R2'),
        ('writer-operands-before-operator', [(WRITING, "        return ''.join(map(self._write, (item.operator, *item)))", "        return ''.join(map(self._write, (*item, item.operator)))")], 'C12.R3'),
        ('parser-reads-one-operand-less', [(PARSING, "        return oper(self._read(context) for _ in range(oper.arity))", "        return oper(self._read(context) for _ in range(oper.arity - 1))")], 'C12.R3'),
        ('subscript-zero-written', [(WRITING, "        if s == 0: return ''\n", "")], 'C12.R3'),
        ('argstr-comma-separator', [(COLLECT, "        return ':'.join(map(__class__._argstr_lw, self))", "        return ','.join(map(__class__._argstr_lw, self))")], 'C12.R3'),
        ('standard-writer-negated-identity-for-any-unary', [(WRITING, """                oper is Operator.Negation and
                type(s) is Predicated""", """                type(s) is Predicated""")], 'C12.R5'),
        ('multi-char-parse-key', [(SYMDATA, "            '!' : (Predicate.System, Predicate.Existence),", "            'E!' : (Predicate.System, Predicate.Existence),")], 'C12.R1'),
    ],
    'C13': [
        ('context-raises-valueerror', [(PARSING, """        if len(self.input) > self.pos:
            raise ParseError(self._unexp_msg())""", """        if len(self.input) > self.pos:
            raise ValueError(self._unexp_msg())""")], 'C13.R1'),
        ('auto-predicate-valueerror-not-converted', [(PARSING, """        try:
            pred = Predicate(*coords, arity)
        except ValueError as err:
            raise ParseError(
                f'Error auto-creating predicate {coords=} {arity=}: {err}')
        self.predicates.add(pred)
        return pred(params)

    def _read_quantified""", """        pred = Predicate(*coords, arity)
        self.predicates.add(pred)
        return pred(params)

    def _read_quantified""")], 'C13.R1'),
        ('frozen-store-guard-dropped', [(PARSING, "            if not self.opts['auto_preds'] or not isinstance(self.predicates, Predicates):\n                raise\n            coords = err.coords\n        else:\n            return pred(self._read_params(context, pred.arity))", "            if not self.opts['auto_preds']:\n                raise\n            coords = err.coords\n        else:\n            return pred(self._read_params(context, pred.arity))")], 'C13.R2'),
        ('unbind-without-occurs-check', [(PARSING, """        if self.check_bound(v) not in s.variables:
            raise BoundVariableError(
                f"Unused bound variable {v.spec} near position {self.pos}")
        self.bound.remove(v)""", """        self.check_bound(v)
        self.bound.remove(v)""")], 'C13.R3'),
        ('variable-parameter-not-checked', [(PARSING, """        if ctype is Variable:
            context.check_bound(param)
        return param""", """        return param""")], 'C13.R3'),
        ('subscript-loop-no-advance', [(PARSING, """            digits.append(context.value(cur))
            context.advance()""", """            digits.append(context.value(cur))""")], 'C13.R4'),
        ('parser-remembers-last-input', [(PARSING, """        with ParseContext(input, self.table, self.predicates) as context:
            return self._read(context)""", """        self.opts['last'] = input
        with ParseContext(input, self.table, self.predicates) as context:
            return self._read(context)""")], 'C13.R5'),
        ('unexp-msg-without-current-check', [(PARSING, """        if self.assert_current() is not ctype:
            raise ParseError(self._unexp_msg())""", """        if self.type(self.current(), None) is not ctype:
            raise ParseError(self._unexp_msg())""")], 'C13.R1'),
    ],
    'C14': [
        ('orderitems-ignores-length', [(LEX, "            it = zip_longest(lhs.sort_tuple, rhs.sort_tuple, fillvalue=0)", "            it = zip(lhs.sort_tuple, rhs.sort_tuple)")], 'C14.R1'),
        ('eq-separate-from-order', [(LEX, "    __lt__ = __le__ = __gt__ = __ge__ = __eq__ = wrapper()\n\n    def __hash__(self):\n        return self.hash", "    __lt__ = __le__ = __gt__ = __ge__ = wrapper()\n\n    def __eq__(self, other):\n        return self is other\n\n    def __hash__(self):\n        return self.hash")], 'C14.R1'),
        ('predicated-key-omits-params', [(LEX, """            *pred.sort_tuple,
            *(n for p in params for n in p.sort_tuple))""", """            *pred.sort_tuple)""")], 'C14.R1'),
        ('cache-eviction-keeps-keys', [(LEX, """                    for k in rev.pop(old):
                        del(idx[k])""", """                    rev.pop(old)""")], 'C14.R4'),
        ('cache-size-zero-crash', [(LEX, """                if not queue.maxlen:
                    # Zero-size cache: nothing is retained.
                    return
""", "")], 'C14.R4'),
        ('lexical-setter-after-construction', [(LEX, """    def unquantify(self, c: Constant, /):""", """    def rebind(self, v):
        self.variable = v

    def unquantify(self, c: Constant, /):""")], 'C14.R3'),
        ('readonly-not-enabled', [('pytableaux/lang/__init__.py', "    lex.nosetattr.enabled = True\n", "")], 'C14.R3'),
        ('hash-from-spec', [(LEX, "        return hash(item.sort_tuple)", "        return hash(item.spec)")], 'C14.R1'),
    ],
    'C15': [
        ('predicated-substitute-first-only', [(LEX, "        return self.predicate(pnew if p == pold else p for p in self)", "        return self.predicate(pnew if p == pold and i == 0 else p for i, p in enumerate(self))")], 'C15.R1'),
        ('quantified-quantifiers-omits-own', [(LEX, "        return tuple(chain((self.quantifier,), self.sentence.quantifiers))", "        return tuple(self.sentence.quantifiers)")], 'C15.R2'),
        ('unquantify-swapped-arguments', [(LEX, "        return self.sentence.substitute(Constant(c), self.variable)", "        return self.sentence.substitute(self.variable, Constant(c))")], 'C15.R1'),
        ('operated-operators-children-first', [(LEX, """            (self.operator, *chain.from_iterable(
                s.operators for s in self)))""", """            (*chain.from_iterable(
                s.operators for s in self), self.operator))""")], 'C15.R2'),
        ('operated-constants-first-operand-only', [(LEX, "        return frozenset(chain.from_iterable(s.constants for s in self))", "        return frozenset(self.lhs.constants)")], 'C15.R2'),
        ('negative-strips-any-unary', [(LEX, "        if type(self) is Operated and self.operator is Operator.Negation:\n            return self.lhs", "        if type(self) is Operated and self.operator.arity == 1:\n            return self.lhs")], 'C15.R1'),
        ('quantified-substitute-drops-body', [(LEX, "        return self.quantifier(self.variable, self.sentence.substitute(pnew, pold))", "        return self.quantifier(self.variable, self.sentence)")], 'C15.R1'),
    ],
    'C16': [
        ('tree-count-overwritten', [(TAB, "                tree.descendant_node_count += len(child.nodes) + child.descendant_node_count", "                tree.descendant_node_count = len(child.nodes) + child.descendant_node_count")], 'C16.R'),
        ('closed-branch-listed-open', [(TAB, """            if not branch.closed:
                # Append to linqset will raise duplicate value error.
                opens.append(branch)""", """            opens.append(branch)""")], 'C16.R2'),
        ('history-appended-twice', [(TAB, "            self.flag |= self.flag.STARTED\n\n        tab_listeners", "            self.flag |= self.flag.STARTED\n            history.append(target._entry)\n\n        tab_listeners")], 'C16.R2'),
        ('append-to-closed-branch-allowed', [(COMMON, """        if self.closed:
            raise Emsg.IllegalState('Already closed')
        if not isinstance(node, Node):""", """        if not isinstance(node, Node):""")], 'C16.R3'),
        ('fork-not-copy-of-parent', [(TAB, "            branch = parent.copy(parent = parent)", "            branch = parent.copy()")], 'C16.R4'),
        ('parent-stat-is-origin', [(TAB, "                Tableau.StatKey.PARENT     : branch.parent})", "                Tableau.StatKey.PARENT     : branch.parent and branch.origin})")], 'C16.R2'),
        ('cache-entry-shared-with-parent', [(HELPERS, "                self[branch] = copy(self[branch.parent])", "                self[branch] = self[branch.parent]")], 'C16.R4'),
        ('closed-step-off-by-one', [(TAB, "            bstat[Tableau.StatKey.STEP_CLOSED] = self.current_step", "            bstat[Tableau.StatKey.STEP_CLOSED] = self.current_step + 1")], 'C16.R2'),
        ('helper-applies-rule', [(HELPERS, "            self[branch][w1].add(w2)\n", "            self[branch][w1].add(w2)\n            self.rule.apply(Target(branch=branch))\n")], 'C16.R2'),
    ],
    'C18': [
        ('qset-insert-forgets-set', [(HYBRIDS, "        self._seq_.insert(index, value)\n        self._set_.add(value)", "        self._seq_.insert(index, value)")], 'C18.R'),
        ('qset-setitem-adds-old', [(HYBRIDS, "        else:\n            self._set_.add(value)\n        self._hook_done(arriving, leaving)", "        else:\n            self._set_.add(old)\n        self._hook_done(arriving, leaving)")], 'C18.R'),
        ('qset-slice-no-distinct-check', [(HYBRIDS, """        if len(set(values)) != len(values):
            raise Emsg.DuplicateValue(values)
""", "")], 'C18.R'),
        ('qset-delitem-set-before-check', [(HYBRIDS, """        self._hook_check(EMPTY_SEQ, values)
        del self._seq_[key]
        self._set_.difference_update(values)""", """        self._set_.difference_update(values)
        self._hook_check(EMPTY_SEQ, values)
        del self._seq_[key]""")], 'C18.R'),
        ('linqset-setitem-override-removed', [(LINKED, "    def __setitem__(self, i, value) -> None:\n        if isinstance(i, SupportsIndex):\n            links = self._link_at(i),", "    def _unused_setitem(self, i, value) -> None:\n        if isinstance(i, SupportsIndex):\n            links = self._link_at(i),")], 'C18.R'),
        ('linqset-rekey-one-pass', [(LINKED, """        for v in leaving:
            del table[v]
        for link in links:
            table[link.value] = link""", """        for v, link in zip(leaving, links):
            del table[v]
            table[link.value] = link""")], 'C18.R'),
        ('linqset-unlink-keeps-table', [(LINKED, "        super()._unlink(link)\n        del self.__table[link.value]", "        super()._unlink(link)")], 'C18.R'),
        ('predicates-lookup-not-cleared', [(COLLECT, "    def clear(self):\n        super().clear()\n        self._lookup.clear()", "    def clear(self):\n        super().clear()")], 'C18.R'),
        ('predicates-hook-done-skips-leaving', [(COLLECT, """        for pred in leaving:
            for ref in pred.refs:
                pop(ref, None)
            pop(pred, None)""", """        for pred in leaving:
            pop(pred, None)""")], 'C18.R'),
    ],
    'C19': [
        ('walk-departs-after-skipnode', [(NODES, "        except SkipNode:\n            return\n", "        except SkipNode:\n            pass\n")], 'C19.R1'),
        ('default-visitor-not-used', [('pytableaux/proof/writers/doctree/__init__.py', "        except AttributeError:\n            return self.default_visitor\n", "        except AttributeError:\n            raise\n")], 'C19.R1'),
        ('text-translator-loses-visit', [(TEXTW, "    visit_subscript = noop\n", "")], 'C19.R1'),
        ('marking-key-missing-in-latex', [(SYMDATA, "            (Marking.tableau, 'access'): '\\\\mathcal{R}',\n", "")], 'C19.R2'),
        ('access-nodes-not-rendered', [(NODES, """        elif isinstance(obj, proof.AccessNode):
            yield types[world].for_object(obj['world1'])
            yield types[access]()
            yield types[world].for_object(obj['world2'])
""", "")], 'C19.R3'),
        ('template-closure-mark-on-every-flag', [('pytableaux/proof/writers/templates/text/nodes.jinja2', "{{ '(x)' if node.flag == 'closure' else '; ' -}}", "{{ '(x)' if node.flag else '; ' -}}")], 'C19.R3'),
        ('new-element-without-visitors', [(NODES, """        elif isinstance(obj, proof.EllipsisNode):
            yield types[ellipsis]()""", """        elif isinstance(obj, proof.EllipsisNode):
            yield types[ellipsis]()
            yield types[wrapper]()""")], 'C19.R1'),
        ('latex-writer-unregistered', [('pytableaux/proof/writers/doctree/__init__.py', "registry.register(LatexTabWriter)\n", "")], 'C19.R3'),
    ],
    'C20': [
        ('extension-includes-false', [(MODELS, "            data = self._get_predicate_data_part(predicate, interp.having(*'TB'))", "            data = self._get_predicate_data_part(predicate, interp.having(*'TBF'))")], 'C20.R2'),
        ('anti-extension-for-two-valued', [(MODELS, """            if not many_valued:
                return
            data = self._get_predicate_data_part(predicate, interp.having(*'BF'))""", """            data = self._get_predicate_data_part(predicate, interp.having(*'BF'))""")], 'C20.R2'),
        ('sentence-map-unsorted', [(MODELS, "                    for sentence in sorted(base)])", "                    for sentence in base])")], 'C20.R3'),
        ('worlds-unsorted', [(MODELS, "        worlds = sorted(frames)", "        worlds = list(frames)")], 'C20.R'),
        ('having-misses-value', [(MODELS, "            if value in values:\n                yield params", "            if value in values and value != 'B':\n                yield params")], 'C20.R2'),
        ('access-flat-unsorted-successors', [(MODELS, "                w2s = sorted(self[w1]) if sort else self[w1]", "                w2s = self[w1]")], None),
        ('export-reads-opaques-for-atomics', [(MODELS, "                Atomics = self._get_sentencemap_data(self.atomics),", "                Atomics = self._get_sentencemap_data(self.opaques),")], 'C20.R1'),
        ('nonmodal-exports-nothing', [(MODELS, "            return frames[0].get_data()", "            return {}")], 'C20.R1'),
    ],
})

REFACTORS.update({
    'C08': [
        ('finish-enforces-before-completing-frames', [(MODELS, """        self._complete_frames()
        self.R.enforce()
        self._finished = True""", """        self.R.enforce()
        self._complete_frames()
        self._finished = True""")]),
        ('mh-existential-equivalent', [(MH, """        if values.T in valset:
            return values.T
        if len(valset) > 1:
            return values.N
        return values.F""", """        if values.T in valset:
            return values.T
        if values.N in valset and values.F in valset:
            return values.N
        return values.F""")]),
    ],
    'C13': [
        ('unbind-equivalent', [(PARSING, """        if self.check_bound(v) not in s.variables:
            raise BoundVariableError(""", """        self.check_bound(v)
        if v not in s.variables:
            raise BoundVariableError(""")]),
    ],
    'C14': [
        ('orderitems-explicit-loop', [(LEX, """        for cmp in filter(None, starmap(opr.sub, it)):
            return cmp
        return 0""", """        for a, b in it:
            if a != b:
                return a - b
        return 0""")]),
    ],
    'C15': [
        ('predicated-substitute-tuple-form', [(LEX, "        return self.predicate(pnew if p == pold else p for p in self)", "        return self.predicate(tuple(pnew if q == pold else q for q in self.params))")]),
    ],
    'C18': [
        ('qset-setitem-index-no-rollback', [(HYBRIDS, """        self._set_.remove(old)
        try:
            self._seq_[index] = value
        except:
            self._set_.add(old)
            raise
        else:
            self._set_.add(value)""", """        self._set_.remove(old)
        self._seq_[index] = value
        self._set_.add(value)""")]),
        ('qset-insert-reordered-updates', [(HYBRIDS, "        self._seq_.insert(index, value)\n        self._set_.add(value)", "        self._set_.add(value)\n        self._seq_.insert(index, value)")]),
    ],
    'C20': [
        ('worlds-sorted-via-list', [(MODELS, "        worlds = sorted(frames)", "        worlds = sorted(list(frames.keys()))")]),
    ],
    'C16': [
        ('tree-count-explicit-sum', [(TAB, "                tree.descendant_node_count += len(child.nodes) + child.descendant_node_count", "                tree.descendant_node_count = tree.descendant_node_count + len(child.nodes) + child.descendant_node_count")]),
    ],
})

# round 9
_TONODE = """    def tonode(self):
        \"\"\"Create node from this instance.\"\"\"
        return AccessNode({
            Node.Key.world1: self.world1,
            Node.Key.world2: self.world2})"""
for _pid, _cases in {
    'C14': [
        ('system-predicate-qualname-of-wrong-class', [(LEX, "        SystemPredicate.__qualname__ = 'Predicate.System'", "        SystemPredicate.__qualname__ = f'{cls.__name__}.System'")], 'C14.R6'),
        ('system-predicate-qualname-dropped', [(LEX, "        SystemPredicate.__qualname__ = 'Predicate.System'\n", "")], 'C14.R6'),
        ('getnewargs-returns-ident', [(LEX, "    def __getnewargs__(self):\n        return self.spec", "    def __getnewargs__(self):\n        return self.ident")], 'C14.R6'),
    ],
    'C15': [
        ('quantified-key-without-variable', [(LEX, "            *q.sort_tuple,\n            *v.sort_tuple,\n            *s.sort_tuple)", "            *q.sort_tuple,\n            *s.sort_tuple)")], 'C15.R3'),
    ],
    'C16': [
        ('tonode-memoised-in-default', [(PROOF, _TONODE, _TONODE.replace("def tonode(self):", "def tonode(self, _memo = {}):").replace("        return AccessNode({", "        if self in _memo:\n            return _memo[self]\n        return _memo.setdefault(self, AccessNode({").replace("Node.Key.world2: self.world2})", "Node.Key.world2: self.world2}))"))], 'C16.R7'),
    ],
    'C13': [
        ('constructor-gate-tests-concrete-class', [(PARSING, "            if not isinstance(predicates, PredicatesBase):", "            if not isinstance(predicates, Predicates):")], 'C13.R2'),
    ],
    'C07': [
        ('compound-over-uninterpreted-operand-uninterpreted', [(MODELS, "            return True\n        return False\n\n    def is_sentence_literal", "            return True\n        return type(s) is Operated and not self.is_sentence_literal(s) and any(map(self.is_sentence_opaque, s))\n\n    def is_sentence_literal")], 'C07.R5'),
    ],
    'C08': [
        ('compound-over-uninterpreted-operand-uninterpreted', [(MODELS, "            return True\n        return False\n\n    def is_sentence_literal", "            return True\n        return type(s) is Operated and not self.is_sentence_literal(s) and any(map(self.is_sentence_opaque, s))\n\n    def is_sentence_literal")], 'C08.R6'),
    ],
    'C05': [
        ('group-application-results-dropped-when-optim-off', [(TAB, "                if not is_group_optim:\n                    target.update(", "                if not is_group_optim and results.maxlen:\n                    target.update(")], 'C05.R7'),
    ],
}.items():
    MUTANTS.setdefault(_pid, []).extend(_cases)
for _pid, _cases in {
    'C14': [
        ('system-predicate-qualname-from-class-name', [(LEX, "        SystemPredicate.__qualname__ = 'Predicate.System'", "        SystemPredicate.__qualname__ = f'{Predicate.__qualname__}.{SystemPredicate.__name__}'")]),
    ],
    'C13': [
        ('store-guard-de-morgan', [(PARSING, "            if not self.opts['auto_preds'] or not isinstance(self.predicates, Predicates):", "            if not (self.opts['auto_preds'] and isinstance(self.predicates, Predicates)):", 2)]),
    ],
}.items():
    REFACTORS.setdefault(_pid, []).extend(_cases)
