"""E1 -- the logic table: for each logic module the Meta facts, the resolved
Model / TruthFunction / Access classes, System.build_trunk, Rules.closure and
Rules.groups as lists of rule classes, and each rule class's induced
attributes (re-implementation of RuleNameAttrInducer on the class name,
guarded by a structural check of the inducer itself)."""
from __future__ import annotations

import ast
from dataclasses import dataclass, field

from .core import AnalysisError
from .lexinfo import LexInfo
from .model import ALIASES, ClassRef, EnumRef, FuncRef, Model, Unknown

LOGICS = 'pytableaux.logics'
PROOF = 'pytableaux.proof'
RULES = 'pytableaux.proof.rules'
ATTRS = ('operator', 'quantifier', 'predicate', 'negated', 'designation')


@dataclass
class RuleAttrs:
    operator: str | None = None
    quantifier: str | None = None
    predicate: str | None = None
    negated: bool | None = None
    designation: bool | None = None

    def shape(self):
        return (self.operator or self.quantifier or self.predicate, bool(self.negated), self.designation)


@dataclass
class Logic:
    module: str
    name: str
    meta: ClassRef
    modelcls: ClassRef
    systemcls: ClassRef
    rulescls: ClassRef
    modal: bool
    quantified: bool
    valcls: ClassRef
    values: list            # [(name, num)] in definition order
    designated: frozenset
    unassigned: str
    extension_of: tuple
    native_operators: tuple
    tfcls: ClassRef
    accesscls: ClassRef
    closure: list
    groups: list
    many_valued: bool = False

    @property
    def short(self):
        return self.module.rsplit('.', 1)[-1]

    def all_group_rules(self):
        for gi, g in enumerate(self.groups):
            for rc in g:
                yield gi, rc


class Logics:
    def __init__(self, m: Model):
        self.m = m
        self.lex = LexInfo(m)
        self.check_aliases()
        self.check_inducer()
        self.check_meta_constants()
        self.by_module: dict[str, Logic] = {}
        self.by_name: dict[str, Logic] = {}
        declared = self.declared_modules()
        mods = m.logic_modules()
        for mod in mods:
            lg = self._load(mod)
            self.by_module[mod] = lg
            if lg.name in self.by_name:
                raise AnalysisError(f'two logic modules share the name {lg.name}')
            self.by_name[lg.name] = lg
        found = {x.rsplit('.', 1)[-1] for x in mods}
        if declared != found:
            raise AnalysisError(f'logics.__all__ and the logic modules on disk differ: '
                                f'{sorted(declared ^ found)}')
        self._attrs: dict[ClassRef, RuleAttrs] = {}

    def __iter__(self):
        return iter(self.by_module.values())

    def __len__(self):
        return len(self.by_module)

    # ---- guards on the pieces this module re-implements -------------------
    def declared_modules(self):
        v = self.m.modattr(LOGICS, '__all__')
        if not isinstance(v, tuple) or not all(isinstance(x, str) for x in v):
            raise AnalysisError('logics.__all__ is not a literal tuple of strings')
        return set(v)

    def check_aliases(self):
        "The closure init() in logics/__init__.py must contain exactly the two declared patches."
        fn = self.m.func(LOGICS, 'init')
        got = set()
        imports = {}
        for st in fn.body:
            if isinstance(st, ast.ImportFrom):
                src = self.m.resolve_import(LOGICS, st.level, st.module or '')
                for a in st.names:
                    imports[a.asname or a.name] = (src, a.name)
            elif isinstance(st, ast.Assign) and len(st.targets) == 1 and isinstance(st.targets[0], ast.Attribute):
                t = st.targets[0]
                if isinstance(t.value, ast.Name) and isinstance(st.value, ast.Name) and st.value.id in imports:
                    got.add(((LOGICS, f'{t.value.id}.{t.attr}'), imports[st.value.id]))
                else:
                    raise AnalysisError(f'logics.init(): unrecognised patch {ast.unparse(st)}')
            elif isinstance(st, ast.Expr) and isinstance(st.value, ast.Constant):
                continue
            else:
                raise AnalysisError(f'logics.init(): unrecognised statement {ast.unparse(st)[:60]}')
        if got != set(ALIASES.items()):
            raise AnalysisError(f'logics.init() patches {sorted(got)} differ from the declared aliases')

    def check_inducer(self):
        """RuleNameAttrInducer is folded, not re-implemented: an MRO-bound copy of the class (its own __init__, build, do_*,
        found, common_enum) runs on a mock class object of the rule's name, with the Operator / Quantifier /
        Predicate.System enums as ordered mocks read from lang/lex.py."""
        from .bind import bound_class
        from .minieval import Interp, Obj
        m = self.m
        ref = ClassRef(PROOF, 'RuleNameAttrInducer')
        legend_def = next((x for x in ast.walk(m.trees[PROOF]) if isinstance(x, ast.ClassDef) and x.name == 'Legend'), None)
        if legend_def is None:
            raise AnalysisError('proof/__init__.py: RuleMeta.Legend not found')
        legend = {}
        for st in legend_def.body:
            if isinstance(st, ast.Assign) and isinstance(st.targets[0], ast.Name) and isinstance(st.value, ast.Constant):
                legend[st.value.value] = st.targets[0].id

        def Legend(v):
            if v not in legend:
                raise ValueError(v)
            return Obj('Legend.' + legend[v], value=v, name=legend[v])
        # Predicate.System member order: the literal mapping in lang/lex.py
        LEXM = 'pytableaux.lang.lex'
        sysnames = None
        for x in ast.walk(m.trees[LEXM]):
            if isinstance(x, ast.Assign) and isinstance(x.targets[0], ast.Name) and x.targets[0].id == 'System' and isinstance(x.value, ast.Call):
                inner = x.value.args[0] if x.value.args else None
                if isinstance(inner, ast.Call) and inner.keywords:
                    sysnames = [k.arg for k in inner.keywords]
        if not sysnames:
            raise AnalysisError('lang/lex.py: the Predicate.System member mapping was not found')
        self.syspreds = sysnames

        class EnumM(list):
            def __getattr__(s_, n):
                for x in s_:
                    if x.name == n:
                        return x
                raise AttributeError(n)
        mk = lambda kind, names: EnumM(Obj(f'{kind}.{n}', name=n, kind=kind) for n in names)
        Operator, Quantifier, System = mk('Operator', self.lex.operators), mk('Quantifier', self.lex.quantifiers), mk('Predicate', sysnames)
        it = Interp(dict(Operator=Operator, Quantifier=Quantifier, Predicate=Obj('Predicate', System=System), RuleMeta=Obj('RuleMeta', Legend=Legend)),
                    where='proof/__init__.py RuleNameAttrInducer')
        cls_attrs = {}
        for st in m.clsdef(ref).body:
            if isinstance(st, ast.Assign) and isinstance(st.targets[0], ast.Name):
                try:
                    cls_attrs[st.targets[0].id] = it.ev(st.value, {})
                except Exception as e:
                    raise AnalysisError(f'RuleNameAttrInducer.{st.targets[0].id} does not fold: {e}')
        cls_attrs = {k: staticmethod(v) if callable(v) and not isinstance(v, type) else v for k, v in cls_attrs.items()}
        self._inducer_cls = bound_class(m, it, ref, with_init=True, extra_ns=cls_attrs)

    def induce(self, name) -> RuleAttrs | None:
        from .minieval import Raised
        obj = type(name, (), {})
        try:
            attrs = self._inducer_cls(obj).build()
        except Raised as e:
            raise AnalysisError(f'RuleNameAttrInducer does not fold for the rule name {name}: {e.text}')
        except (TypeError, AttributeError, KeyError, ValueError) as e:
            raise AnalysisError(f'RuleNameAttrInducer does not fold for the rule name {name}: {type(e).__name__}: {e}')
        if attrs is None:
            return None
        out = RuleAttrs()
        for k, v in attrs.items():
            if k not in ATTRS:
                raise AnalysisError(f'RuleNameAttrInducer induces an attribute the checker does not know: {k}')
            setattr(out, k, getattr(v, 'name', v) if k in ('operator', 'quantifier', 'predicate') and v is not None else v)
        return out

    def check_meta_constants(self):
        "LogicType.Meta defaults evaluated: modal_operators = {Possibility, Necessity}; truth_functional_operators = the other operators."
        from .minieval import Interp, Obj, Raised
        ref = ClassRef(LOGICS, 'LogicType.Meta')

        class OpEnum(list):
            def __getattr__(s_, n):
                if n in s_:
                    return n
                raise AttributeError(n)
        it = Interp(dict(Operator=OpEnum(self.lex.operators), qsetf=frozenset), where='logics/__init__.py LogicType.Meta')
        env = {}
        for name in ('modal_operators', 'truth_functional_operators'):
            raw, _ = self.m.getraw(ref, name)
            if raw is None:
                raise AnalysisError(f'LogicType.Meta.{name} vanished')
            expr = raw[1] if isinstance(raw[1], ast.AST) else ast.parse(raw[1], mode='eval').body
            try:
                env[name] = it.ev(expr, env)
            except (Raised, TypeError, AttributeError, KeyError) as e:
                raise AnalysisError(f'LogicType.Meta.{name} does not fold: {getattr(e, "text", e)}')
        if set(env['modal_operators']) != {'Possibility', 'Necessity'}:
            raise AnalysisError(f'LogicType.Meta.modal_operators is no longer {{Possibility, Necessity}}: {env["modal_operators"]}')
        if set(env['truth_functional_operators']) != set(self.lex.operators) - {'Possibility', 'Necessity'}:
            raise AnalysisError(f'LogicType.Meta.truth_functional_operators is no longer the non-modal operators: {env["truth_functional_operators"]}')

    # ---- rule-name induction -------------------------------------------------
    def is_intermediate(self, rc: ClassRef):
        kw = self.m.clskw(rc)
        v = kw.get('intermediate')
        return isinstance(v, ast.Constant) and v.value is True

    def rule_attrs(self, rc: ClassRef) -> RuleAttrs:
        """Attributes a rule class ends up with at run time: walking the MRO from
        the most derived class, an attribute comes from the first class that
        either assigns it in its body or had it induced from its name
        (non-intermediate class with autoattrs whose whole name is consumed)."""
        if rc in self._attrs:
            return self._attrs[rc]
        out = RuleAttrs()
        mro = self.m.mro(rc)
        for attr in ATTRS:
            val = None
            for c in mro:
                ns = self.m.clsns(c)
                induced = None
                if not self.is_intermediate(c) and self.m.getattr(c, 'autoattrs') is True:
                    induced = self.induce(c.name)
                if induced is not None:
                    # induction sets every attribute it found, and None for the rest
                    # (hasattr is true for all five on BaseSentenceRule subclasses)
                    val = getattr(induced, attr)
                    break
                if attr in ns:
                    v = self.m.force(ns[attr])
                    if isinstance(v, EnumRef):
                        v = v.member
                    if isinstance(v, Unknown):
                        raise AnalysisError(f'{c}.{attr} not statically known: {v}')
                    val = v
                    break
            setattr(out, attr, val)
        self._attrs[rc] = out
        return out

    # ---- per-logic loading ---------------------------------------------------
    def _load(self, mod) -> Logic:
        m = self.m
        need = {}
        for nm in ('Meta', 'Model', 'System', 'Rules'):
            v = m.modattr(mod, nm)
            if not isinstance(v, ClassRef):
                raise AnalysisError(f'{mod}.{nm} is not a class ({v})')
            need[nm] = v
        Meta, ModelC, SystemC, RulesC = (need[k] for k in ('Meta', 'Model', 'System', 'Rules'))
        g = lambda n, d=None: m.getattr(Meta, n, d)
        own = m.clsns(Meta)
        name = m.force(own['name']) if 'name' in own else mod.split('.')[-1].upper()
        valcls = g('values')
        if not isinstance(valcls, ClassRef):
            raise AnalysisError(f'{mod}.Meta.values not resolved: {valcls}')
        values = []
        for k, v in m.clsns(valcls).items():
            v = m.force(v)
            if isinstance(v, float) and not k.startswith('_'):
                values.append((k, v))
        if len(values) < 2:
            raise AnalysisError(f'{valcls}: fewer than two truth values')
        des = g('designated_values')
        if isinstance(des, str):
            des = tuple(des)
        if not isinstance(des, tuple) or not all(isinstance(x, str) for x in des):
            raise AnalysisError(f'{mod}.Meta.designated_values not literal: {des}')
        vnames = [k for k, _ in values]
        for x in des:
            if x not in vnames:
                raise AnalysisError(f'{mod}: designated value {x!r} not among {vnames}')
        un = g('unassigned_value')
        if not isinstance(un, str) or un not in vnames:
            raise AnalysisError(f'{mod}.Meta.unassigned_value {un!r} not among {vnames}')
        ext = m.force(own['extension_of']) if 'extension_of' in own else ()
        if isinstance(ext, str):
            ext = (ext,)
        if not isinstance(ext, tuple) or not all(isinstance(x, str) for x in ext):
            raise AnalysisError(f'{mod}.Meta.extension_of not literal: {ext}')
        # what LogicMetaMeta.__new__ derives (native operators merged over the Meta bases, many_valued, ...) is read off the
        # class object the *folded* metaclass leaves behind (sa.metafold), bases first -- not re-implemented here
        from .metafold import MetaFolder
        if not hasattr(self, '_metafolder'):
            self._metafolder = MetaFolder(m, self.lex)

        def values_of(vc):
            return [k for k, v in m.clsns(vc).items() if isinstance(m.force(v), float) and not k.startswith('_')]
        folded = self._metafolder.fold(Meta, values_of)
        natnames = tuple(str(x) for x in getattr(folded, 'native_operators', ()))
        mv = getattr(folded, 'many_valued', None)
        if not isinstance(mv, bool):
            raise AnalysisError(f'{mod}.Meta.many_valued is not derived by LogicMetaMeta.__new__ (folded): {mv!r}')
        tfcls = m.getattr(ModelC, 'TruthFunction')
        acc = m.getattr(ModelC, 'Access')
        if not isinstance(tfcls, ClassRef) or not isinstance(acc, ClassRef):
            raise AnalysisError(f'{mod}.Model.TruthFunction/Access not resolved')
        closure = m.getattr(RulesC, 'closure')
        groups = m.getattr(RulesC, 'groups')
        if not isinstance(closure, tuple) or not all(isinstance(c, ClassRef) for c in closure):
            raise AnalysisError(f'{mod}.Rules.closure not resolved: {closure}')
        if not isinstance(groups, tuple) or not all(isinstance(g_, tuple) and all(isinstance(c, ClassRef) for c in g_) for g_ in groups):
            raise AnalysisError(f'{mod}.Rules.groups not resolved: {groups}')
        modal = bool(g('modal', False))
        return Logic(module=mod, name=name, meta=Meta, modelcls=ModelC, systemcls=SystemC, rulescls=RulesC,
                     modal=modal, quantified=bool(g('quantified', False)), valcls=valcls, values=values,
                     designated=frozenset(des), unassigned=un, extension_of=tuple(ext), native_operators=natnames,
                     tfcls=tfcls, accesscls=acc, closure=list(closure), groups=[list(x) for x in groups],
                     many_valued=mv)

    # ---- totals (floors) -------------------------------------------------------
    def totals(self):
        slots = sum(len(g) for lg in self for g in lg.groups)
        cslots = sum(len(lg.closure) for lg in self)
        classes = {rc for lg in self for g in lg.groups for rc in g} | {rc for lg in self for rc in lg.closure}
        return dict(logics=len(self), group_slots=slots, closure_slots=cslots, rule_classes=len(classes))
