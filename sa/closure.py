"""Closure-rule partner patterns and the model builder's literal reading,
both obtained by folding the definitions (minieval) over mock literal nodes."""
from __future__ import annotations

import ast

from .core import AnalysisError
from .glue import MockNode, builder_interp, node_keys
from .minieval import Interp, Obj, Raised
from .model import ClassRef, FuncRef, Model

COMMON = 'pytableaux.proof.common'
MODELS = 'pytableaux.models'


class Lit:
    """Mock literal sentence: a base sentence `p` or its negation.  The base is an atom, a predication or an *opaque*
    sentence (a compound whose operator the logic does not interpret, e.g. a modal sentence in a non-modal logic:
    type Operated like its negation)."""

    def __init__(self, neg, kind='atomic'):
        self.neg, self.kind = neg, kind
        self._typ = T_OPERATED if neg or kind == 'opaque' else {'atomic': T_ATOMIC, 'predicated': T_PREDICATED}[kind]

    @property
    def operator(self):
        if self.neg:
            return NEGATION
        if self.kind == 'opaque':
            return OPAQUE_OPERATOR
        raise AttributeError('operator')

    @property
    def lhs(self):
        if self.neg:
            return LITS[self.kind][0]
        if self.kind == 'opaque':
            return LITS['atomic'][0]
        raise AttributeError('lhs')

    def __neg__(self):        # Sentence.negative(): un-negate a negation, else negate
        return LITS[self.kind][0 if self.neg else 1]

    def __invert__(self):
        if self.neg:
            return Obj('~~p', typ=T_OPERATED, _typ=T_OPERATED, operator=NEGATION, lhs=LITS[self.kind][1])
        return LITS[self.kind][1]

    @property
    def constants(self):
        return frozenset()

    def __repr__(self):
        base = {'atomic': 'p', 'predicated': 'Fa', 'opaque': '[]p'}[self.kind]
        return '~' + base if self.neg else base


T_OPERATED, T_ATOMIC, T_PREDICATED = Obj('Operated'), Obj('Atomic'), Obj('Predicated')
NEGATION = Obj('Operator.Negation')
NEGATION.Negation = NEGATION
OPAQUE_OPERATOR = Obj('Operator.Necessity')
LITS = {k: (Lit(False, k), Lit(True, k)) for k in ('atomic', 'predicated', 'opaque')}
P, NP = LITS['atomic']
WORLD = 5


def node_classes(m: Model):
    """Python mirror classes of the node class hierarchy in proof/common.py (bases read from source)."""
    names = ['Node', 'Modal', 'Designation', 'WorldNode', 'AccessNode', 'DesignationNode', 'SentenceNode',
             'SentenceWorldNode', 'SentenceDesignationNode', 'SentenceDesignationWorldNode', 'FlagNode', 'ClosureNode',
             'QuitFlagNode']
    built = {}

    class NodeBase(dict):
        def get(self, k, d=None):
            return dict.get(self, k, d)

        def __getitem__(self, k):
            if k in self:
                return dict.__getitem__(self, k)
            if k in ('designated', 'world'):       # Node.PropMap.Defaults
                return None
            raise KeyError(k)

        def worlds(self):
            return tuple(v for v in (self.get('world'), self.get('world1'), self.get('world2')) if isinstance(v, int))

        def pair(self):
            return (self['world1'], self['world2'])

        def __hash__(self):          # as proof.common.Node: identity semantics
            return id(self)

        def __eq__(self, other):
            return self is other

        def __ne__(self, other):
            return self is not other

        def __bool__(self):
            return True

    def build(name):
        if name in built:
            return built[name]
        ref = ClassRef(COMMON, name)
        bases = []
        for b in m.bases(ref):
            if b.module == COMMON and b.qualname in names:
                bases.append(build(b.qualname))
        if name == 'Node':
            bases = [NodeBase]
        if not bases:
            bases = [object]
        built[name] = type(name, tuple(bases), {})
        return built[name]
    for n in names:
        build(n)
    return built


def mk_node(classes, s, d, w):
    mp = {'sentence': s}
    name = 'Sentence'
    if d is not None:
        mp['designated'] = d
        name += 'Designation'
    if w is not None:
        mp['world'] = w
        name += 'World'
    n = classes[name + 'Node']()
    n.update(mp)
    return n


class MockBranch:
    def __init__(self, nodes):
        self.nodes = list(nodes)

    def _meets(self, node, mapping):
        try:
            return all(node[k] == mapping[k] for k in mapping)
        except KeyError:
            return False

    def find(self, mapping):
        for n in self.nodes:
            if self._meets(n, mapping):
                return n
        return None

    def has(self, mapping):
        return self.find(mapping) is not None

    def __iter__(self):
        return iter(self.nodes)


def closure_interp(m: Model, rc: ClassRef):
    it, fns, keys = builder_interp(m)
    # builders return MockNode (dict subclass): fine as a `find` mapping
    rule = Obj(f'rule:{rc.name}')
    sfn, _ = m.method(rc, 'sentence')
    if not isinstance(sfn, FuncRef):
        raise AnalysisError(f'{rc}.sentence not found')
    rule.sentence = lambda node: it.call(sfn.node, [rule, node])
    for nm, t in (('Operated', T_OPERATED), ('Atomic', T_ATOMIC), ('Predicated', T_PREDICATED), ('Quantified', Obj('Quantified'))):
        it.g.setdefault(nm, t)
    return it, rule


def partner_table(m: Model, rc: ClassRef, designated_system: bool, kind: str = 'atomic'):
    """For a FindClosingNodeRule: literal (neg, d) -> set of literals (neg', d') it closes with
    *at the same world only*.  Returns (table, fn, problems)."""
    fn, owner = m.method(rc, '_find_closing_node')
    if not isinstance(fn, FuncRef):
        raise AnalysisError(f'{rc}: no _find_closing_node')
    classes = node_classes(m)
    P, NP = LITS[kind]
    it, rule = closure_interp(m, rc)
    it.where = m.floc(fn)
    des = (True, False) if designated_system else (None,)
    lits = [(neg, d) for neg in (False, True) for d in des]
    table = {}
    problems = []
    for neg, d in lits:
        node = mk_node(classes, NP if neg else P, d, WORLD)
        partners = set()
        for neg2, d2 in lits:
            for w2 in (WORLD, WORLD + 1):
                other = mk_node(classes, NP if neg2 else P, d2, w2)
                br = MockBranch([other])
                try:
                    r = it.call(fn.node, [rule, node, br])
                except Raised as e:
                    problems.append(f'raises {e.text} on literal {fmtlit((neg, d))}')
                    r = None
                if r is not None and r is not False:
                    if w2 != WORLD:
                        problems.append(f'literal {fmtlit((neg, d))} closes against {fmtlit((neg2, d2))} at a different world')
                    else:
                        partners.add((neg2, d2))
        table[(neg, d)] = partners
    # non-modal form (no world key at all)
    for neg, d in lits:
        node = mk_node(classes, NP if neg else P, d, None)
        for neg2, d2 in lits:
            other = mk_node(classes, NP if neg2 else P, d2, None)
            try:
                r = it.call(fn.node, [rule, node, MockBranch([other])])
            except Raised as e:
                r = None
            got = r is not None and r is not False
            if got != ((neg2, d2) in table[(neg, d)]):
                problems.append(f'world-less form disagrees for {fmtlit((neg, d))} / {fmtlit((neg2, d2))}')
    return table, fn, problems


def fmtlit(l):
    neg, d = l
    return ('~p' if neg else 'p') + ({True: '+', False: '-', None: ''}[d])


# ---- literal reading ---------------------------------------------------------
class ReadResult(Exception):
    pass


def read_values(m: Model, subset, designated_system, negtable, values, modal=False):
    """Fold BaseModel._read_node / set_literal_value over the literal nodes of `subset`
    on one branch.  Returns dict(value per literal node for the atom p) or an error string."""
    classes = node_classes(m)
    BM = ClassRef(MODELS, 'BaseModel')
    f_read = m.func(MODELS, 'BaseModel._read_node')
    f_setlit = m.func(MODELS, 'BaseModel.set_literal_value')
    it, fns, keys = builder_interp(m)
    it.where = 'models/__init__.py BaseModel._read_node'
    keyobj = it.g['Node'].Key
    for name, cls in classes.items():
        it.g[name] = cls
    classes['Node'].Key = keyobj
    it.g['Operated'] = T_OPERATED
    it.g['Atomic'] = T_ATOMIC
    it.g['Predicated'] = Obj('Predicated')
    it.g['Operator'] = Obj('Operator', Negation=NEGATION)
    w = WORLD if modal else None
    nodes = [mk_node(classes, NP if neg else P, d, w) for neg, d in subset]
    branch = MockBranch(nodes)
    assigned = []

    class Values:
        def __getitem__(self, k):
            k = getattr(k, 'name', k)
            if k not in values:
                raise Raised(f'KeyError value {k!r} not in {values}')
            return k
    model = Obj('model', __srcclass__=(m, ClassRef('pytableaux.models', 'BaseModel')))
    model.values = Values()
    class _R:
        def add(self, pair):
            pass

        def __getitem__(self, k):
            return set()
    model.R = _R()
    model.sentences = set()
    model.constants = set()
    model._check_not_finished = lambda: None
    model.is_sentence_literal = lambda s: True
    model.is_sentence_opaque = lambda s: False
    model.truth_function = lambda oper, v: negtable[v] if oper is NEGATION else (_ for _ in ()).throw(AnalysisError('truth_function of non-negation'))
    model.set_atomic_value = lambda s, value, **kw: assigned.append((value, kw.get('world', 0)))
    model.set_opaque_value = lambda s, value, **kw: assigned.append(('opaque', value))
    model.set_predicated_value = lambda s, value, **kw: assigned.append((value, kw.get('world', 0)))
    model.set_literal_value = lambda s, value, **kw: it.call(f_setlit, [model, s, value], kw)
    out = []
    for node in nodes:
        assigned.clear()
        try:
            it.call(f_read, [model, node, branch])
        except Raised as e:
            return f'_read_node raises {e.text}'
        if len(assigned) != 1:
            return f'_read_node made {len(assigned)} assignments for one literal node'
        out.append(assigned[0])
    return out
