"""A small interpreter for a loop-free subset of Python, used to fold short
*definitions* of the repository (node builders, filter accessors, the literal
reading table, flag predicates) over a finite set of mock inputs supplied by
the checker.  Values are ordinary Python objects built by the caller; the
interpreter only ever touches those mocks -- nothing of the repository is
imported.  Anything outside the subset raises Unsupported (-> ANALYSIS-ERROR)."""
from __future__ import annotations

import ast
import collections
import itertools

from .core import AnalysisError


class Unsupported(AnalysisError):
    pass


class Raised(Exception):
    "the folded definition executes a `raise`"

    def __init__(self, text):
        super().__init__(text)
        self.text = text


class RaisedIndexError(Raised, IndexError):
    "raised by a folded subscript: also an IndexError, so Python protocols driven by mock classes (iteration by index) stop"


class RaisedKeyError(Raised, KeyError):
    pass


class _Return(Exception):
    def __init__(self, value):
        self.value = value


class _Break(Exception):
    pass


class _Continue(Exception):
    pass


class Obj:
    "Generic mock object with attributes; `typ` is what `type(x)` returns."

    def __init__(self, _name, /, typ=None, **attrs):
        self._name, self._typ = _name, typ
        self.__dict__.update(attrs)

    def __repr__(self):
        return f'<{self._name}>'


MISSING = object()
# id(FunctionDef) -> (module tree, enclosing FunctionDef or None, the node itself); filled by sa.model when it parses the package
FN_HOME = {}
# id(module tree) -> (module name, is_package, all trees of the model): lets a fold follow `from .x import NAME` to a module-level constant
TREE_INFO = {}


class Raises:
    "marker value: the folded definition raised instead of returning"

    def __init__(self, text):
        self.text = text

    def __repr__(self):
        return f'<raises {self.text}>'

    def __bool__(self):
        return False


class Interp:
    def __init__(self, globals_: dict, where: str = '', modtree: ast.Module | None = None):
        self.g = dict(globals_)
        self.where = where
        self.yields = []
        self._fnstack = []
        # module-level `name = <expr>` assignments of the folded function's module, evaluated on demand
        self.modns = {}
        if modtree is not None:
            for st in modtree.body:
                if isinstance(st, ast.Assign) and len(st.targets) == 1 and isinstance(st.targets[0], ast.Name):
                    self.modns[st.targets[0].id] = st.value
        import operator as _op
        import functools as _ft
        import itertools as _it
        for nm, f in dict(attrgetter=_op.attrgetter, itemgetter=_op.itemgetter, partial=_ft.partial, reduce=_ft.reduce,
                          chain=_it.chain, repeat=_it.repeat, starmap=_it.starmap, zip_longest=_it.zip_longest, filterfalse=_it.filterfalse,
                          product=_it.product, islice=_it.islice, opr=_op, deque=collections.deque, defaultdict=collections.defaultdict,
                          abs=abs, sum=sum, divmod=divmod, object=object, hash=hash, id=id, callable=callable, repr=repr, slice=slice, float=float).items():
            self.g.setdefault(nm, f)
        self.g.setdefault('type', lambda x: getattr(x, '_typ', type(x)))
        self.g.setdefault('bool', bool)
        self.g.setdefault('len', len)
        self.g.setdefault('isinstance', self._isinstance)
        self.g.setdefault('getattr', lambda o, n, d=MISSING: self._getattr(o, n, d))
        self.g.setdefault('setattr', setattr)
        _absent = object()
        self.g.setdefault('hasattr', lambda o, n: self._getattr(o, n, _absent) is not _absent)
        self.g.setdefault('None', None)
        self.g.setdefault('NotImplemented', NotImplemented)
        self.g.setdefault('Ellipsis', Ellipsis)
        for nm, f in dict(all=all, any=any, tuple=tuple, dict=dict, set=set, frozenset=frozenset, sorted=sorted,
                          zip=zip, enumerate=enumerate, map=map,
                          filter=filter, list=list, str=str, int=int, range=range,
                          min=min, max=max, reversed=lambda x: tuple(reversed(x)), iter=iter, next=next).items():
            self.g.setdefault(nm, f)

    def _isinstance(self, o, t):
        ts = t if isinstance(t, tuple) else (t,)
        for c in ts:
            if isinstance(c, type) and not isinstance(o, Obj) and isinstance(o, c):
                return True
            mro = getattr(getattr(o, '_typ', None), 'mro', None)
            if mro is not None and c in mro:
                return True
            if getattr(o, '_typ', None) is c:
                return True
        return False

    def _getattr(self, o, n, d=MISSING):
        try:
            return getattr(o, n)
        except AttributeError:
            v = self.from_source_class(o, n)
            if v is not MISSING:
                return v
            if d is MISSING:
                raise Raised(f'AttributeError {n}')
            return d

    def fail(self, what):
        return Unsupported(f'{self.where}: {what}')

    def from_source_class(self, o, name, after=None):
        """A mock may name the repository class it stands for (`__srcclass__ = (model, ClassRef)`): an attribute the mock
        does not define is then looked up through that class's MRO and, if it is a method, bound to the mock and folded --
        so lines moved into a new private helper method are followed instead of failing the fold."""
        funcs = getattr(o, '__srcfuncs__', None) if not isinstance(o, type) else None
        if funcs and name in funcs and after is None:
            node, owner = funcs[name], None
        else:
            src = getattr(o, '__srcclass__', None) if not isinstance(o, type) else None
            if not src:
                return MISSING
            m, cls = src
            fn, owner = m.method(cls, name, after)
            node = getattr(fn, 'node', None)
        if not isinstance(node, ast.FunctionDef):
            return self.class_level_container(o, name)
        decos = [ast.unparse(d).split('(')[0] for d in node.decorator_list]

        def call(*a, **k):
            old = self.g.get('super')
            interp = self

            class Sup:
                def __getattribute__(s_, n):
                    v = interp.from_source_class(o, n, after=owner)
                    if v is MISSING:
                        raise Raised(f'AttributeError super().{n}')
                    return v
            self.g['super'] = lambda *x: Sup()
            try:
                if any(isinstance(x, (ast.Yield, ast.YieldFrom)) for x in ast.walk(node)):
                    return iter(self.generate(node, [o, *a], k))
                return self.call(node, [o, *a], k)
            finally:
                self.g['super'] = old
        if any(d in ('property', 'lazy.prop', 'cached_property') for d in decos):
            return call()
        if 'staticmethod' in decos:
            return lambda *a, **k: self.call(node, list(a), k)
        return call

    def class_level_container(self, o, name):
        """A class-level `name = {}` / `[]` / `set()` (or other literal) of the mock's source class: one object shared by every mock of
        that class within this interpreter, as the class attribute is shared by every instance at run time."""
        src = getattr(o, '__srcclass__', None) if not isinstance(o, type) else None
        if not src:
            return MISSING
        m, cls = src
        try:
            mro = m.mro(cls)
        except Exception:
            return MISSING
        for c in mro:
            try:
                ns = m.clsns(c)
            except Exception:
                continue
            if name not in ns:
                continue
            raw = ns[name]
            if not (isinstance(raw, tuple) and raw and raw[0] == 'expr' and isinstance(raw[1], ast.AST)):
                return MISSING
            e = raw[1]
            simple = isinstance(e, (ast.Dict, ast.List, ast.Set, ast.Tuple, ast.Constant)) or \
                (isinstance(e, ast.Call) and isinstance(e.func, ast.Name) and e.func.id in ('dict', 'list', 'set', 'frozenset', 'deque', 'tuple'))
            if not simple:
                return MISSING
            cache = self.__dict__.setdefault('_class_level', {})
            key = (id(m), c, name)
            if key not in cache:
                try:
                    cache[key] = self.ev(e, {})
                except (Unsupported, Raised):
                    return MISSING
            return cache[key]
        return MISSING

    def generate(self, fn, args, kwargs=None):
        "call a generator function; returns the list of yielded values"
        saved, self.yields = self.yields, []
        try:
            self.call(fn, args, kwargs)
            return self.yields
        finally:
            self.yields = saved

    def safe(self, fn, args, kwargs=None):
        """call(), but a `raise` in the folded code (or an error from applying it to
        the mocks) comes back as a Raises marker, so the caller's comparison fails."""
        try:
            return self.call(fn, args, kwargs)
        except Raised as e:
            return Raises(e.text)
        except (TypeError, KeyError, AttributeError, IndexError, ValueError) as e:
            return Raises(f'{type(e).__name__}: {e}')

    def make_closure(self, node, env):
        "a nested `def` / lambda: a callable that folds the body with the defining scope visible (by reference)"
        def closure(*a, **k):
            if isinstance(node, ast.Lambda):
                fake = ast.FunctionDef(name='<lambda>', args=node.args, body=[ast.Return(value=node.body)], decorator_list=[], returns=None)
                return self.call(fake, list(a), k, closure_env=env)
            if any(isinstance(x, (ast.Yield, ast.YieldFrom)) for x in ast.walk(node)):
                saved, self.yields = self.yields, []
                try:
                    self.call(node, list(a), k, closure_env=env)
                    return iter(list(self.yields))
                finally:
                    self.yields = saved
            return self.call(node, list(a), k, closure_env=env)
        closure.__name__ = getattr(node, 'name', '<lambda>')
        return closure

    def call(self, fn: ast.FunctionDef, args: list, kwargs: dict | None = None, closure_env=None):
        a = fn.args
        params = [x.arg for x in a.posonlyargs + a.args]
        env = {} if closure_env is None else collections.ChainMap({}, closure_env)
        if len(args) > len(params) and not a.vararg:
            raise self.fail(f'too many arguments for {fn.name}')
        for p, v in zip(params, args):
            env[p] = v
        if a.vararg:
            env[a.vararg.arg] = tuple(args[len(params):])
        ndef = len(a.defaults)
        for i, p in enumerate(params):
            if p not in env:
                j = i - (len(params) - ndef)
                if kwargs and p in kwargs:
                    env[p] = kwargs[p]
                elif j >= 0:
                    env[p] = self.ev(a.defaults[j], {})
                else:
                    raise self.fail(f'missing argument {p} for {fn.name}')
        for p, dflt in zip(a.kwonlyargs, a.kw_defaults):
            if kwargs and p.arg in kwargs:
                env[p.arg] = kwargs[p.arg]
            elif dflt is not None:
                env[p.arg] = self.ev(dflt, {})
            else:
                raise self.fail(f'missing keyword argument {p.arg}')
        if a.kwarg:
            known = set(params) | {p.arg for p in a.kwonlyargs}
            env[a.kwarg.arg] = {k: v for k, v in (kwargs or {}).items() if k not in known}
        self._fnstack.append(fn)
        try:
            self.run(fn.body, env)
        except _Return as r:
            return r.value
        finally:
            self._fnstack.pop()
        return None

    def run(self, body, env):
        for st in body:
            if isinstance(st, ast.Expr):
                if isinstance(st.value, ast.Constant):
                    continue
                if isinstance(st.value, ast.Yield):
                    self.yields.append(self.ev(st.value.value, env) if st.value.value is not None else None)
                    continue
                if isinstance(st.value, ast.YieldFrom):
                    src = self.ev(st.value.value, env)
                    # the delegate may itself be a folded generator that appends to self.yields: collect it apart
                    saved, self.yields = self.yields, []
                    try:
                        items = list(src.__mock_iter__()) if hasattr(src, '__mock_iter__') else list(src)
                        items = self.yields + items if self.yields and not items else items
                    finally:
                        self.yields = saved
                    self.yields.extend(items)
                    continue
                self.ev(st.value, env)
                continue
            if isinstance(st, ast.FunctionDef):
                f = self.make_closure(st, env)
                for d in reversed(st.decorator_list):
                    dn = ast.unparse(d).split('(')[0]
                    if dn in ('wraps', 'functools.wraps'):
                        continue            # metadata only
                    f = self.ev(d, env)(f)
                env[st.name] = f
                continue
            if isinstance(st, (ast.Import, ast.ImportFrom)):
                # names must be supplied by the caller as globals
                for a in st.names:
                    nm = (a.asname or a.name).split('.')[0]
                    if nm not in self.g and nm not in env:
                        raise self.fail(f'import of `{nm}` has no mock')
                continue
            if isinstance(st, ast.Return):
                raise _Return(self.ev(st.value, env) if st.value is not None else None)
            if isinstance(st, ast.Raise):
                if st.exc is None and '__active_exc__' in env:
                    raise env['__active_exc__']
                if st.exc is not None:
                    # a real exception object/class supplied by the caller's mocks is raised as such
                    try:
                        v = self.ev(st.exc, env)
                    except (Unsupported, Raised):
                        v = None
                    if isinstance(v, BaseException) or (isinstance(v, type) and issubclass(v, BaseException)):
                        raise v
                raise Raised(ast.unparse(st)[:100])
            if isinstance(st, ast.If):
                self.run(st.body if self.truth(self.ev(st.test, env)) else st.orelse, env)
                continue
            if isinstance(st, ast.Assign):
                v = self.ev(st.value, env)
                for t in st.targets:
                    self.assign(t, v, env)
                continue
            if isinstance(st, ast.AugAssign):
                cur = self.ev(st.target, env)
                val = self.ev(st.value, env)
                if isinstance(st.op, ast.Add):
                    cur = cur.__iadd__(val) if hasattr(cur, '__iadd__') else cur + val
                elif isinstance(st.op, ast.Sub):
                    cur = cur - val
                elif isinstance(st.op, ast.BitOr):
                    cur = cur.__ior__(val) if hasattr(cur, '__ior__') else cur | val
                elif isinstance(st.op, ast.BitAnd):
                    cur = cur & val
                elif isinstance(st.op, ast.Mult):
                    cur = cur * val
                else:
                    raise self.fail(f'augmented assignment `{ast.unparse(st)[:60]}`')
                self.assign(st.target, cur, env)
                continue
            if isinstance(st, ast.AnnAssign):
                if st.value is not None:
                    self.assign(st.target, self.ev(st.value, env), env)
                continue
            if isinstance(st, ast.Pass):
                continue
            if isinstance(st, ast.Delete):
                for t in st.targets:
                    if isinstance(t, ast.Subscript):
                        o = self.ev(t.value, env)
                        k = self.ev(t.slice, env) if not isinstance(t.slice, ast.Slice) else slice(
                            self.ev(t.slice.lower, env) if t.slice.lower else None,
                            self.ev(t.slice.upper, env) if t.slice.upper else None,
                            self.ev(t.slice.step, env) if t.slice.step else None)
                        try:
                            del o[k]
                        except (KeyError, IndexError) as err:
                            raise Raised(f'{type(err).__name__} {k!r}')
                    elif isinstance(t, ast.Name):
                        env.pop(t.id, None)
                    elif isinstance(t, ast.Attribute):
                        delattr(self.ev(t.value, env), t.attr)
                    else:
                        raise self.fail(f'del `{ast.unparse(t)}`')
                continue
            if isinstance(st, ast.Break):
                raise _Break()
            if isinstance(st, ast.Continue):
                raise _Continue()
            if isinstance(st, ast.For):
                it = self.ev(st.iter, env)
                if not isinstance(it, (tuple, list, dict, set, frozenset, str, range, type({}.items()), type({}.keys()), type({}.values()), zip, enumerate, collections.deque)) and not hasattr(it, '__mock_iter__') and not hasattr(it, '__next__') and not hasattr(it, '__bound_methods__'):
                    raise self.fail(f'loop over non-concrete value {it!r}')
                if hasattr(it, '__next__'):
                    seq = itertools.islice(it, 0, 201)          # lazily: a `break` must leave the rest unconsumed
                else:
                    seq = list(it.__mock_iter__()) if hasattr(it, '__mock_iter__') else list(it)
                    if len(seq) > 200:
                        raise self.fail('loop too long')
                broke = False
                for item in seq:
                    self.assign(st.target, item, env)
                    try:
                        self.run(st.body, env)
                    except _Break:
                        broke = True
                        break
                    except _Continue:
                        continue
                if not broke:
                    self.run(st.orelse, env)
                continue
            if isinstance(st, ast.With):
                exits = []
                for item in st.items:
                    cm = self.ev(item.context_expr, env)
                    val = cm
                    if hasattr(cm, '__enter__') and callable(getattr(cm, '__enter__', None)):
                        val = cm.__enter__()
                        exits.append(cm)
                    if item.optional_vars is not None:
                        self.assign(item.optional_vars, val, env)
                try:
                    self.run(st.body, env)
                finally:
                    for cm in reversed(exits):
                        if hasattr(cm, '__exit__'):
                            cm.__exit__(None, None, None)
                continue
            if isinstance(st, ast.While):
                n = 0
                broke = False
                while self.truth(self.ev(st.test, env)):
                    n += 1
                    if n > 200:
                        raise self.fail('while loop does not terminate on the mock input (200 iterations)')
                    try:
                        self.run(st.body, env)
                    except _Break:
                        broke = True
                        break
                    except _Continue:
                        continue
                if not broke:
                    self.run(st.orelse, env)
                continue
            if isinstance(st, ast.Try):
                try:
                    self.run(st.body, env)
                except Exception as r:        # noqa: BLE001 -- the folded code's own handlers decide
                    if isinstance(r, (_Return, _Break, _Continue, AnalysisError)):
                        raise
                    text = r.text if isinstance(r, Raised) else type(r).__name__
                    parents = {'KeyError': ('LookupError',), 'IndexError': ('LookupError',)}.get(text, ())
                    for h in st.handlers:
                        names = [] if h.type is None else [ast.unparse(x) for x in (h.type.elts if isinstance(h.type, ast.Tuple) else [h.type])]
                        # handler types that the caller's mocks define as real exception classes are matched by isinstance
                        realmatch = False
                        if h.type is not None and not isinstance(r, Raised):
                            for x in (h.type.elts if isinstance(h.type, ast.Tuple) else [h.type]):
                                try:
                                    cls_ = self.ev(x, env)
                                except (Unsupported, Raised):
                                    continue
                                if isinstance(cls_, type) and issubclass(cls_, BaseException) and isinstance(r, cls_):
                                    realmatch = True
                        if h.type is None or realmatch or any(text.startswith(n) or n in ('Exception', 'BaseException') or n in parents for n in names):
                            if h.name:
                                env[h.name] = r
                            # a bare `raise` in the handler re-raises the very exception (real exception objects included)
                            prev_active = env.get('__active_exc__', MISSING)
                            env['__active_exc__'] = r if isinstance(r, (Raised, BaseException)) else Raised(text)
                            try:
                                self.run(h.body, env)
                            finally:
                                if prev_active is MISSING:
                                    env.pop('__active_exc__', None)
                                else:
                                    env['__active_exc__'] = prev_active
                            break
                    else:
                        raise
                else:
                    self.run(st.orelse, env)
                self.run(st.finalbody, env)
                continue
            raise self.fail(f'statement `{ast.unparse(st)[:70]}`')

    def assign(self, t, v, env):
        if isinstance(t, ast.Name):
            env[t.id] = v
        elif isinstance(t, (ast.Tuple, ast.List)):
            vs = list(v)
            stars = [i for i, x in enumerate(t.elts) if isinstance(x, ast.Starred)]
            if len(stars) == 1:
                i = stars[0]
                after = len(t.elts) - i - 1
                if len(vs) < len(t.elts) - 1:
                    raise Raised('ValueError unpack')
                for a, b in zip(t.elts[:i], vs[:i]):
                    self.assign(a, b, env)
                self.assign(t.elts[i].value, vs[i:len(vs) - after], env)
                for a, b in zip(t.elts[i + 1:], vs[len(vs) - after:]):
                    self.assign(a, b, env)
                return
            if len(vs) != len(t.elts):
                raise Raised('ValueError unpack')
            for a, b in zip(t.elts, vs):
                self.assign(a, b, env)
        elif isinstance(t, ast.Attribute):
            setattr(self.ev(t.value, env), t.attr, v)
        elif isinstance(t, ast.Subscript):
            try:
                self.ev(t.value, env)[self.ev(t.slice, env)] = v
            except (IndexError, KeyError, ValueError) as err:
                raise Raised(f'{type(err).__name__}: {err}')
        else:
            raise self.fail(f'assignment target `{ast.unparse(t)}`')

    def truth(self, v):
        if isinstance(v, Obj) and not hasattr(v, '__bool__'):
            return True
        return bool(v)

    def lookup(self, name, env):
        if name in env:
            return env[name]
        if name in self.g:
            return self.g[name]
        if name == 'True':
            return True
        if name == 'False':
            return False
        if name in self.modns:
            v = self.g[name] = self.ev(self.modns[name], {})
            return v
        v = self.helper_from_home(name)
        if v is not MISSING:
            return v
        raise self.fail(f'unknown name `{name}`')

    def helper_from_home(self, name):
        """A name the caller's mocks do not define: a helper *function* defined next to the function being folded --
        a sibling in the enclosing function (closures) or at module level -- is folded as well (so lines moved into a
        new helper are followed); a module-level `name = <literal/simple expr>` is evaluated."""
        if not self._fnstack:
            return MISSING
        home = FN_HOME.get(id(self._fnstack[-1]))
        if home is None:
            return MISSING
        tree, enclosing, _ = home
        scopes = []
        e = enclosing
        while e is not None:
            scopes.append(e.body)
            h = FN_HOME.get(id(e))
            e = h[1] if h else None
        scopes.append(tree.body)
        for body in scopes:
            for st in body:
                if isinstance(st, ast.FunctionDef) and st.name == name:
                    if any(isinstance(x, (ast.Yield, ast.YieldFrom)) for x in ast.walk(st)):
                        return lambda *a, **k: iter(self.generate(st, list(a), k))
                    return lambda *a, **k: self.call(st, list(a), k)
                if isinstance(st, ast.Assign) and len(st.targets) == 1 and isinstance(st.targets[0], ast.Name) and st.targets[0].id == name:
                    # module level, or a local of the enclosing function that the closure reads (e.g. a hoisted `Key = Cls.Key`)
                    ck = (id(st), name)
                    cache = self.__dict__.setdefault('_home_cache', {})
                    if ck not in cache:
                        try:
                            cache[ck] = self.ev(st.value, {})      # evaluated once: `SENTINEL = object()` must stay one object
                        except (Unsupported, Raised):
                            return MISSING
                    return cache[ck]
        v = self.imported_constant(tree, name, 0)
        if v is not MISSING:
            return v
        return MISSING

    def imported_constant(self, tree, name, depth):
        "a name the module imports from a sibling module of the package where it is a module-level `NAME = <simple expr>` (EMPTY_SET, NOARG, ...)"
        info = TREE_INFO.get(id(tree))
        if info is None or depth > 3:
            return MISSING
        modname, is_pkg, trees = info
        for st in tree.body:
            if not isinstance(st, ast.ImportFrom):
                continue
            for a in st.names:
                if (a.asname or a.name) != name:
                    continue
                base = modname.split('.') if is_pkg else modname.split('.')[:-1]
                if st.level:
                    base = base[:len(base) - (st.level - 1)]
                    target = '.'.join(base + ([st.module] if st.module else []))
                else:
                    target = st.module or ''
                src = trees.get(target)
                if src is None:
                    return MISSING
                for st2 in src.body:
                    if isinstance(st2, ast.Assign) and len(st2.targets) == 1 and isinstance(st2.targets[0], ast.Name) and st2.targets[0].id == a.name:
                        ck = (id(st2), a.name)
                        cache = self.__dict__.setdefault('_home_cache', {})
                        if ck not in cache:
                            try:
                                cache[ck] = self.ev(st2.value, {})
                            except (Unsupported, Raised):
                                return MISSING
                        return cache[ck]
                return self.imported_constant(src, a.name, depth + 1)
        return MISSING

    def _comp(self, gens, i, env, emit):
        if i == len(gens):
            emit(env)
            return
        g = gens[i]
        it = self.ev(g.iter, env)
        seq = list(it.__mock_iter__()) if hasattr(it, '__mock_iter__') else list(it)
        if len(seq) > 256:
            raise self.fail('comprehension too long')
        for item in seq:
            self.assign(g.target, item, env)
            if all(self.truth(self.ev(c, env)) for c in g.ifs):
                self._comp(gens, i + 1, env, emit)

    def ev(self, e, env):
        if isinstance(e, ast.Constant):
            return e.value
        if isinstance(e, ast.Name):
            return self.lookup(e.id, env)
        if isinstance(e, ast.NamedExpr):
            v = self.ev(e.value, env)
            env[e.target.id] = v
            return v
        if isinstance(e, ast.Attribute):
            o = self.ev(e.value, env)
            try:
                return getattr(o, e.attr)
            except AttributeError:
                v = self.from_source_class(o, e.attr)
                if v is not MISSING:
                    return v
                raise Raised(f'AttributeError {e.attr} on {o!r}')
        if isinstance(e, ast.Subscript):
            o = self.ev(e.value, env)
            if isinstance(e.slice, ast.Slice):
                lo = self.ev(e.slice.lower, env) if e.slice.lower else None
                hi = self.ev(e.slice.upper, env) if e.slice.upper else None
                return o[lo:hi]
            k = self.ev(e.slice, env)
            try:
                return o[k]
            except KeyError:
                raise RaisedKeyError(f'KeyError {k!r}')
            except IndexError:
                raise RaisedIndexError(f'IndexError {k!r}')
        if isinstance(e, ast.Compare):
            left = self.ev(e.left, env)
            for op, r in zip(e.ops, e.comparators):
                right = self.ev(r, env)
                if isinstance(op, ast.Is):
                    ok = left is right
                elif isinstance(op, ast.IsNot):
                    ok = left is not right
                elif isinstance(op, ast.Eq):
                    ok = left == right
                elif isinstance(op, ast.NotEq):
                    ok = left != right
                elif isinstance(op, ast.In):
                    ok = left in right
                elif isinstance(op, ast.NotIn):
                    ok = left not in right
                elif isinstance(op, ast.Lt):
                    ok = left < right
                elif isinstance(op, ast.LtE):
                    ok = left <= right
                elif isinstance(op, ast.Gt):
                    ok = left > right
                elif isinstance(op, ast.GtE):
                    ok = left >= right
                else:
                    raise self.fail(f'comparison `{ast.unparse(e)}`')
                if not ok:
                    return False
                left = right
            return True
        if isinstance(e, ast.BoolOp):
            v = None
            for x in e.values:
                v = self.ev(x, env)
                if isinstance(e.op, ast.And) and not self.truth(v):
                    return v
                if isinstance(e.op, ast.Or) and self.truth(v):
                    return v
            return v
        if isinstance(e, ast.UnaryOp):
            v = self.ev(e.operand, env)
            if isinstance(e.op, ast.Not):
                return not self.truth(v)
            if isinstance(e.op, ast.USub):
                return -v
            if isinstance(e.op, ast.Invert):
                return ~v
            if isinstance(e.op, ast.UAdd):
                return +v
        if isinstance(e, ast.BinOp):
            l, r = self.ev(e.left, env), self.ev(e.right, env)
            try:
                if isinstance(e.op, ast.Add):
                    return l + r
                if isinstance(e.op, ast.Sub):
                    return l - r
                if isinstance(e.op, ast.Mult):
                    return l * r
                if isinstance(e.op, ast.BitOr):
                    return l | r
                if isinstance(e.op, ast.BitAnd):
                    return l & r
                if isinstance(e.op, ast.RShift):
                    return l >> r
                if isinstance(e.op, ast.Div):
                    return l / r
                if isinstance(e.op, ast.FloorDiv):
                    return l // r
                if isinstance(e.op, ast.Mod):
                    return l % r
                if isinstance(e.op, ast.BitXor):
                    return l ^ r
                if isinstance(e.op, ast.Pow):
                    return l ** r
            except ZeroDivisionError:
                raise
            except TypeError as err:
                raise self.fail(f'`{ast.unparse(e)}`: {err}')
        if isinstance(e, ast.IfExp):
            return self.ev(e.body if self.truth(self.ev(e.test, env)) else e.orelse, env)
        if isinstance(e, ast.Tuple):
            out = []
            for x in e.elts:
                if isinstance(x, ast.Starred):
                    out.extend(self.ev(x.value, env))
                else:
                    out.append(self.ev(x, env))
            return tuple(out)
        if isinstance(e, (ast.List, ast.Set)):
            out = []
            for x in e.elts:
                if isinstance(x, ast.Starred):
                    out.extend(self.ev(x.value, env))
                else:
                    out.append(self.ev(x, env))
            return out if isinstance(e, ast.List) else set(out)
        if isinstance(e, ast.Lambda):
            return self.make_closure(e, env)
        if isinstance(e, ast.Dict):
            d = {}
            for k, v in zip(e.keys, e.values):
                if k is None:
                    d.update(self.ev(v, env))
                else:
                    d[self.ev(k, env)] = self.ev(v, env)
            return d
        if isinstance(e, ast.JoinedStr):
            parts = []
            for v in e.values:
                if isinstance(v, ast.Constant):
                    parts.append(str(v.value))
                elif isinstance(v, ast.FormattedValue):
                    try:
                        x = self.ev(v.value, env)
                        parts.append(repr(x) if v.conversion == ord('r') else str(x))
                    except Unsupported:
                        parts.append('<?>')
            return ''.join(parts)
        if isinstance(e, (ast.GeneratorExp, ast.ListComp, ast.SetComp)):
            out = []
            self._comp(e.generators, 0, dict(env), lambda env2: out.append(self.ev(e.elt, env2)))
            # a generator expression is a one-pass iterator, as at run time (next(gen, default), exhaustion)
            return set(out) if isinstance(e, ast.SetComp) else (out if isinstance(e, ast.ListComp) else iter(out))
        if isinstance(e, ast.DictComp):
            out = {}
            self._comp(e.generators, 0, dict(env), lambda env2: out.__setitem__(self.ev(e.key, env2), self.ev(e.value, env2)))
            return out
        if isinstance(e, ast.Call):
            f = self.ev(e.func, env)
            args = []
            for a in e.args:
                if isinstance(a, ast.Starred):
                    args.extend(self.ev(a.value, env))
                else:
                    args.append(self.ev(a, env))
            kw = {}
            for k in e.keywords:
                if k.arg is None:
                    kw.update(self.ev(k.value, env))
                else:
                    kw[k.arg] = self.ev(k.value, env)
            if not callable(f):
                raise self.fail(f'call of non-callable {f!r} in `{ast.unparse(e)[:60]}`')
            return f(*args, **kw)
        raise self.fail(f'expression `{ast.unparse(e)[:70]}`')
