"""E0 -- static source model of pytableaux: modules, lazily evaluated module and
class namespaces, C3 MROs, class-level constant evaluation, attribute lookup
through the MRO.  Works on the syntax trees only."""
from __future__ import annotations

import ast
import functools
import pathlib

from .core import AnalysisError

PKG = 'pytableaux'


class Unknown:
    def __init__(self, why):
        self.why = why

    def __repr__(self):
        return f'Unknown({self.why})'


class ModuleRef:
    def __init__(self, name):
        self.name = name

    def __repr__(self):
        return f'<mod {self.name}>'

    def __eq__(self, o):
        return isinstance(o, ModuleRef) and o.name == self.name

    def __hash__(self):
        return hash(('m', self.name))


class ClassRef:
    def __init__(self, module, qualname):
        self.module, self.qualname = module, qualname

    def __repr__(self):
        return f'<cls {self.module.split(".")[-1]}:{self.qualname}>'

    def __eq__(self, o):
        return isinstance(o, ClassRef) and (o.module, o.qualname) == (self.module, self.qualname)

    def __hash__(self):
        return hash(('c', self.module, self.qualname))

    @property
    def name(self):
        return self.qualname.split('.')[-1]

    @property
    def short(self):
        return f'{self.module.split(".")[-1]}.{self.qualname}'


def register_functions(tree):
    "tell the subset interpreter where each function lives (module tree, enclosing function), for helper lookups"
    from .minieval import FN_HOME

    def walk(node, enclosing):
        for ch in ast.iter_child_nodes(node):
            if isinstance(ch, (ast.FunctionDef, ast.AsyncFunctionDef)):
                FN_HOME[id(ch)] = (tree, enclosing, ch)
                walk(ch, ch)
            else:
                walk(ch, enclosing)
    walk(tree, None)


class FuncRef:
    def __init__(self, module, qualname, node):
        self.module, self.qualname, self.node = module, qualname, node

    def __repr__(self):
        return f'<fn {self.module.split(".")[-1]}:{self.qualname}>'

    @property
    def owner(self):
        return ClassRef(self.module, self.qualname.rsplit('.', 1)[0]) if '.' in self.qualname else None


class EnumRef:
    "Operator.X / Quantifier.X / Predicate.X member reference"

    def __init__(self, enum, member):
        self.enum, self.member = enum, member

    def __repr__(self):
        return f'{self.enum}.{self.member}'

    def __eq__(self, o):
        return isinstance(o, EnumRef) and (o.enum, o.member) == (self.enum, self.member)

    def __hash__(self):
        return hash(('e', self.enum, self.member))


class ExternalRef:
    "Name imported from outside the package (stdlib etc.) or a builtin"

    def __init__(self, name):
        self.name = name

    def __repr__(self):
        return f'<ext {self.name}>'

    def __eq__(self, o):
        return isinstance(o, ExternalRef) and o.name == self.name

    def __hash__(self):
        return hash(('x', self.name))


ENUMS = {'Operator', 'Quantifier'}
OTHER = {'Existential': 'Universal', 'Universal': 'Existential',
         'Assertion': 'Negation', 'Negation': 'Assertion',
         'Conjunction': 'Disjunction', 'Disjunction': 'Conjunction',
         'MaterialConditional': 'MaterialBiconditional', 'MaterialBiconditional': 'MaterialConditional',
         'Conditional': 'Biconditional', 'Biconditional': 'Conditional',
         'Possibility': 'Necessity', 'Necessity': 'Possibility'}
# run-time patches performed by the closure `init()` in logics/__init__.py;
# recorded as explicit aliases and *checked* by logics.check_aliases().
ALIASES = {
    ('pytableaux.logics', 'LogicType.Model'): ('pytableaux.models', 'BaseModel'),
    ('pytableaux.logics', 'LogicType.System'): ('pytableaux.proof', 'System'),
}


class Model:
    def __init__(self, root):
        self.root = pathlib.Path(root)
        self.trees: dict[str, ast.Module] = {}
        self.paths: dict[str, pathlib.Path] = {}
        self.sources: dict[str, str] = {}
        pkgdir = self.root / PKG
        if not pkgdir.is_dir():
            raise AnalysisError(f'no package directory {pkgdir}')
        for p in sorted(pkgdir.rglob('*.py')):
            rel = p.relative_to(self.root).with_suffix('')
            parts = list(rel.parts)
            if parts[-1] == '__init__':
                parts.pop()
            name = '.'.join(parts)
            src = p.read_text()
            try:
                self.trees[name] = ast.parse(src, filename=str(p))
                register_functions(self.trees[name])
                from .minieval import TREE_INFO
                TREE_INFO[id(self.trees[name])] = (name, parts[-1:] != [] and p.name == '__init__.py', self.trees)
            except SyntaxError as e:
                raise AnalysisError(f'{p}: does not parse: {e}')
            self.paths[name] = p
            self.sources[name] = src
        self._modns: dict[str, dict] = {}
        self._classes: dict[ClassRef, ast.ClassDef] = {}
        self._clsns: dict[ClassRef, dict] = {}
        self._clsscope: dict[ClassRef, tuple] = {}
        self._mro: dict[ClassRef, tuple] = {}
        self._parents: dict[str, dict] = {}

    # ---------- locations -------------
    def relfile(self, modname):
        return str(self.paths[modname].relative_to(self.root))

    def loc(self, modname, node=None):
        if node is None:
            return self.relfile(modname)
        return f'{self.relfile(modname)}:{getattr(node, "lineno", 0)}'

    def floc(self, fn: FuncRef):
        return f'{self.relfile(fn.module)}:{fn.node.lineno} {fn.qualname}'

    def logic_modules(self):
        return [n for n in sorted(self.trees) if n.startswith(PKG + '.logics.')]

    # ---------- module namespaces (lazy) -------------
    def is_pkg(self, name):
        return self.paths[name].name == '__init__.py'

    def resolve_import(self, modname, level, target):
        if level == 0:
            return target
        base = modname.split('.')
        if not self.is_pkg(modname):
            base = base[:-1]
        base = base[:len(base) - (level - 1)]
        return '.'.join(base + ([target] if target else []))

    def modns(self, name) -> dict:
        if name in self._modns:
            return self._modns[name]
        if name not in self.trees:
            raise AnalysisError(f'module {name} not found in {self.root}')
        ns = self._modns[name] = {}
        self._exec_body(self.trees[name].body, ns, name, '', (ns,))
        return ns

    def _exec_body(self, body, ns, modname, qualprefix, scopes):
        for st in body:
            if isinstance(st, ast.If):
                t = st.test
                if isinstance(t, ast.Name) and t.id == 'TYPE_CHECKING':
                    self._exec_body(st.orelse, ns, modname, qualprefix, scopes)
                    continue
                self._exec_body(st.body, ns, modname, qualprefix, scopes)
                self._exec_body(st.orelse, ns, modname, qualprefix, scopes)
            elif isinstance(st, ast.Try):
                self._exec_body(st.body, ns, modname, qualprefix, scopes)
                self._exec_body(st.orelse, ns, modname, qualprefix, scopes)
            elif isinstance(st, ast.Import):
                for a in st.names:
                    if a.name.startswith(PKG):
                        ns[(a.asname or a.name).split('.')[0]] = ModuleRef(a.name if a.asname else a.name.split('.')[0])
                    else:
                        ns[(a.asname or a.name).split('.')[0]] = ExternalRef(a.name)
            elif isinstance(st, ast.ImportFrom):
                src = self.resolve_import(modname, st.level, st.module or '')
                for a in st.names:
                    asname = a.asname or a.name
                    if not src.startswith(PKG):
                        ns[asname] = ExternalRef(f'{src}.{a.name}')
                        continue
                    sub = f'{src}.{a.name}'
                    if sub in self.trees:
                        ns[asname] = ModuleRef(sub)
                    else:
                        ns[asname] = ('lazy', src, a.name)
            elif isinstance(st, ast.ClassDef):
                qn = f'{qualprefix}{st.name}'
                ref = ClassRef(modname, qn)
                self._classes[ref] = st
                self._clsscope[ref] = scopes
                ns[st.name] = ref
            elif isinstance(st, (ast.FunctionDef, ast.AsyncFunctionDef)):
                ns[st.name] = FuncRef(modname, f'{qualprefix}{st.name}', st)
            elif isinstance(st, ast.Assign):
                for t in st.targets:
                    if isinstance(t, ast.Name):
                        ns[t.id] = ('expr', st.value, modname, scopes)
                    elif isinstance(t, ast.Tuple) and all(isinstance(e, ast.Name) for e in t.elts):
                        for i, e in enumerate(t.elts):
                            ns[e.id] = ('expr', ast.Subscript(value=st.value, slice=ast.Constant(i), ctx=ast.Load()),
                                        modname, scopes)
            elif isinstance(st, ast.AnnAssign) and st.value is not None and isinstance(st.target, ast.Name):
                ns[st.target.id] = ('expr', st.value, modname, scopes)

    def force(self, v):
        guard = 0
        while isinstance(v, tuple) and v and v[0] in ('lazy', 'expr'):
            guard += 1
            if guard > 50:
                return Unknown('alias cycle')
            if v[0] == 'lazy':
                _, src, nm = v
                v = self.modattr(src, nm)
            else:
                _, expr, modname, scopes = v
                v = self.eval(expr, modname, scopes)
        return v

    def modattr(self, modname, name):
        if modname not in self.trees:
            return Unknown(f'module {modname}')
        ns = self.modns(modname)
        if name in ns:
            return self.force(ns[name])
        sub = f'{modname}.{name}'
        if sub in self.trees:
            return ModuleRef(sub)
        return Unknown(f'{modname}.{name}')

    # ---------- classes -------------
    def clsdef(self, ref: ClassRef) -> ast.ClassDef:
        if ref not in self._classes:
            if ref.module not in self.trees:
                raise AnalysisError(f'class {ref}: module not found')
            self.modns(ref.module)
            parts = ref.qualname.split('.')
            for i in range(1, len(parts)):
                outer = ClassRef(ref.module, '.'.join(parts[:i]))
                if outer in self._classes:
                    self.clsns(outer)
        if ref not in self._classes:
            raise AnalysisError(f'class {ref.module}:{ref.qualname} not found')
        return self._classes[ref]

    def has_class(self, ref):
        try:
            self.clsdef(ref)
            return True
        except AnalysisError:
            return False

    def clsns(self, ref: ClassRef) -> dict:
        if ref in self._clsns:
            return self._clsns[ref]
        node = self.clsdef(ref)
        ns = self._clsns[ref] = {}
        scopes = self._clsscope[ref] + (ns,)
        self._exec_body(node.body, ns, ref.module, ref.qualname + '.', scopes)
        return ns

    def bases(self, ref: ClassRef):
        node = self.clsdef(ref)
        out = []
        for b in node.bases:
            v = self.eval(b, ref.module, self._clsscope[ref])
            if isinstance(v, ClassRef):
                out.append(self.alias(v))
        return out

    def alias(self, ref):
        k = (ref.module, ref.qualname)
        if k in ALIASES:
            return ClassRef(*ALIASES[k])
        return ref

    def clskw(self, ref):
        return {k.arg: k.value for k in self.clsdef(ref).keywords}

    def mro(self, ref: ClassRef):
        if ref in self._mro:
            return self._mro[ref]
        bs = self.bases(ref)
        seqs = [list(self.mro(b)) for b in bs] + [list(bs)]
        res = [ref]
        while True:
            seqs = [s for s in seqs if s]
            if not seqs:
                break
            for s in seqs:
                cand = s[0]
                if not any(cand in t[1:] for t in seqs):
                    break
            else:
                raise AnalysisError(f'inconsistent MRO for {ref}')
            res.append(cand)
            for s in seqs:
                if s[0] == cand:
                    del s[0]
        self._mro[ref] = tuple(res)
        return self._mro[ref]

    def getattr(self, ref: ClassRef, name, default=None, with_owner=False):
        for c in self.mro(ref):
            ns = self.clsns(c)
            if name in ns:
                v = self.force(ns[name])
                return (v, c) if with_owner else v
        return (default, None) if with_owner else default

    def getraw(self, ref: ClassRef, name):
        "The defining statement's value AST (for class-level `x = expr`), with owner."
        for c in self.mro(ref):
            ns = self.clsns(c)
            if name in ns:
                return ns[name], c
        return None, None

    def issub(self, ref, base):
        return base in self.mro(ref)

    def method(self, ref: ClassRef, name, after: ClassRef | None = None):
        "Resolve a method through the MRO (optionally starting after a class, as super() does)."
        mro = self.mro(ref)
        start = mro.index(after) + 1 if after is not None else 0
        for c in mro[start:]:
            ns = self.clsns(c)
            if name in ns:
                v = self.force(ns[name])
                if isinstance(v, FuncRef):
                    return v, c
                return v, c
        return None, None

    # ---------- expression evaluation (class-level constants) -------------
    def lookup(self, name, modname, scopes):
        for ns in reversed(scopes):
            if name in ns:
                return self.force(ns[name])
        if name in ('True', 'False', 'None'):
            return {'True': True, 'False': False, 'None': None}[name]
        return ExternalRef(f'builtins.{name}')

    def eval(self, e, modname, scopes):
        if isinstance(e, ast.Constant):
            return e.value
        if isinstance(e, ast.Name):
            return self.lookup(e.id, modname, scopes)
        if isinstance(e, ast.Attribute):
            v = self.eval(e.value, modname, scopes)
            return self.attr(v, e.attr)
        if isinstance(e, (ast.Tuple, ast.List)):
            out = []
            for x in e.elts:
                if isinstance(x, ast.Starred):
                    v = self.eval(x.value, modname, scopes)
                    if not isinstance(v, tuple):
                        return Unknown(f'star {ast.unparse(x)}')
                    out.extend(v)
                else:
                    out.append(self.eval(x, modname, scopes))
            return tuple(out)
        if isinstance(e, ast.Subscript):
            v = self.eval(e.value, modname, scopes)
            if isinstance(v, ClassRef):
                return v  # Generic[...] subscription
            if isinstance(v, tuple):
                i = self.eval(e.slice, modname, scopes)
                if isinstance(i, int) and not isinstance(i, bool) and -len(v) <= i < len(v):
                    return v[i]
            return Unknown(ast.unparse(e))
        if isinstance(e, ast.Call):
            f = self.eval(e.func, modname, scopes)
            args = []
            for a in e.args:
                if isinstance(a, ast.Starred):
                    v = self.eval(a.value, modname, scopes)
                    if not isinstance(v, tuple):
                        return Unknown(f'star {ast.unparse(a)}')
                    args.extend(v)
                else:
                    args.append(self.eval(a, modname, scopes))
            if isinstance(f, FuncRef) and f.qualname == 'group' and f.module == 'pytableaux.tools':
                return tuple(args)
            if isinstance(f, ExternalRef):
                base = f.name.split('.')[-1]
                if base == 'chain':
                    out = []
                    for a in args:
                        if not isinstance(a, tuple):
                            return Unknown('chain')
                        out.extend(a)
                    return tuple(out)
                if base in ('tuple', 'list', 'frozenset', 'set') and len(args) == 1 and isinstance(args[0], tuple):
                    return args[0]
                if base == 'staticmethod' and len(args) == 1:
                    return args[0]
                if base == 'dict' and not args:
                    return {k.arg: self.eval(k.value, modname, scopes) for k in e.keywords}
                if base == 'MappingProxyType' and len(args) == 1:
                    return args[0]
            return Unknown(f'call {ast.unparse(e)[:60]}')
        if isinstance(e, ast.Dict):
            return {self.eval(k, modname, scopes) if k else None: self.eval(v, modname, scopes)
                    for k, v in zip(e.keys, e.values)}
        if isinstance(e, ast.UnaryOp) and isinstance(e.op, ast.USub):
            v = self.eval(e.operand, modname, scopes)
            return -v if isinstance(v, (int, float)) else Unknown('neg')
        if isinstance(e, ast.BinOp) and isinstance(e.op, ast.Add):
            l, r = self.eval(e.left, modname, scopes), self.eval(e.right, modname, scopes)
            if isinstance(l, tuple) and isinstance(r, tuple):
                return l + r
        return Unknown(ast.unparse(e)[:60])

    def attr(self, v, name):
        if isinstance(v, ModuleRef):
            return self.modattr(v.name, name)
        if isinstance(v, ClassRef):
            v = self.alias(v)
            if v.qualname in ENUMS and v.module == 'pytableaux.lang.lex':
                return EnumRef(v.qualname, name)
            if v.qualname == 'Predicate' and v.module == 'pytableaux.lang.lex' and name in ('Identity', 'Existence'):
                return EnumRef('Predicate', name)
            a = (v.module, f'{v.qualname}.{name}')
            if a in ALIASES:
                return ClassRef(*ALIASES[a])
            return self.getattr(v, name, Unknown(f'{v}.{name}'))
        if isinstance(v, EnumRef) and name == 'other':
            return EnumRef(v.enum, OTHER[v.member])
        if isinstance(v, ExternalRef):
            return ExternalRef(f'{v.name}.{name}')
        return Unknown(f'{v}.{name}')

    # ---------- plain AST helpers -------------
    def functions(self, modname):
        "All function definitions of a module: {qualname: FunctionDef}"
        out = {}

        def walk(body, prefix):
            for st in body:
                if isinstance(st, (ast.FunctionDef, ast.AsyncFunctionDef)):
                    out[prefix + st.name] = st
                    walk(st.body, prefix + st.name + '.<locals>.')
                elif isinstance(st, ast.ClassDef):
                    walk(st.body, prefix + st.name + '.')
                elif isinstance(st, (ast.If, ast.Try, ast.With, ast.For, ast.While)):
                    typing_only = isinstance(st, ast.If) and ast.unparse(st.test) in ('TYPE_CHECKING', 'typing.TYPE_CHECKING')
                    for fld in ('body', 'orelse', 'finalbody'):
                        if typing_only and fld == 'body':
                            continue        # overload stubs / typing-only declarations never exist at run time
                        walk(getattr(st, fld, []) or [], prefix)
                    for h in getattr(st, 'handlers', []) or []:
                        walk(h.body, prefix)
        walk(self.trees[modname].body, '')
        return out

    def func(self, modname, qualname) -> ast.FunctionDef:
        if modname not in self.trees:
            raise AnalysisError(f'anchor module {modname} vanished')
        f = self.functions(modname).get(qualname)
        if f is None:
            raise AnalysisError(f'anchor function {modname}:{qualname} vanished')
        return f

    def classnode(self, modname, qualname) -> ast.ClassDef:
        return self.clsdef(ClassRef(modname, qualname))

    def parents(self, modname):
        if modname not in self._parents:
            pm = {}
            for n in ast.walk(self.trees[modname]):
                for c in ast.iter_child_nodes(n):
                    pm[c] = n
            self._parents[modname] = pm
        return self._parents[modname]
