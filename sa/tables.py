"""E3 -- truth-table and generaliser extraction by finite-domain constant
propagation over the *definitions* in the source (TruthFunction methods,
value_of_quantified / value_of_operated / _unquantify_values / _unmodal_values).
Nothing is imported or executed; only loop-free definitions are folded."""
from __future__ import annotations

import ast
import itertools

from .core import AnalysisError
from .logics import Logic, Logics
from .model import ClassRef, EnumRef, ExternalRef, FuncRef, Model, Unknown

MODELS = 'pytableaux.models'


class Unsupported(AnalysisError):
    "Construct outside the supported extraction subset"


class Raises(Exception):
    "The folded definition raises (e.g. NotImplementedError) on this input"

    def __init__(self, what):
        super().__init__(what)
        self.what = what


class Val:
    "A truth value member (name, num) of a value class."
    __slots__ = ('name', 'num')

    def __init__(self, name, num):
        self.name, self.num = name, num

    def __repr__(self):
        return self.name

    def __eq__(self, o):
        if isinstance(o, Val):
            return o.name == self.name
        if isinstance(o, str):
            return o == self.name
        if isinstance(o, (int, float)) and not isinstance(o, bool):
            return o == self.num
        return NotImplemented

    def __hash__(self):
        return hash(self.name)


class Domain:
    def __init__(self, members):
        self.members = [Val(n, v) for n, v in members]
        self.byname = {v.name: v for v in self.members}

    def get(self, key):
        if isinstance(key, Val):
            if key.name in self.byname:
                return self.byname[key.name]
            raise Raises(f'values[{key!r}]')
        if isinstance(key, str):
            if key in self.byname:
                return self.byname[key]
            raise Raises(f'values[{key!r}]')
        if isinstance(key, (int, float)) and not isinstance(key, bool):
            for v in self.members:
                if v.num == key:
                    return v
            raise Raises(f'values[{key!r}]')
        raise Unsupported(f'values[{key!r}]')

    def __iter__(self):
        return iter(self.members)

    def __len__(self):
        return len(self.members)

    @property
    def names(self):
        return [v.name for v in self.members]

    @property
    def maxval(self):
        return max(self.members, key=lambda v: v.num)

    @property
    def minval(self):
        return min(self.members, key=lambda v: v.num)


class Stream:
    """An iterable that yields every element of `vals` at least once, in an
    unknown order (the values of the instances / accessible worlds)."""

    def __init__(self, vals):
        self.vals = frozenset(vals)

    def __repr__(self):
        return f'Stream({sorted(v.name for v in self.vals)})'


class Bound:
    "A bound method reference: (kind, name, after-class)"

    def __init__(self, kind, name, after=None):
        self.kind, self.name, self.after = kind, name, after

    def __repr__(self):
        return f'<bound {self.kind}.{self.name}>'


SELF, SUPER, TFOBJ, META = 'SELF', 'SUPER', 'TFOBJ', 'META'


class Evaluator:
    """Partial evaluator shared by the truth-function level (self = a
    TruthFunction instance) and the model level (self = a model instance)."""

    def __init__(self, lgs: Logics, lg: Logic):
        self.lgs, self.m, self.lg = lgs, lgs.m, lg
        self.dom = Domain(lg.values)
        self.trace: set[str] = set()
        self.stream_problems: set[tuple] = set()
        self.kw_drops: set[tuple] = set()       # (caller location, callee): evaluation keywords (world=...) not passed on
        self._cur: list = []
        self._aci: dict[str, bool] = {}
        self._depth = 0

    # ---- method resolution ---------------------------------------------
    def _resolve(self, cls: ClassRef, name, after=None):
        v, owner = self.m.method(cls, name, after)
        if v is None:
            raise Raises(f'AttributeError {name}')
        if not isinstance(v, FuncRef):
            raise Unsupported(f'{cls}.{name} is not a plain function: {v}')
        # `Assertion = B3E.Model.TruthFunction.Assertion`: the function's own class is
        # where `super()` would look from -- but such borrowed functions do not use super().
        return v, owner

    def call_tf(self, name, args, after=None):
        fn, owner = self._resolve(self.lg.tfcls, name, after)
        return self._call(fn, owner, 'tf', args)

    def call_model(self, name, args, after=None):
        fn, owner = self._resolve(self.lg.modelcls, name, after)
        return self._call(fn, owner, 'model', args)

    def _call(self, fn: FuncRef, owner, kind, args):
        self._depth += 1
        if self._depth > 60:
            raise Unsupported(f'recursion too deep in {fn}')
        self._cur.append(fn)
        try:
            self.trace.add(self.m.floc(fn))
            node = fn.node
            a = node.args
            params = [x.arg for x in a.posonlyargs + a.args]
            env = {params[0]: SELF}
            rest = params[1:]
            if a.vararg:
                for p, v in zip(rest, args):
                    env[p] = v
                env[a.vararg.arg] = tuple(args[len(rest):])
            else:
                if len(rest) != len(args):
                    raise Raises(f'TypeError: {fn.qualname} takes {len(rest)} arguments, {len(args)} given')
                for p, v in zip(rest, args):
                    env[p] = v
            if a.kwarg:
                env[a.kwarg.arg] = 'KW'
            for p in a.kwonlyargs:
                env[p.arg] = 'KWONLY'
            prim = self._primitive(fn, kind)
            if prim is not None:
                return prim(env)
            r = self.run(node.body, env, owner, kind)
            return r[1] if r else None
        finally:
            self._depth -= 1
            self._cur.pop()

    # ---- recognised primitives (definitions with a loop over unbounded data) ----
    def _primitive(self, fn: FuncRef, kind):
        if kind != 'model':
            if fn.qualname.endswith('TruthFunction.generalize') and fn.module == MODELS:
                return self._prim_generalize(fn)
            return None
        if fn.node.name in ('_unquantify_values', '_unmodal_values') and \
                any(isinstance(n, (ast.Yield, ast.YieldFrom)) for n in ast.walk(fn.node)):
            # A generator over the model's constants / accessible worlds.  It is taken to yield the
            # instance values (the abstract stream); that it really visits every constant / world once,
            # with the evaluation keywords, is decided by folding it over mocks -- a mismatch is
            # recorded and reported by C08.R1, it is not hidden.
            msg = self._fold_stream_generator(fn)
            if msg:
                self.stream_problems.add((self.m.floc(fn), msg))
            return lambda env: Stream(self.instance_values)
        return None

    def _fold_stream_generator(self, fn):
        from .minieval import Interp, Obj, Unsupported as MUnsupported
        it = Interp({}, where=self.m.floc(fn))

        class Const:
            def __init__(self, n):
                self.n = n

            def __rshift__(self, s):
                return ('inst', self.n, s)
        try:
            if fn.node.name == '_unquantify_values':
                mdl = Obj('model', constants=[Const(1), Const(2)])
                mdl.value_of = lambda s, **kw: (s, tuple(sorted(kw.items())))
                r = it.generate(fn.node, [mdl, 'S'], dict(world=4))
                want = [(('inst', 1, 'S'), (('world', 4),)), (('inst', 2, 'S'), (('world', 4),))]
                what = 'the value of every constant instance once, with the evaluation keywords'
            else:
                mdl = Obj('model', R={0: [5, 6], 5: [7]})
                mdl.value_of = lambda s, **kw: (s, tuple(sorted(kw.items())))
                r = it.generate(fn.node, [mdl, Obj('s', lhs='A')], dict(world=0))
                want = [('A', (('world', 5),)), ('A', (('world', 6),))]
                what = "the operand's value at every world accessible from the given world"
        except MUnsupported as e:
            raise Unsupported(str(e))
        except Exception as e:
            return f'raises {type(e).__name__}: {e}'
        if r != want:
            return f'does not yield {what}: {r!r}'
        return None

    def _prim_generalize(self, fn):
        # the primitive below stands for `reduce(getattr(self, Operator(generalizers.get(oper, oper)).name), it, *initial)`;
        # that reading is confirmed by folding the definition on concrete mock cases (not by matching its text)
        from .minieval import Interp as _MI, Obj as _MO, Raised as _MR
        import functools as _ft

        def OperatorM(v):
            if v not in ('OpX', 'OpY'):
                raise ValueError(v)
            return _MO(v, name=v)
        tfm = _MO('truth-function', generalizers={'QA': 'OpX'}, OpX=lambda a, b: ('X', a, b), OpY=lambda a, b: ('Y', a, b))
        mi = _MI(dict(Operator=OperatorM, reduce=_ft.reduce), where='models/__init__.py TruthFunction.generalize')
        for oper, vals, init in (('QA', [1, 2, 3], ()), ('OpY', [1, 2], (0,)), ('OpY', [], (9,)), ('OpX', [5], ())):
            want = _ft.reduce(getattr(tfm, {'QA': 'OpX'}.get(oper, oper)), vals, *init)
            try:
                got = mi.call(fn.node, [tfm, oper, iter(vals), *init])
            except (_MR, TypeError, ValueError, AttributeError, KeyError) as e:
                got = f'raises {type(e).__name__}'
            if got != want:
                raise Unsupported(f'{self.m.floc(fn)}: TruthFunction.generalize({oper}, {vals}, *{init}) folds to {got!r}, not the reduce over the generalizer operator {want!r}')

        def prim(env):
            params = [x.arg for x in fn.node.args.posonlyargs + fn.node.args.args]
            oper, it = env[params[1]], env[params[2]]
            extra = env.get(fn.node.args.vararg.arg, ()) if fn.node.args.vararg else ()
            gen = self.m.getattr(self.lg.tfcls, 'generalizers')
            if not isinstance(gen, dict):
                raise Unsupported(f'TruthFunction.generalizers not a literal mapping: {gen}')
            target = gen.get(oper, oper)
            if not isinstance(target, EnumRef) or target.enum != 'Operator':
                raise Raises(f'ValueError Operator({target})')
            if not isinstance(it, Stream):
                raise Unsupported('generalize over a non-stream')
            return self.fold(target.member, it, extra)
        return prim

    def fold(self, opname, stream: Stream, extra):
        """reduce(binary-table, stream, [initial]) with the stream yielding each of
        its values >= 1 times in unknown order.  Sound only if the result does not
        depend on order/multiplicity: proved by an ACI check of the table; if the
        table is not ACI every order/multiplicity (<= 2) is tried and must agree."""
        vals = sorted(stream.vals, key=lambda v: v.num)
        if extra:
            init = extra[0]
        elif not vals:
            raise Raises('TypeError: reduce() of empty iterable with no initial value')
        else:
            init = None
        f = lambda a, b: self.call_tf(opname, [a, b])
        if self.is_aci(opname):
            acc = init
            for v in vals:
                acc = v if acc is None else f(acc, v)
            return acc
        results = set()
        seqs = set()
        for mult in itertools.product((1, 2), repeat=len(vals)):
            bag = [v for v, k in zip(vals, mult) for _ in range(k)]
            for perm in set(itertools.permutations(bag)):
                seqs.add(perm)
        for perm in seqs:
            acc = init
            for v in perm:
                acc = v if acc is None else f(acc, v)
            results.add(acc)
        if len(results) != 1:
            raise OrderDependent(opname, [v.name for v in vals], sorted(r.name for r in results))
        return results.pop()

    def is_aci(self, opname):
        if opname not in self._aci:
            V = list(self.dom)
            f = lambda a, b: self.call_tf(opname, [a, b])
            ok = all(f(a, a) == a for a in V) and all(f(a, b) == f(b, a) for a in V for b in V) and \
                all(f(f(a, b), c) == f(a, f(b, c)) for a in V for b in V for c in V)
            self._aci[opname] = ok
        return self._aci[opname]

    # ---- statement interpreter ------------------------------------------
    def run(self, body, env, owner, kind):
        for st in body:
            if isinstance(st, ast.Expr):
                if isinstance(st.value, ast.Constant):
                    continue
                if isinstance(st.value, ast.Call):
                    f = st.value.func
                    if isinstance(f, ast.Attribute) and isinstance(f.value, ast.Name) and env.get(f.value.id) == SELF \
                            and f.attr in ('_check_finished', '_check_not_finished'):
                        continue
                raise Unsupported(f'statement {ast.unparse(st)[:60]}')
            if isinstance(st, ast.Return):
                return ('ret', self.ev(st.value, env, owner, kind) if st.value is not None else None)
            if isinstance(st, ast.Raise):
                raise Raises(ast.unparse(st)[:80])
            if isinstance(st, ast.If):
                c = self.truth(self.ev(st.test, env, owner, kind))
                r = self.run(st.body if c else st.orelse, env, owner, kind)
                if r:
                    return r
                continue
            if isinstance(st, ast.Assign) and len(st.targets) == 1 and isinstance(st.targets[0], ast.Name):
                env[st.targets[0].id] = self.ev(st.value, env, owner, kind)
                continue
            if isinstance(st, ast.Pass):
                continue
            if isinstance(st, ast.Try) and not st.finalbody:
                try:
                    r = self.run(st.body, env, owner, kind)
                except Raises as e:
                    for h in st.handlers:
                        names = [] if h.type is None else [ast.unparse(x) for x in (h.type.elts if isinstance(h.type, ast.Tuple) else [h.type])]
                        if h.type is None or any(str(e.what).startswith(n) for n in names) or 'Exception' in names:
                            r = self.run(h.body, env, owner, kind)
                            break
                    else:
                        raise
                else:
                    if not r:
                        r = self.run(st.orelse, env, owner, kind)
                if r:
                    return r
                continue
            raise Unsupported(f'statement {ast.unparse(st)[:60]}')
        return None

    def truth(self, v):
        if isinstance(v, bool):
            return v
        if v is None:
            return False
        if isinstance(v, (frozenset, tuple)):
            return bool(v)
        raise Unsupported(f'truth value of {v!r}')

    def num(self, v):
        if isinstance(v, Val):
            return v.num
        if isinstance(v, (int, float)) and not isinstance(v, bool):
            return v
        raise Unsupported(f'number from {v!r}')

    def same(self, a, b):
        if a is b:
            return True
        if isinstance(a, Val) and isinstance(b, Val):
            return a.name == b.name
        if isinstance(a, EnumRef) and isinstance(b, EnumRef):
            return a == b
        if isinstance(a, (bool, type(None))) or isinstance(b, (bool, type(None))):
            return a is b
        raise Unsupported(f'identity of {a!r} / {b!r}')

    def equal(self, a, b):
        if isinstance(a, Val) or isinstance(b, Val):
            r = (a == b) if isinstance(a, Val) else (b == a)
            return r is True
        if isinstance(a, EnumRef) and isinstance(b, EnumRef):
            return a == b
        if isinstance(a, (int, float, str, bool, type(None))) and isinstance(b, (int, float, str, bool, type(None))):
            return a == b
        raise Unsupported(f'equality of {a!r} / {b!r}')

    # ---- expression interpreter ------------------------------------------
    def ev(self, e, env, owner, kind):
        if isinstance(e, ast.Constant):
            return e.value
        if isinstance(e, ast.Name):
            if e.id in env:
                return env[e.id]
            raise Unsupported(f'name {e.id}')
        if isinstance(e, ast.Attribute):
            return self.evattr(e, env, owner, kind)
        if isinstance(e, ast.Subscript):
            v = self.ev(e.value, env, owner, kind)
            i = self.ev(e.slice, env, owner, kind)
            if isinstance(v, Domain):
                return v.get(i)
            if isinstance(v, tuple) and isinstance(i, int) and not isinstance(i, bool):
                if -len(v) <= i < len(v):
                    return v[i]
                raise Raises('IndexError')
            raise Unsupported(ast.unparse(e))
        if isinstance(e, ast.Compare):
            left = self.ev(e.left, env, owner, kind)
            for op, r in zip(e.ops, e.comparators):
                right = self.ev(r, env, owner, kind)
                if isinstance(op, ast.Eq):
                    ok = self.equal(left, right)
                elif isinstance(op, ast.NotEq):
                    ok = not self.equal(left, right)
                elif isinstance(op, ast.Gt):
                    ok = self.num(left) > self.num(right)
                elif isinstance(op, ast.Lt):
                    ok = self.num(left) < self.num(right)
                elif isinstance(op, ast.GtE):
                    ok = self.num(left) >= self.num(right)
                elif isinstance(op, ast.LtE):
                    ok = self.num(left) <= self.num(right)
                elif isinstance(op, ast.Is):
                    ok = self.same(left, right)
                elif isinstance(op, ast.IsNot):
                    ok = not self.same(left, right)
                elif isinstance(op, (ast.In, ast.NotIn)):
                    if not isinstance(right, (frozenset, tuple)):
                        raise Unsupported(f'membership in {right!r}')
                    ok = any(self.equal(left, x) for x in right)
                    if isinstance(op, ast.NotIn):
                        ok = not ok
                else:
                    raise Unsupported(ast.unparse(e))
                if not ok:
                    return False
                left = right
            return True
        if isinstance(e, ast.BoolOp):
            if isinstance(e.op, ast.And):
                for v in e.values:
                    if not self.truth(self.ev(v, env, owner, kind)):
                        return False
                return True
            for v in e.values:
                if self.truth(self.ev(v, env, owner, kind)):
                    return True
            return False
        if isinstance(e, ast.UnaryOp):
            v = self.ev(e.operand, env, owner, kind)
            if isinstance(e.op, ast.Not):
                return not self.truth(v)
            if isinstance(e.op, ast.USub) and isinstance(v, (int, float)) and not isinstance(v, bool):
                return -v
            raise Unsupported(ast.unparse(e))
        if isinstance(e, ast.IfExp):
            c = self.truth(self.ev(e.test, env, owner, kind))
            return self.ev(e.body if c else e.orelse, env, owner, kind)
        if isinstance(e, ast.BinOp):
            l, r = self.ev(e.left, env, owner, kind), self.ev(e.right, env, owner, kind)
            ops = {ast.FloorDiv: lambda a, b: a // b, ast.Sub: lambda a, b: a - b, ast.Add: lambda a, b: a + b,
                   ast.Div: lambda a, b: a / b, ast.Mult: lambda a, b: a * b}
            f = ops.get(type(e.op))
            if f is None:
                raise Unsupported(ast.unparse(e))
            # Mval arithmetic: Mval OP x -> type(self)(value OP x) ; x OP Mval -> plain number
            try:
                if isinstance(l, Val):
                    return self.dom.get(f(l.num, self.num(r)))
                if isinstance(r, Val):
                    return f(self.num(l), r.num)
                return f(self.num(l), self.num(r))
            except ZeroDivisionError:
                raise Raises('ZeroDivisionError')
        if isinstance(e, (ast.Tuple, ast.List)):
            return tuple(self.ev(x, env, owner, kind) for x in e.elts)
        if isinstance(e, (ast.GeneratorExp, ast.ListComp, ast.SetComp)):
            # a comprehension over a concrete tuple / stream of values
            if len(e.generators) != 1 or not isinstance(e.generators[0].target, ast.Name):
                raise Unsupported(f'comprehension {ast.unparse(e)[:60]}')
            g = e.generators[0]
            src = self.ev(g.iter, env, owner, kind)
            vals = src.vals if isinstance(src, Stream) else src
            if not isinstance(vals, (tuple, list, frozenset)):
                raise Unsupported(f'comprehension over {src!r}')
            out = []
            for item in vals:
                env2 = dict(env)
                env2[g.target.id] = item
                if all(self.truth(self.ev(c, env2, owner, kind)) for c in g.ifs):
                    out.append(self.ev(e.elt, env2, owner, kind))
            if isinstance(src, Stream):
                return Stream(out)
            return frozenset(out) if isinstance(e, ast.SetComp) else tuple(out)
        if isinstance(e, ast.Call):
            return self.evcall(e, env, owner, kind)
        raise Unsupported(f'expression {ast.unparse(e)[:60]}')

    def evattr(self, e, env, owner, kind):
        base = self.ev(e.value, env, owner, kind)
        a = e.attr
        if base == SELF:
            if a == 'values':
                return self.dom
            if a == 'maxval':
                return self.dom.maxval
            if a == 'minval':
                return self.dom.minval
            if kind == 'model':
                if a == 'valseq':
                    return tuple(self.dom.members)
                if a == 'truth_function':
                    return TFOBJ
                if a == 'Meta':
                    return META
                return Bound('model', a)
            return Bound('tf', a)
        if base == TFOBJ:
            if a in ('values', 'maxval', 'minval'):
                return {'values': self.dom, 'maxval': self.dom.maxval, 'minval': self.dom.minval}[a]
            return Bound('tf', a)
        if base == SUPER:
            return Bound(kind, a, owner)
        if base == META:
            if a == 'quantified':
                return self.lg.quantified
            if a == 'modal':
                return self.lg.modal
            if a == 'modal_operators':
                return frozenset(EnumRef('Operator', o) for o in self.lgs.lex.modal_operators)
            if a == 'truth_functional_operators':
                return frozenset(EnumRef('Operator', o) for o in self.lgs.lex.truth_functional)
            if a == 'unassigned_value':
                return self.dom.get(self.lg.unassigned)
            if a == 'designated_values':
                return frozenset(self.dom.get(x) for x in self.lg.designated)
            raise Unsupported(f'Meta.{a}')
        if isinstance(base, Domain):
            return base.get(a)
        if isinstance(base, EnumRef):
            if a == 'index':
                return self.lgs.lex.index(base.enum, base.member)
            if a == 'other':
                return EnumRef(base.enum, self.lgs.lex.other[base.member])
            if a == 'name':
                return base.member
            if a == 'arity' and base.enum == 'Operator':
                return self.lgs.lex.arity[base.member]
            seq = self.lgs.lex.operators if base.enum == 'Operator' else self.lgs.lex.quantifiers
            if a in seq:
                return EnumRef(base.enum, a)
            raise Unsupported(f'{base}.{a}')
        if isinstance(base, tuple) and base and base[0] == 'sent':
            # symbolic sentence ('sent', kind, EnumRef)
            if a == 'quantifier' and base[1] == 'q':
                return base[2]
            if a == 'operator' and base[1] == 'o':
                return base[2]
            raise Unsupported(f'sentence.{a}')
        raise Unsupported(f'attribute {ast.unparse(e)} on {base!r}')

    def evargs(self, e, env, owner, kind):
        out = []
        for a in e.args:
            if isinstance(a, ast.Starred):
                v = self.ev(a.value, env, owner, kind)
                if not isinstance(v, tuple):
                    raise Unsupported(f'star of {v!r}')
                out.extend(v)
            else:
                out.append(self.ev(a, env, owner, kind))
        for k in e.keywords:
            if k.arg is None:
                v = self.ev(k.value, env, owner, kind)
                if v != 'KW':
                    raise Unsupported('**kwargs')
            else:
                raise Unsupported(f'keyword argument {k.arg}')
        return out

    def apply(self, f, args):
        if isinstance(f, Bound):
            if f.kind == 'tf':
                return self.call_tf(f.name, args, after=f.after)
            return self.call_model(f.name, args, after=f.after)
        raise Unsupported(f'call of {f!r}')

    def evcall(self, e, env, owner, kind):
        fn = e.func
        if isinstance(fn, ast.Name) and fn.id not in env:
            if fn.id == 'super' and not e.args:
                return SUPER
            args = self.evargs(e, env, owner, kind)
            if fn.id in ('min', 'max'):
                seq = list(args[0]) if len(args) == 1 else args
                if isinstance(args[0], Stream) and len(args) == 1:
                    seq = list(args[0].vals)
                if not seq:
                    raise Raises(f'ValueError {fn.id}() of empty')
                # ties impossible (distinct numeric values inside one domain)
                return (min if fn.id == 'min' else max)(seq, key=self.num)
            if fn.id == 'map':
                if isinstance(args[1], Stream):
                    return Stream(self.apply(args[0], [x]) for x in args[1].vals)
                return tuple(self.apply(args[0], [x]) for x in args[1])
            if fn.id == 'starmap':
                return tuple(self.apply(args[0], list(x)) for x in args[1])
            if fn.id in ('set', 'frozenset') and len(args) == 1 and isinstance(args[0], (Stream, tuple, frozenset)):
                return frozenset(args[0].vals if isinstance(args[0], Stream) else args[0])
            if fn.id == 'len' and len(args) == 1 and isinstance(args[0], (frozenset, tuple)):
                return len(args[0])
            if fn.id == 'getattr' and len(args) >= 2 and args[0] == SELF and isinstance(args[1], str):
                v, _own = self.m.method(self.lg.tfcls if kind == 'tf' else self.lg.modelcls, args[1])
                if v is None:
                    if len(args) == 3:
                        return args[2]
                    raise Raises(f'AttributeError {args[1]}')
                return Bound(kind, args[1])
            if fn.id in ('Operator', 'Quantifier') and len(args) == 1 and isinstance(args[0], EnumRef):
                return args[0]
            if fn.id in ('maxceil', 'minfloor') and len(args) == 3:
                # contract (tools.maxceil/minfloor, checked structurally in C08):
                # max / min of the iterable, `default` when it is empty
                limit, it, default = args
                if not isinstance(it, Stream):
                    raise Unsupported(f'{fn.id} over {it!r}')
                if not it.vals:
                    if default is None:
                        raise Raises('ValueError empty')
                    return default
                return (max if fn.id == 'maxceil' else min)(it.vals, key=self.num)
            raise Unsupported(f'call {fn.id}()')
        f = self.ev(fn, env, owner, kind)
        args = self.evargs(e, env, owner, kind)
        if isinstance(f, Bound) and f.kind == 'model' and 'KW' in [v for v in env.values() if isinstance(v, str)] \
                and not any(k.arg is None for k in e.keywords) and f.name.startswith(('value_of', '_unquantify', '_unmodal')):
            self.kw_drops.add((self.m.floc(self._cur[-1]) if self._cur else '?', f.name))
        return self.apply(f, args)

    # ---- tables -------------------------------------------------------------
    def table(self, opname, via_call=True):
        """Table of an operator as model evaluation obtains it: through
        TruthFunction.__call__(oper, *args) (via_call) or from the method itself."""
        n = self.lgs.lex.arity[opname]
        out = {}
        for tup in itertools.product(list(self.dom), repeat=n):
            if via_call:
                r = self.call_tf('__call__', [EnumRef('Operator', opname)] + list(tup))
            else:
                r = self.call_tf(opname, list(tup))
            if not isinstance(r, Val):
                raise Unsupported(f'{self.lg.name}.{opname}{tup} -> {r!r}')
            out[tuple(v.name for v in tup)] = r.name
        return out

    instance_values = frozenset()

    def generalise(self, which, S):
        """Value of `Qx.phi` (which = ('Quantifier', Q)) or of a modal `O phi`
        (which = ('Operator', O)) when the set of instance values is S."""
        self.instance_values = frozenset(self.dom.get(x) for x in S)
        enum, member = which
        ref = EnumRef(enum, member)
        if enum == 'Quantifier':
            r = self.call_model('value_of_quantified', [('sent', 'q', ref)])
        else:
            r = self.call_model('value_of_operated', [('sent', 'o', ref)])
        if not isinstance(r, Val):
            raise Unsupported(f'{self.lg.name}: generaliser {member}({sorted(S)}) -> {r!r}')
        return r.name


class OrderDependent(AnalysisError):
    def __init__(self, op, vals, results):
        super().__init__(f'fold of {op} over {vals} depends on order/multiplicity: {results}')
        self.op, self.vals, self.results = op, vals, results


class Semantics:
    """Complete extracted semantics of one logic: operator tables, designated
    set, quantifier and modal generalisers as functions on sets of values."""

    def __init__(self, lgs: Logics, lg: Logic):
        self.lg = lg
        self.ev = Evaluator(lgs, lg)
        self.V = [n for n, _ in lg.values]
        self.D = set(lg.designated)
        lex = lgs.lex
        self.arity = lex.arity
        self.tables = {op: self.ev.table(op) for op in lex.truth_functional}
        self.tables_direct = {op: self.ev.table(op, via_call=False) for op in lex.truth_functional}
        self.gen: dict[str, dict[frozenset, str]] = {}
        subsets = [frozenset(c) for r in range(0, len(self.V) + 1) for c in itertools.combinations(self.V, r)]
        self.subsets = subsets
        if lg.quantified:
            for q in lex.quantifiers:
                self.gen[q] = {}
                for S in subsets:
                    try:
                        self.gen[q][S] = self.ev.generalise(('Quantifier', q), S)
                    except Raises as r:
                        self.gen[q][S] = None
        if lg.modal:
            for o in lex.modal_operators:
                self.gen[o] = {}
                for S in subsets:
                    try:
                        self.gen[o][S] = self.ev.generalise(('Operator', o), S)
                    except Raises:
                        self.gen[o][S] = None
        self.consulted = sorted(self.ev.trace)
        self.kw_drops = sorted(self.ev.kw_drops)
        self.stream_problems = sorted(self.ev.stream_problems)

    def op(self, name, *args):
        return self.tables[name][tuple(args)]

    def neg(self, v):
        return self.tables['Negation'][(v,)]
