"""Static analysis of owings1/pytableaux (never imports or runs the package)."""
