"""C01 -- a 'valid' verdict is sound in every logic (premises of the soundness induction)."""
from __future__ import annotations

import ast
import re

from .. import astq, lifecycle, trunk
from ..closure import node_classes
from ..core import AnalysisError, Report
from ..minieval import Interp, Obj, Raised
from ..model import ClassRef
from . import common

LEVEL = 'other'
EXPLANATION = (
    "Static analysis. Soundness of a closed tableau is the textbook induction whose premises are local; each premise is decided for every logic and rule: (R1) the verdict plumbing (folded over all flag states; PREMATURE cleared only when no rule applies and the step limit is not hit), (R2) the trunk shape of every logic (folded build_trunk), (R3) only the reviewed engine sites add nodes/close/tick branches, (R4) AdzHelper._apply and Tableau.branch apply a schema faithfully (folded), (R5) every expansion rule is sound on every valuation under the logic's own extracted semantics, (R6) closure rules close only unsatisfiable literal sets, (R7) witnesses are fresh (C06), (R8) rules deriving a node from two branch nodes tie the new node's world to both. It does not decide the behaviour of any particular proof run, schedules or tie-breaks. (R9) IdentityIndiscernability folded over mock branches with several worlds: substitutions only into same-world predicate nodes.")
TRUSTED = ['CPython ast', 'sa.model / sa.schema / sa.tables extractors', 'sa.minieval',
           'set-of-values abstraction for quantifier/modal semantics']
ASSUMPTIONS = ['branch receivers are named `branch`/`b`/`*.branch` as everywhere in the package (R3 is a name-convention who-may-call)',
               'first-order soundness beyond the set-of-instance-values abstraction (identity x quantifiers) is not claimed']

HELPERS = 'pytableaux.proof.helpers'
RULES = 'pytableaux.proof.rules'
TAB = 'pytableaux.proof.tableaux'
COMMON = 'pytableaux.proof.common'
CPL = 'pytableaux.logics.cpl'

BRANCH_MUTATORS = ('append', 'extend', 'tick', 'close')
ALLOWED_MUTATION_SITES = {
    ('pytableaux.proof', 'RuleMeta.induce_branching'): 'class-creation probe on a private scratch tableau',
    (HELPERS, 'AdzHelper._apply'): 'the one place rule schemas are applied',
    (HELPERS, 'EllipsisExampleHelper.add_node'): 'documentation helper; must not be a Helper of any logic rule',
    (TAB, 'Rule.test'): 'test utility on a private tableau',
    (RULES, 'ClosingRule._apply'): 'closing a branch',
    ('pytableaux.logics.fde', 'System.build_trunk'): 'trunk',
    ('pytableaux.logics.cpl', 'System.build_trunk'): 'trunk',
}


def is_branch_receiver(txt):
    return txt in ('branch', 'b') or txt.endswith('.branch') or re.search(r'\.branch\([^()]*\)$', txt) is not None


def run(ctx, rep):
    m = ctx.m
    common.check_floors(ctx, rep, 'C01')
    r1(ctx, rep)
    r2(ctx, rep)
    r3(ctx, rep)
    r4(ctx, rep)
    R5 = rep.rule('C01.R5', 'every expansion rule is sound: node satisfiable => some extension satisfiable, on every '
                            'valuation (operators), every set of instance values (quantifiers), every set of accessible-world values (modal)')
    counts = common.exactness(ctx, rep, 'C01.R5', ('unsound',))
    rep.floor('C01.R5', 'rule slots', sum(counts.values()), common.FLOOR_OPERATOR_SLOTS + common.FLOOR_QUANTIFIER_SLOTS + common.FLOOR_MODAL_SLOTS)
    # R6, R7: import the relevant findings of C05 / C06
    from . import c05, c06
    R6 = rep.rule('C01.R6', 'closure rules close only unsatisfiable literal sets, at one world (C05.R1/R2/R4 sound half)')
    sub = Report('C05', rep.tier, rep.repo)
    c05.run(ctx, sub)
    n = 0
    for rid, r in sub.rules.items():
        if rid in ('C05.R1', 'C05.R2', 'C05.R4', 'C05.R0'):
            n += r['instances']
    for _ in range(n):
        rep.instance(R6, ok=True)
    rep.consulted |= sub.consulted
    for f in sub.findings:
        if f.rule in ('C05.R0', 'C05.R1', 'C05.R4') or (f.rule == 'C05.R2' and 'closed-but-satisfiable' in f.key):
            rep.rules[R6]['failed'] += 1
            rep.discharged -= 1
            rep.finding(R6, f.key.replace('C05.', 'C01.R6/C05.', 1), f.where, f.construct, f.msg)
    R7 = rep.rule('C01.R7', 'witnesses are fresh (all C06 rules)')
    sub = Report('C06', rep.tier, rep.repo)
    c06.run(ctx, sub)
    n = sum(r['instances'] for r in sub.rules.values())
    for _ in range(n):
        rep.instance(R7, ok=True)
    rep.consulted |= sub.consulted
    for f in sub.findings:
        rep.rules[R7]['failed'] += 1
        rep.discharged -= 1
        rep.finding(R7, f.key.replace('C06.', 'C01.R7/C06.', 1), f.where, f.construct, f.msg)
    r8(ctx, rep)
    r9(ctx, rep)


def r1(ctx, rep):
    m = ctx.m
    R1 = rep.rule('C01.R1', 'verdict plumbing: valid/invalid non-None only when FINISHED, not PREMATURE and an argument is set; '
                            'valid <=> no open branch; PREMATURE is cleared only in step() when next() is None and the step limit is not exceeded')
    res, cons = lifecycle.fold_verdicts(m)
    rep.consult(*cons)
    for ok, case, detail in res:
        rep.instance(R1, ok=ok, nontrivial=case)
        if not ok:
            rep.finding(R1, f'C01.R1/{case}', cons[0], 'Tableau verdict properties', f'{case}: {detail}')
    clears = [w for w in lifecycle.flag_writes(m) if w[1] in ('&=~', '=', '?') and not (w[0] == 'Tableau.__init__' and w[1] == '=')]
    astq.need(clears, 'no statement clears PREMATURE: a tableau could never complete')
    for qn, op, bits, guards, st in clears:
        ok = qn == 'Tableau.step' and bits == ('PREMATURE',) and op == '&=~'
        rep.instance(R1, ok=bool(ok), sample=dict(stmt=astq.u(st)), nontrivial=('clear', qn))
        if not ok:
            rep.finding(R1, f'C01.R1/clear/{qn}/{"+".join(bits)}', m.loc(TAB, st), qn,
                        f'`{astq.u(st)}` clears/overwrites flag bits outside step()')
    # when step() clears it: folded over all states (limit hit / nothing applicable / entry applicable)
    for fold in (lifecycle.fold_step, lifecycle.fold_next):
        res, cons = fold(m)
        rep.consult(*cons)
        for ok, case, detail in res:
            rep.instance(R1, ok=ok, nontrivial=(fold.__name__, case))
            if not ok:
                rep.finding(R1, f'C01.R1/{fold.__name__[5:]}/{case}', cons[0].split(' ')[0], f'Tableau.{fold.__name__[5:]}', f'{case}: {detail}')


def r2(ctx, rep):
    m = ctx.m
    R2 = rep.rule('C01.R2', 'trunk: premises designated/true and conclusion undesignated/negated, at world 0 iff modal (folded build_trunk)')
    n = 0
    for lg in ctx.lgs:
        owner, fn, nodes = trunk.trunk_of(m, lg.systemcls, lg.modal)
        fam = trunk.classify(nodes, lg.modal)
        ok = fam is not None and lg.systemcls.module == lg.module
        n += 1
        rep.instance(R2, ok=ok, sample=dict(logic=lg.name, trunk=[list(x) for x in nodes], built_by=owner.short), nontrivial=lg.name)
        rep.consult(m.floc(fn))
        if fam is None:
            rep.finding(R2, f'C01.R2/{lg.name}/trunk', m.floc(fn), f'{lg.name}.System.build_trunk',
                        f'trunk for premises P1,P2 and conclusion C is {nodes}: not (P+,P+,C-) nor (P,P,~C) at the logic\'s root world')
        elif lg.systemcls.module != lg.module:
            rep.finding(R2, f'C01.R2/{lg.name}/system-module', m.relfile(lg.module), f'{lg.name}.System',
                        'System class is not defined in the logic\'s own module, so `cls.modal` is another logic\'s')
    rep.floor('C01.R2', 'logics', n, 57)


def r3(ctx, rep):
    m = ctx.m
    R3 = rep.rule('C01.R3', 'only the reviewed engine sites append/extend/tick/close a branch; _nodes is appended only in Branch.append')
    n = 0
    allowed = None
    for mod, qn, fn in astq.iter_functions(m):
        if mod.startswith('pytableaux.web') or mod.startswith('pytableaux.tools.doc'):
            continue
        sites = []
        if allowed is None:
            # private helper methods called only from a reviewed site belong to it
            allowed = set(ALLOWED_MUTATION_SITES)
            for (amod, aqn) in list(ALLOWED_MUTATION_SITES):
                if '.' in aqn:
                    allowed |= {(amod, q) for q in astq.helper_closure(m, amod, aqn.rsplit('.', 1)[0], {q_ for mo_, q_ in ALLOWED_MUTATION_SITES if mo_ == amod})}
        for c in astq.calls(fn, nested=False):
            f = c.func
            if isinstance(f, ast.Attribute) and f.attr in BRANCH_MUTATORS and is_branch_receiver(astq.u(f.value)):
                sites.append(c)
        for node in astq.walk_no_nested(fn):
            if isinstance(node, ast.AugAssign) and isinstance(node.op, ast.Add) and is_branch_receiver(astq.u(node.target)):
                sites.append(node)
        for s in sites:
            n += 1
            inside_branch = mod == COMMON and qn.startswith('Branch.')
            ok = inside_branch or (mod, qn) in allowed
            rep.instance(R3, ok=ok, sample=dict(site=f'{mod}:{qn}', stmt=astq.u(s)[:60]), nontrivial=(mod, qn))
            if not ok:
                rep.finding(R3, f'C01.R3/{mod}:{qn}', m.loc(mod, s), qn,
                            f'`{astq.u(s)[:70]}` mutates a branch outside the reviewed engine sites')
    rep.floor('C01.R3', 'branch mutation sites', n, 12)
    for mod, qn, fn, c in astq.method_calls_on_attr(m, '_nodes', ('append', 'add', 'insert', 'extend', 'remove', 'pop', 'clear', 'discard', 'update')):
        ok = mod == COMMON and qn == 'Branch.append' and c.func.attr == 'append'
        rep.instance(R3, ok=ok, nontrivial=('_nodes', qn))
        if not ok:
            rep.finding(R3, f'C01.R3/_nodes/{mod}:{qn}', m.loc(mod, c), qn, f'`{astq.u(c)}` changes a branch\'s node sequence outside Branch.append')
    # the documentation helper must not be a Helper of any logic rule
    for lg in ctx.lgs:
        for gi, rc in list(lg.all_group_rules()) + [(None, c) for c in lg.closure]:
            for c in m.mro(rc):
                raw, _ = (m.clsns(c).get('Helpers'), c)
                if raw is not None and 'EllipsisExampleHelper' in astq.u(raw[1]):
                    rep.finding(R3, f'C01.R3/EllipsisExampleHelper/{rc.short}', m.relfile(c.module), rc.short,
                                'a logic rule uses the documentation helper that adds nodes')
    # Branch.close only appends the closure node; extend only maps append
    # Branch.close / extend / += folded: they go through Branch.append (one node at a time, in order)
    itb = Interp(dict(ClosureNode=lambda mp: ('ClosureNode', dict(mp)), Node=Obj('Node', PropMap=Obj('PropMap', Closure={'flag': 'closure'})), Mapping=dict,
                      isinstance=isinstance), where='proof/common.py Branch.close/extend')

    def mkbranch():
        log = []
        b_ = Obj('branch', __srcclass__=(m, ClassRef(COMMON, 'Branch')))
        b_.append = lambda node: (log.append(node), b_)[1]
        b_.extend = lambda nodes: itb.call(m.func(COMMON, 'Branch.extend'), [b_, nodes])
        return b_, log
    for name in ('close', 'extend', '__iadd__'):
        fn = m.func(COMMON, f'Branch.{name}')
        b_, log = mkbranch()
        if name == 'close':
            r = itb.safe(fn, [b_])
            ok = r is b_ and len(log) == 1 and isinstance(log[0], tuple) and log[0][0] == 'ClosureNode'
        elif name == 'extend':
            r = itb.safe(fn, [b_, iter(['n1', 'n2', 'n3'])])
            ok = r is b_ and log == ['n1', 'n2', 'n3']
        else:
            r = itb.safe(fn, [b_, ['n1', 'n2']])
            b2, log2 = mkbranch()
            r2 = itb.safe(fn, [b2, {'sentence': 'S'}])
            ok = r is b_ and log == ['n1', 'n2'] and r2 is b2 and log2 == [{'sentence': 'S'}]
        rep.instance(R3, ok=ok, nontrivial=f'Branch.{name}')
        if not ok:
            rep.finding(R3, f'C01.R3/Branch.{name}', m.loc(COMMON, fn), f'Branch.{name}', f'does not add its nodes through Branch.append, in order (appended {log}, returned {r!r})')


class MBranch:
    def __init__(self, nodes=None, parent=None):
        self.nodes = list(nodes or [])
        self.parent = parent
        self.ticked = []
        self.closed_ = False

    def extend(self, nodes):
        self.nodes.extend(nodes)
        return self

    def tick(self, node):
        self.ticked.append(node)
        return self

    def close(self):
        self.closed_ = True
        return self

    def copy(self, parent=None, **kw):
        return MBranch(self.nodes, parent)


def r4(ctx, rep):
    m = ctx.m
    R4 = rep.rule('C01.R4', 'AdzHelper._apply extends the target branch with the first group and a fresh copy of it with each '
                            'further group; Tableau.branch(parent) copies the parent; ClosingRule._apply only closes (folded)')
    fn = m.func(HELPERS, 'AdzHelper._apply')
    tb = m.func(TAB, 'Tableau.branch')
    rep.consult(m.loc(HELPERS, fn) + ' AdzHelper._apply', m.loc(TAB, tb) + ' Tableau.branch')
    it = Interp(dict(Branch=lambda: MBranch()), where='AdzHelper._apply')
    for ngroups in (1, 2, 3):
        for ticking in (True, False):
            base = MBranch(['n0', 'n1'])
            snapshot = list(base.nodes)
            created = []
            tableau = Obj('tableau', __srcclass__=(m, ClassRef(TAB, 'Tableau')))
            tableau.add = lambda branch: created.append(branch)
            tableau.branch = lambda parent=None: it.call(tb, [tableau], dict(parent=parent)) if parent is not None else it.call(tb, [tableau])
            adds = tuple(tuple(f'g{i}n{j}' for j in range(2)) for i in range(ngroups))

            class Tgt(dict):
                pass
            target = Tgt(adds=adds)
            target.branch, target.node = base, 'n1'
            helper = Obj('adz', __srcclass__=(m, ClassRef(HELPERS, 'AdzHelper')), tableau=tableau, rule=Obj('rule', ticking=ticking))
            try:
                it.call(fn, [helper, target])
            except Raised as e:
                raise AnalysisError(f'AdzHelper._apply fold: {e.text}')
            probs = []
            if base.nodes != snapshot + list(adds[0]):
                probs.append(f'target branch holds {base.nodes[len(snapshot):]} instead of the first group')
            if len(created) != ngroups - 1:
                probs.append(f'{len(created)} new branches for {ngroups} groups')
            for i, b in enumerate(created, 1):
                if b.parent is not base or b.nodes != snapshot + list(adds[i]):
                    probs.append(f'branch {i} is not the parent\'s nodes + group {i}: {b.nodes}')
            for b in [base] + created:
                if (b.ticked == ['n1']) != ticking:
                    probs.append('ticking does not follow rule.ticking')
            case = f'{ngroups} groups ticking={ticking}'
            rep.instance(R4, ok=not probs, nontrivial=case)
            for p in probs:
                rep.finding(R4, f'C01.R4/AdzHelper._apply/{case}/{p}', m.loc(HELPERS, fn), 'AdzHelper._apply', p)
    # ClosingRule._apply folded: closes exactly the target's branch, adds nothing
    ca = m.func(RULES, 'ClosingRule._apply')
    rep.consult(m.loc(RULES, ca) + ' ClosingRule._apply')
    from ..minieval import Interp as _I4, Obj as _O4
    log = []
    tb = _O4('branch', close=lambda: log.append('close'), append=lambda n_: log.append(('append', n_)), extend=lambda ns: log.append(('extend', ns)))
    other = _O4('other-branch', close=lambda: log.append('close-other'))
    tgt = _O4('target', branch=tb, get=lambda k, d=None: {'branch': tb}.get(k, d))
    tgt.__class__ = type('T', (_O4,), {'__getitem__': lambda s_, k: {'branch': tb}[k]})
    rule = _O4('rule', __srcclass__=(m, ClassRef(RULES, 'ClosingRule')), tableau=_O4('tableau', open=[other, tb]))
    r = _I4({}, where='proof/rules.py ClosingRule._apply', modtree=m.trees[RULES]).safe(ca, [rule, tgt])
    ok = log == ['close'] and r is None
    rep.instance(R4, ok=ok, nontrivial='ClosingRule._apply')
    if not ok:
        rep.finding(R4, 'C01.R4/ClosingRule._apply', m.loc(RULES, ca), 'ClosingRule._apply', f'applied to a target does {log} (result {r!r}); expected: close the target\'s branch, nothing else')
    # BaseSimpleRule._apply folded: hands the same target to AdzHelper._apply, once
    ap = m.func(RULES, 'BaseSimpleRule._apply')
    rep.consult(m.loc(RULES, ap) + ' BaseSimpleRule._apply')
    log = []
    ADZ = _O4('AdzHelper')
    helper = _O4('adz', _apply=lambda t: log.append(('adz', t)))

    class RuleM(_O4):
        def __getitem__(s_, k):
            if k is not ADZ:
                raise KeyError(k)
            return helper
    rule = RuleM('rule', __srcclass__=(m, ClassRef(RULES, 'BaseSimpleRule')))
    r = _I4(dict(AdzHelper=ADZ), where='proof/rules.py BaseSimpleRule._apply', modtree=m.trees[RULES]).safe(ap, [rule, 'TARGET'])
    ok = log == [('adz', 'TARGET')]
    rep.instance(R4, ok=ok, nontrivial='BaseSimpleRule._apply')
    if not ok:
        rep.finding(R4, 'C01.R4/BaseSimpleRule._apply', m.loc(RULES, ap), 'BaseSimpleRule._apply', f'does {log} (result {r!r}) instead of handing the target to AdzHelper._apply once')
    # no logic rule overrides _apply
    n = 0
    for lg in ctx.lgs:
        for gi, rc in lg.all_group_rules():
            n += 1
            f, owner = m.method(rc, '_apply')
            ok = owner is not None and (owner.module, owner.qualname) == (RULES, 'BaseSimpleRule')
            if not ok:
                rep.instance(R4, ok=False, nontrivial=(rc.short, '_apply'))
                rep.finding(R4, f'C01.R4/{rc.short}/_apply', m.relfile(rc.module), rc.short,
                            f'rule resolves _apply to {owner.short if owner else None}, not BaseSimpleRule._apply')
        for rc in lg.closure:
            f, owner = m.method(rc, '_apply')
            ok = owner is not None and (owner.module, owner.qualname) == (RULES, 'ClosingRule')
            if not ok:
                rep.instance(R4, ok=False, nontrivial=(rc.short, '_apply'))
                rep.finding(R4, f'C01.R4/{rc.short}/_apply', m.relfile(rc.module), rc.short, 'closure rule does not use ClosingRule._apply')
    rep.instance(R4, ok=True, nontrivial='_apply-resolution')
    # Rule.apply is @final and calls _apply exactly once
    ra = m.func(TAB, 'Rule.apply')
    ok = 'final' in astq.decorators(ra) and len(astq.find_calls(ra, 'self._apply')) == 1
    rep.instance(R4, ok=ok, nontrivial='Rule.apply')
    if not ok:
        rep.finding(R4, 'C01.R4/Rule.apply', m.loc(TAB, ra), 'Rule.apply', 'is not @final with exactly one self._apply(target)')


def r8(ctx, rep):
    m = ctx.m
    R8 = rep.rule('C01.R8', 'a target derived from two branch nodes ties the new node\'s world to both source nodes')
    n = 0
    for mod in sorted(m.trees):
        if not (mod.startswith('pytableaux.logics.') or mod == RULES):
            continue
        for qn, fn in astq.all_functions(m.trees[mod]):
            pm = None
            for y in ast.walk(fn):
                if not isinstance(y, ast.Yield) or y.value is None:
                    continue
                kws = [k for c in astq.calls(y) for k in c.keywords if k.arg == 'nodes']
                for k in kws:
                    if not (isinstance(k.value, ast.Tuple) and len(k.value.elts) == 2):
                        nm = k.value.id if isinstance(k.value, ast.Name) else None
                        tup = None
                        if nm:
                            for t, st in astq.stores(fn):
                                if isinstance(t, ast.Name) and t.id == nm and isinstance(st, ast.Assign) and isinstance(st.value, ast.Tuple):
                                    tup = st.value
                        if tup is None:
                            raise AnalysisError(f'{mod}:{qn}: `nodes=` keyword not a 2-tuple')
                        elts = tup.elts
                    else:
                        elts = k.value.elts
                    n += 1
                    second = elts[1]
                    pm = pm or astq.parent_map(fn)
                    if isinstance(second, ast.Name):
                        # a local that holds the looked-up node (`access = branch.find(anode(w1, w2))`): judge the expression it was assigned
                        assigned = [st.value for t, st in astq.stores(fn) if isinstance(t, ast.Name) and t.id == second.id and isinstance(st, ast.Assign)]
                        if len(assigned) == 1 and astq.u(assigned[0]).startswith('branch.find(anode('):
                            second = assigned[0]
                    txt = astq.u(second)
                    if txt.startswith('branch.find(anode('):
                        ok, why = True, 'second node is the access pair found by its worlds'
                    elif isinstance(second, ast.Name):
                        g = astq.guards_of(fn, astq.stmt_of(pm, y), pm)
                        v = second.id
                        ok = any((f"{v}.get('world')" in t or f"{v}['world']" in t) and not p and ('!=' in t or 'is not' in t) for t, p in g) or \
                            any((f"{v}.get('world')" in t or f"{v}['world']" in t) and p and ('==' in t) for t, p in g)
                        why = f'no guard comparing the world of `{v}` with the new node\'s world dominates the yield'
                    else:
                        ok, why = False, f'second source node `{txt}` not recognised'
                    rep.instance(R8, ok=ok, sample=dict(site=f'{mod}:{qn}', nodes=astq.u(k.value)), nontrivial=(mod, qn))
                    rep.consult(f'{m.loc(mod, fn)} {qn}')
                    if not ok:
                        rep.finding(R8, f'C01.R8/{mod}:{qn}', m.loc(mod, y), qn, why)
    rep.floor('C01.R8', 'two-node targets', n, 3)


def r9(ctx, rep):
    from .. import rulefold
    R9 = rep.rule('C01.R9', 'IdentityIndiscernability (folded over mock branches): substitutes only into predicate nodes at the identity '
                            'node\'s world and adds the result at that world')
    res, cons = rulefold.fold_identity_indiscernability(ctx.m, deep=rep.tier == 'thorough')
    rep.consult(*cons)
    for ok, case, detail in res:
        rep.instance(R9, ok=ok, nontrivial=case)
        if not ok:
            rep.finding(R9, f'C01.R9/{case}', cons[0].split(' ')[0], 'cpl.Rules.IdentityIndiscernability._get_node_targets', f'{case}: {detail}')
    rep.floor('C01.R9', 'identity/predicate branch shapes', len(res), 120)
