"""One module per property: run(ctx, rep) plus LEVEL / EXPLANATION / TRUSTED / ASSUMPTIONS."""
