"""C17 -- limits and lifecycle: three-valued verdicts, bounded work, locked state."""
from __future__ import annotations

import ast

from .. import astq, lifecycle
from ..core import AnalysisError
from ..lifecycle import TAB

LEVEL = 'other'
EXPLANATION = (
    'Static analysis (typestate of the tableau flag word). The verdict properties and the step-limit predicate are folded from source over every flag combination; every write to Tableau.flag in the package is enumerated with its dominating conditions and compared with the reviewed who-may-write table (a new writer, a missing guard or a clear of a bit other than PREMATURE is a finding); step()/finish() idempotence guards, the dominance of the step-limit test over rule application, the order set-TIMED_OUT -> finish() -> raise, the started-guards of the setters and of build_trunk, and the @locking discipline of the rule collections are checked structurally. (R6) StopWatch folded as a state machine: elapsed_ms() is the sum of all intervals since the last reset.')
TRUSTED = ['CPython ast', 'sa.minieval', 'sa.astq.guards_of (dominating-condition computation over if/early-exit idioms)']
ASSUMPTIONS = ['wall-clock behaviour is declined', 'events are delivered synchronously by EventEmitter (not analysed)']

# reviewed writer table: (function, op, bits) -> groups of acceptable guard texts (one of each group must dominate)
WRITERS = {
    ('Tableau.__init__', '=', ('PREMATURE',)): [],
    ('Tableau.__init__', '|=', ('HAS_STEP_LIMIT',)): [('maxsteps is not None and maxsteps > 0', 'maxsteps and maxsteps > 0')],
    ('Tableau.__init__', '|=', ('HAS_TIME_LIMIT',)): [('timeout is not None and timeout > 0', 'timeout and timeout > 0')],
    ('Tableau.step', '&=~', ('PREMATURE',)): [],     # its conditions are decided semantically by the fold of step() (R2)
    ('Tableau.finish', '|=', ('FINISHED',)): [],
    ('Tableau.build_trunk', '|=', ('STARTED', 'TRUNK_BUILT')): [],
    ('Tableau.__listen_on.<locals>.after_rule_apply', '|=', ('STARTED',)): [],
    ('Tableau.__listen_on.<locals>.after_rule_apply', '|=', ('TIMING_INACCURATE',)): [],
    ('Tableau._check_timeout', '|=', ('TIMED_OUT',)): [],
}


def guard_texts(guards, polarity=True):
    return {t for t, p in guards if p == polarity}


def first_stmt(fn):
    b = astq.stmts(fn)
    return b[0] if b else None


def is_finished_guard(st, ret_self=False):
    return (isinstance(st, ast.If) and astq.u(st.test) == 'self.flag.FINISHED in self.flag' and not st.orelse
            and len(st.body) == 1 and isinstance(st.body[0], ast.Return))


def run(ctx, rep):
    m = ctx.m
    R0 = rep.rule('C17.R0', 'verdict properties folded over all flag combinations: valid/invalid are None unless '
                            'FINISHED and not PREMATURE and an argument is set; valid <=> no open branch')
    res, cons = lifecycle.fold_verdicts(m)
    rep.consult(*cons)
    for ok, case, detail in res:
        rep.instance(R0, ok=ok, sample=dict(case=case, got=detail), nontrivial=case)
        if not ok:
            rep.finding(R0, f'C17.R0/{case}', cons[0], 'Tableau verdict properties', f'{case}: {detail}')
    rep.floor('C17.R0', 'flag combinations', len(res), 48)

    R6 = rep.rule('C17.R6', 'the build timer accumulates: StopWatch folded as a state machine over every start/stop/reset/enter/exit sequence '
                            'up to the bound -- elapsed_ms() is the sum of all intervals since the last reset (what build_timeout is compared with)')
    from .. import timingfold
    res, cons = timingfold.fold_stopwatch(m, depth=5 if rep.tier == 'thorough' else 4)
    rep.consult(*cons)
    for ok, case, detail in res:
        rep.instance(R6, ok=ok, nontrivial=case)
        if not ok:
            rep.finding(R6, f'C17.R6/{case}', cons[0].split(' ')[0], 'tools.timing.StopWatch', f'sequence [{case}]: {detail}')
    rep.floor('C17.R6', 'operation sequences', len(res), 780)

    R1 = rep.rule('C17.R1', 'who-may-write per flag bit, with the dominating condition of each write (reviewed table)')
    writes = lifecycle.flag_writes(m)
    seen = set()
    for qn, op, bits, guards, st in writes:
        key = (qn, op, bits)
        seen.add(key)
        where = m.loc(TAB, st)
        if key not in WRITERS:
            rep.instance(R1, ok=False, nontrivial=key)
            rep.finding(R1, f'C17.R1/unexpected/{qn}/{op}/{"+".join(bits)}', where, qn,
                        f'unexpected write to the tableau flag word: `{astq.u(st)}` (not in the reviewed writer table)')
            continue
        pos = guard_texts(guards, True)
        missing = [grp for grp in WRITERS[key] if not (set(grp) & pos)]
        rep.instance(R1, ok=not missing, sample=dict(writer=qn, op=op, bits=list(bits), guards=sorted(pos)), nontrivial=key)
        for grp in missing:
            rep.finding(R1, f'C17.R1/unguarded/{qn}/{op}/{"+".join(bits)}/{grp[0]}', where, qn,
                        f'`{astq.u(st)}` is no longer dominated by `{grp[0]}`')
    for key in WRITERS:
        if key not in seen:
            rep.instance(R1, ok=False, nontrivial=key)
            rep.finding(R1, f'C17.R1/missing/{key[0]}/{key[1]}/{"+".join(key[2])}', m.relfile(TAB), key[0],
                        f'the reviewed flag write {key[1]} {"|".join(key[2])} in {key[0]} is gone')
    rep.floor('C17.R1', 'flag writes', len(writes), 9)

    R2 = rep.rule('C17.R2', 'step() and finish() folded over all lifecycle states: no effect once FINISHED; finish() sets FINISHED before any '
                            'post-build task, builds models iff invalid and enabled, the tree unless timed out, then stats and AFTER_FINISH')
    for fold in (lifecycle.fold_step, lifecycle.fold_finish):
        res, cons = fold(m)
        rep.consult(*cons)
        for ok, case, detail in res:
            rep.instance(R2, ok=ok, sample=dict(fold=fold.__name__, case=case), nontrivial=(fold.__name__, case))
            if not ok:
                rep.finding(R2, f'C17.R2/{fold.__name__[5:]}/{case}', cons[0].split(' ')[0], f'Tableau.{fold.__name__[5:]}', f'{case}: {detail}')
    step = m.func(TAB, 'Tableau.step')

    R3 = rep.rule('C17.R3', 'rule application in step() is reachable only through `not _is_max_steps_exceeded()`; '
                            'that predicate is HAS_STEP_LIMIT and len(history) >= max_steps')
    res, cons = lifecycle.fold_max_steps(m)
    rep.consult(*cons)
    for ok, case, detail in res:
        rep.instance(R3, ok=ok, nontrivial=case)
        if not ok:
            rep.finding(R3, f'C17.R3/{case}', cons[0], 'Tableau._is_max_steps_exceeded', f'{case}: {detail}')
    # (the dominance of the limit test over next()/apply() is decided by the fold of step() above: R2)

    R4 = rep.rule('C17.R4', '_check_timeout folded: no effect without a limit or within it; beyond it TIMED_OUT is set, then finish(), then the timeout error; step() checks it first (fold of step)')
    res, cons = lifecycle.fold_check_timeout(m)
    rep.consult(*cons)
    for ok, case, detail in res:
        rep.instance(R4, ok=ok, nontrivial=('timeout', case))
        if not ok:
            rep.finding(R4, f'C17.R4/_check_timeout/{case}', cons[0].split(' ')[0], 'Tableau._check_timeout', f'{case}: {detail}')

    R5 = rep.rule('C17.R5', 'argument/logic setters and build_trunk refuse when STARTED before any mutation; rule '
                            'collections: every mutator is @locking (or delegates to one), __setattr__ is locking, '
                            'RulesRoot.lock is registered on the first branch')
    for name in ('argument', 'logic'):
        fn = astq.setter(m, TAB, f'Tableau.{name}')
        st = first_stmt(fn)
        ok = isinstance(st, ast.If) and astq.u(st.test) == 'self.flag.STARTED in self.flag' and isinstance(st.body[-1], ast.Raise)
        rep.instance(R5, ok=ok, nontrivial=f'{name}.setter')
        rep.consult(m.loc(TAB, fn) + f' Tableau.{name}.setter')
        if not ok:
            rep.finding(R5, f'C17.R5/{name}.setter/no-started-guard', m.loc(TAB, fn), f'Tableau.{name}.setter',
                        'does not refuse, as its first action, when the tableau has started')
    bt = m.func(TAB, 'Tableau.build_trunk')
    pmb = astq.parent_map(bt)
    effects = [c for c in astq.calls(bt) if astq.call_name(c) in ('self.emit', 'self.branch', 'self.logic.System.build_trunk')]
    astq.need(len(effects) >= 3, 'Tableau.build_trunk: effects not recognised')
    for c in effects:
        neg = guard_texts(astq.guards_of(bt, astq.stmt_of(pmb, c), pmb), False)
        needg = {'self.flag.TRUNK_BUILT in self.flag', 'self.flag.STARTED in self.flag', 'self.argument is None', 'self.logic is None'}
        ok = needg <= neg
        rep.instance(R5, ok=ok, nontrivial=f'build_trunk:{astq.call_name(c)}:{c.lineno}')
        if not ok:
            rep.finding(R5, f'C17.R5/build_trunk/{astq.call_name(c)}', m.loc(TAB, c), 'Tableau.build_trunk',
                        f'`{astq.u(c)[:50]}` is reachable without the guards {sorted(needg - neg)}')
    # locking discipline
    mutators = {
        'RuleGroup': ['append', 'clear', 'lock'], 'RuleGroups': ['create', 'append', 'clear', 'lock'], 'RulesRoot': ['lock'],
    }
    delegating = {'RuleGroup': {'extend': 'self.append'}, 'RuleGroups': {'extend': 'self.append'},
                  'RulesRoot': {'append': 'self.groups.create', 'extend': 'self.groups.create', 'clear': 'self.groups.clear'}}
    for cls, names in mutators.items():
        for n in names:
            fn = m.func(TAB, f'{cls}.{n}')
            ok = 'locking' in astq.decorators(fn)
            rep.instance(R5, ok=ok, nontrivial=f'{cls}.{n}')
            if not ok:
                rep.finding(R5, f'C17.R5/{cls}.{n}/not-locking', m.loc(TAB, fn), f'{cls}.{n}', 'mutator is not decorated @locking')
    for cls, mp in delegating.items():
        for n, callee in mp.items():
            fn = m.func(TAB, f'{cls}.{n}')
            b = astq.stmts(fn)
            first_call = next((astq.call_name(c) for st in b[:1] for c in sorted(astq.calls(st), key=lambda c: (c.lineno, c.col_offset))), None)
            txt = astq.u(fn)
            ok = callee in txt and ('locking' in astq.decorators(fn) or all(
                not isinstance(t, (ast.Attribute, ast.Subscript)) for t, _ in astq.stores(fn)))
            # first effect must be the delegation (a raising callee leaves everything untouched)
            if ok and n == 'clear' and cls == 'RulesRoot':
                ok = astq.u(b[0]).startswith('self.groups.clear()')
            rep.instance(R5, ok=ok, nontrivial=f'{cls}.{n}')
            if not ok:
                rep.finding(R5, f'C17.R5/{cls}.{n}/delegation', m.loc(TAB, fn), f'{cls}.{n}',
                            f'no longer only delegates to the locking `{callee}` first')
    for cls in ('RuleGroup', 'RuleGroups', 'RulesRoot'):
        raw, _ = m.getraw(ClassRefTAB(cls), '__setattr__')
        ok = raw is not None and astq.u(raw[1]) == 'locking(object.__setattr__)'
        rep.instance(R5, ok=ok, nontrivial=f'{cls}.__setattr__')
        if not ok:
            rep.finding(R5, f'C17.R5/{cls}.__setattr__', m.relfile(TAB), f'{cls}.__setattr__', 'is not locking(object.__setattr__)')
    init = m.func(TAB, 'RulesRoot.__init__')
    ok = 'tableau.once(Tableau.Events.AFTER_BRANCH_ADD, self.lock)' in astq.u(init)
    rep.instance(R5, ok=ok, nontrivial='RulesRoot.lock-registered')
    if not ok:
        rep.finding(R5, 'C17.R5/RulesRoot.__init__/lock-not-registered', m.loc(TAB, init), 'RulesRoot.__init__',
                    'RulesRoot.lock is not registered on the first AFTER_BRANCH_ADD')
    lk = m.func(TAB, 'locking')
    txt = astq.u(lk)
    ok = 'if self.root.locked' in txt and 'raise' in txt and 'return method(self, *args, **kw)' in txt
    rep.instance(R5, ok=ok, nontrivial='locking-decorator')
    if not ok:
        rep.finding(R5, 'C17.R5/locking', m.loc(TAB, lk), 'locking', 'decorator no longer raises when self.root.locked')
    rl = m.func(TAB, 'RulesRoot.lock')
    ok = 'self.locked = True' in astq.u(rl) and 'self.groups.lock()' in astq.u(rl)
    rep.instance(R5, ok=ok, nontrivial='RulesRoot.lock')
    if not ok:
        rep.finding(R5, 'C17.R5/RulesRoot.lock', m.loc(TAB, rl), 'RulesRoot.lock', 'no longer locks the groups and sets locked = True')
    # the logic setter installs rules only through the locking collection API
    ls = astq.setter(m, TAB, 'Tableau.logic')
    ok = 'self.rules.clear()' in astq.u(ls) and "self.rules.groups.create('closure').extend(Rules.closure)" in astq.u(ls)
    rep.instance(R5, ok=ok, nontrivial='logic.setter-installs-rules')
    if not ok:
        rep.finding(R5, 'C17.R5/logic.setter/rules', m.loc(TAB, ls), 'Tableau.logic.setter',
                    'does not (re)install the closure and group rules through the locking collection API')


def ClassRefTAB(name):
    from ..model import ClassRef
    return ClassRef(TAB, name)
