"""C17 -- limits and lifecycle: three-valued verdicts, bounded work, locked state."""
from __future__ import annotations

import ast

from .. import astq, lifecycle
from ..core import AnalysisError
from ..lifecycle import TAB

LEVEL = 'other'
EXPLANATION = (
    'Static analysis (typestate of the tableau flag word). The verdict properties and the step-limit predicate are '
    'folded from source over every flag combination; every write to Tableau.flag in the package is enumerated with its '
    'dominating conditions and compared with the reviewed who-may-write table (a new writer, a missing guard or a '
    'clear of a bit other than PREMATURE is a finding); step()/finish() idempotence guards, the dominance of the '
    'step-limit test over rule application, the order set-TIMED_OUT -> finish() -> raise, the started-guards of the '
    'setters and of build_trunk, and the @locking discipline of the rule collections are checked structurally.')
TRUSTED = ['CPython ast', 'sa.minieval', 'sa.astq.guards_of (dominating-condition computation over if/early-exit idioms)']
ASSUMPTIONS = ['wall-clock behaviour is declined', 'events are delivered synchronously by EventEmitter (not analysed)']

# reviewed writer table: (function, op, bits) -> groups of acceptable guard texts (one of each group must dominate)
WRITERS = {
    ('Tableau.__init__', '=', ('PREMATURE',)): [],
    ('Tableau.__init__', '|=', ('HAS_STEP_LIMIT',)): [('maxsteps is not None and maxsteps > 0', 'maxsteps and maxsteps > 0')],
    ('Tableau.__init__', '|=', ('HAS_TIME_LIMIT',)): [('timeout is not None and timeout > 0', 'timeout and timeout > 0')],
    ('Tableau.step', '&=~', ('PREMATURE',)): [('entry is None', 'not entry'), ('not self._is_max_steps_exceeded()',)],
    ('Tableau.finish', '|=', ('FINISHED',)): [],
    ('Tableau.build_trunk', '|=', ('STARTED', 'TRUNK_BUILT')): [],
    ('Tableau.__listen_on.<locals>.after_rule_apply', '|=', ('STARTED',)): [],
    ('Tableau.__listen_on.<locals>.after_rule_apply', '|=', ('TIMING_INACCURATE',)): [],
    ('Tableau._check_timeout', '|=', ('TIMED_OUT',)): [],
}


def guard_texts(guards, polarity=True):
    return {t for t, p in guards if p == polarity}


def first_stmt(fn):
    b = astq.stmts(fn)
    return b[0] if b else None


def is_finished_guard(st, ret_self=False):
    return (isinstance(st, ast.If) and astq.u(st.test) == 'self.flag.FINISHED in self.flag' and not st.orelse
            and len(st.body) == 1 and isinstance(st.body[0], ast.Return))


def run(ctx, rep):
    m = ctx.m
    R0 = rep.rule('C17.R0', 'verdict properties folded over all flag combinations: valid/invalid are None unless '
                            'FINISHED and not PREMATURE and an argument is set; valid <=> no open branch')
    res, cons = lifecycle.fold_verdicts(m)
    rep.consult(*cons)
    for ok, case, detail in res:
        rep.instance(R0, ok=ok, sample=dict(case=case, got=detail), nontrivial=case)
        if not ok:
            rep.finding(R0, f'C17.R0/{case}', cons[0], 'Tableau verdict properties', f'{case}: {detail}')
    rep.floor('C17.R0', 'flag combinations', len(res), 48)

    R1 = rep.rule('C17.R1', 'who-may-write per flag bit, with the dominating condition of each write (reviewed table)')
    writes = lifecycle.flag_writes(m)
    seen = set()
    for qn, op, bits, guards, st in writes:
        key = (qn, op, bits)
        seen.add(key)
        where = m.loc(TAB, st)
        if key not in WRITERS:
            rep.instance(R1, ok=False, nontrivial=key)
            rep.finding(R1, f'C17.R1/unexpected/{qn}/{op}/{"+".join(bits)}', where, qn,
                        f'unexpected write to the tableau flag word: `{astq.u(st)}` (not in the reviewed writer table)')
            continue
        pos = guard_texts(guards, True)
        missing = [grp for grp in WRITERS[key] if not (set(grp) & pos)]
        rep.instance(R1, ok=not missing, sample=dict(writer=qn, op=op, bits=list(bits), guards=sorted(pos)), nontrivial=key)
        for grp in missing:
            rep.finding(R1, f'C17.R1/unguarded/{qn}/{op}/{"+".join(bits)}/{grp[0]}', where, qn,
                        f'`{astq.u(st)}` is no longer dominated by `{grp[0]}`')
    for key in WRITERS:
        if key not in seen:
            rep.instance(R1, ok=False, nontrivial=key)
            rep.finding(R1, f'C17.R1/missing/{key[0]}/{key[1]}/{"+".join(key[2])}', m.relfile(TAB), key[0],
                        f'the reviewed flag write {key[1]} {"|".join(key[2])} in {key[0]} is gone')
    rep.floor('C17.R1', 'flag writes', len(writes), 9)

    R2 = rep.rule('C17.R2', 'step() and finish() start with the FINISHED guard; finish() sets FINISHED before any other effect')
    step = m.func(TAB, 'Tableau.step')
    finish = m.func(TAB, 'Tableau.finish')
    rep.consult(m.loc(TAB, step) + ' Tableau.step', m.loc(TAB, finish) + ' Tableau.finish')
    for name, fn in (('step', step), ('finish', finish)):
        ok = is_finished_guard(first_stmt(fn))
        rep.instance(R2, ok=ok, nontrivial=f'{name}-guard')
        if not ok:
            rep.finding(R2, f'C17.R2/{name}/no-finished-guard', m.loc(TAB, fn), f'Tableau.{name}',
                        f'{name}() no longer starts with `if self.flag.FINISHED in self.flag: return`')
    b = astq.stmts(finish)
    ok = len(b) > 1 and astq.u(b[1]) == 'self.flag |= self.flag.FINISHED'
    rep.instance(R2, ok=ok, nontrivial='finish-sets-first')
    if not ok:
        rep.finding(R2, 'C17.R2/finish/finished-not-set-first', m.loc(TAB, finish), 'Tableau.finish',
                    'FINISHED is not set immediately after the guard (a raising post-build task would leave the tableau unfinished)')

    R3 = rep.rule('C17.R3', 'rule application in step() is reachable only through `not _is_max_steps_exceeded()`; '
                            'that predicate is HAS_STEP_LIMIT and len(history) >= max_steps')
    res, cons = lifecycle.fold_max_steps(m)
    rep.consult(*cons)
    for ok, case, detail in res:
        rep.instance(R3, ok=ok, nontrivial=case)
        if not ok:
            rep.finding(R3, f'C17.R3/{case}', cons[0], 'Tableau._is_max_steps_exceeded', f'{case}: {detail}')
    pm = astq.parent_map(step)
    applies = [c for c in astq.calls(step) if astq.call_name(c).endswith('.rule.apply') or astq.call_name(c).endswith('.apply')]
    astq.need(applies, 'Tableau.step: no rule.apply call found')
    for c in applies:
        g = guard_texts(astq.guards_of(step, astq.stmt_of(pm, c), pm), True)
        ok = bool({'entry is not None', 'entry'} & g)
        rep.instance(R3, ok=ok, nontrivial='apply-needs-entry')
        if not ok:
            rep.finding(R3, 'C17.R3/step/apply-unguarded', m.loc(TAB, c), 'Tableau.step', 'rule.apply is not guarded by `entry is not None`')
    ent = [(t, st) for t, st in astq.stores(step) if isinstance(t, ast.Name) and t.id == 'entry']
    astq.need(ent, 'Tableau.step: no assignment to `entry`')
    for t, st in ent:
        val = astq.u(st.value) if isinstance(st, ast.Assign) else astq.u(st)
        if val == 'None':
            continue
        g = guard_texts(astq.guards_of(step, st, pm), True)
        ok = val == 'self.next()' and 'not self._is_max_steps_exceeded()' in g
        rep.instance(R3, ok=ok, sample=dict(assignment=astq.u(st), guards=sorted(g)), nontrivial=f'entry={val}')
        if not ok:
            rep.finding(R3, f'C17.R3/step/entry-source/{val}', m.loc(TAB, st), 'Tableau.step',
                        f'`{astq.u(st)}`: a step entry is obtained without the step-limit test dominating it')

    R4 = rep.rule('C17.R4', '_check_timeout: sets TIMED_OUT, calls finish(), then raises; step() calls it before any work')
    ct = m.func(TAB, 'Tableau._check_timeout')
    rep.consult(m.loc(TAB, ct) + ' Tableau._check_timeout')
    seq = []
    for n in ast.walk(ct):
        if isinstance(n, ast.AugAssign) and 'TIMED_OUT' in astq.u(n):
            seq.append((n.lineno, n.col_offset, 'set'))
        elif isinstance(n, ast.Call) and astq.call_name(n) == 'self.finish':
            seq.append((n.lineno, n.col_offset, 'finish'))
        elif isinstance(n, ast.Raise):
            seq.append((n.lineno, n.col_offset, 'raise'))
    order = [x[2] for x in sorted(seq)]
    ok = order == ['set', 'finish', 'raise']
    rep.instance(R4, ok=ok, sample=dict(order=order), nontrivial='timeout-order')
    if not ok:
        rep.finding(R4, 'C17.R4/_check_timeout/order', m.loc(TAB, ct), 'Tableau._check_timeout',
                    f'expected set TIMED_OUT -> finish() -> raise, found {order}')
    raises = [n for n in ast.walk(ct) if isinstance(n, ast.Raise)]
    ok = all('Timeout' in astq.u(r) for r in raises)
    rep.instance(R4, ok=ok, nontrivial='timeout-error-type')
    if not ok:
        rep.finding(R4, 'C17.R4/_check_timeout/error', m.loc(TAB, ct), 'Tableau._check_timeout', 'does not raise the timeout error')
    # step: _check_timeout() precedes next()/apply
    pos = {astq.call_name(c): (c.lineno, c.col_offset) for c in astq.calls(step)}
    ok = 'self._check_timeout' in pos and 'self.next' in pos and pos['self._check_timeout'] < pos['self.next']
    rep.instance(R4, ok=ok, nontrivial='step-checks-timeout-first')
    if not ok:
        rep.finding(R4, 'C17.R4/step/timeout-not-first', m.loc(TAB, step), 'Tableau.step', '_check_timeout() does not precede next()')

    R5 = rep.rule('C17.R5', 'argument/logic setters and build_trunk refuse when STARTED before any mutation; rule '
                            'collections: every mutator is @locking (or delegates to one), __setattr__ is locking, '
                            'RulesRoot.lock is registered on the first branch')
    for name in ('argument', 'logic'):
        fn = astq.setter(m, TAB, f'Tableau.{name}')
        st = first_stmt(fn)
        ok = isinstance(st, ast.If) and astq.u(st.test) == 'self.flag.STARTED in self.flag' and isinstance(st.body[-1], ast.Raise)
        rep.instance(R5, ok=ok, nontrivial=f'{name}.setter')
        rep.consult(m.loc(TAB, fn) + f' Tableau.{name}.setter')
        if not ok:
            rep.finding(R5, f'C17.R5/{name}.setter/no-started-guard', m.loc(TAB, fn), f'Tableau.{name}.setter',
                        'does not refuse, as its first action, when the tableau has started')
    bt = m.func(TAB, 'Tableau.build_trunk')
    pmb = astq.parent_map(bt)
    effects = [c for c in astq.calls(bt) if astq.call_name(c) in ('self.emit', 'self.branch', 'self.logic.System.build_trunk')]
    astq.need(len(effects) >= 3, 'Tableau.build_trunk: effects not recognised')
    for c in effects:
        neg = guard_texts(astq.guards_of(bt, astq.stmt_of(pmb, c), pmb), False)
        needg = {'self.flag.TRUNK_BUILT in self.flag', 'self.flag.STARTED in self.flag', 'self.argument is None', 'self.logic is None'}
        ok = needg <= neg
        rep.instance(R5, ok=ok, nontrivial=f'build_trunk:{astq.call_name(c)}:{c.lineno}')
        if not ok:
            rep.finding(R5, f'C17.R5/build_trunk/{astq.call_name(c)}', m.loc(TAB, c), 'Tableau.build_trunk',
                        f'`{astq.u(c)[:50]}` is reachable without the guards {sorted(needg - neg)}')
    # locking discipline
    mutators = {
        'RuleGroup': ['append', 'clear', 'lock'], 'RuleGroups': ['create', 'append', 'clear', 'lock'], 'RulesRoot': ['lock'],
    }
    delegating = {'RuleGroup': {'extend': 'self.append'}, 'RuleGroups': {'extend': 'self.append'},
                  'RulesRoot': {'append': 'self.groups.create', 'extend': 'self.groups.create', 'clear': 'self.groups.clear'}}
    for cls, names in mutators.items():
        for n in names:
            fn = m.func(TAB, f'{cls}.{n}')
            ok = 'locking' in astq.decorators(fn)
            rep.instance(R5, ok=ok, nontrivial=f'{cls}.{n}')
            if not ok:
                rep.finding(R5, f'C17.R5/{cls}.{n}/not-locking', m.loc(TAB, fn), f'{cls}.{n}', 'mutator is not decorated @locking')
    for cls, mp in delegating.items():
        for n, callee in mp.items():
            fn = m.func(TAB, f'{cls}.{n}')
            b = astq.stmts(fn)
            first_call = next((astq.call_name(c) for st in b[:1] for c in sorted(astq.calls(st), key=lambda c: (c.lineno, c.col_offset))), None)
            txt = astq.u(fn)
            ok = callee in txt and ('locking' in astq.decorators(fn) or all(
                not isinstance(t, (ast.Attribute, ast.Subscript)) for t, _ in astq.stores(fn)))
            # first effect must be the delegation (a raising callee leaves everything untouched)
            if ok and n == 'clear' and cls == 'RulesRoot':
                ok = astq.u(b[0]).startswith('self.groups.clear()')
            rep.instance(R5, ok=ok, nontrivial=f'{cls}.{n}')
            if not ok:
                rep.finding(R5, f'C17.R5/{cls}.{n}/delegation', m.loc(TAB, fn), f'{cls}.{n}',
                            f'no longer only delegates to the locking `{callee}` first')
    for cls in ('RuleGroup', 'RuleGroups', 'RulesRoot'):
        raw, _ = m.getraw(ClassRefTAB(cls), '__setattr__')
        ok = raw is not None and astq.u(raw[1]) == 'locking(object.__setattr__)'
        rep.instance(R5, ok=ok, nontrivial=f'{cls}.__setattr__')
        if not ok:
            rep.finding(R5, f'C17.R5/{cls}.__setattr__', m.relfile(TAB), f'{cls}.__setattr__', 'is not locking(object.__setattr__)')
    init = m.func(TAB, 'RulesRoot.__init__')
    ok = 'tableau.once(Tableau.Events.AFTER_BRANCH_ADD, self.lock)' in astq.u(init)
    rep.instance(R5, ok=ok, nontrivial='RulesRoot.lock-registered')
    if not ok:
        rep.finding(R5, 'C17.R5/RulesRoot.__init__/lock-not-registered', m.loc(TAB, init), 'RulesRoot.__init__',
                    'RulesRoot.lock is not registered on the first AFTER_BRANCH_ADD')
    lk = m.func(TAB, 'locking')
    txt = astq.u(lk)
    ok = 'if self.root.locked' in txt and 'raise' in txt and 'return method(self, *args, **kw)' in txt
    rep.instance(R5, ok=ok, nontrivial='locking-decorator')
    if not ok:
        rep.finding(R5, 'C17.R5/locking', m.loc(TAB, lk), 'locking', 'decorator no longer raises when self.root.locked')
    rl = m.func(TAB, 'RulesRoot.lock')
    ok = 'self.locked = True' in astq.u(rl) and 'self.groups.lock()' in astq.u(rl)
    rep.instance(R5, ok=ok, nontrivial='RulesRoot.lock')
    if not ok:
        rep.finding(R5, 'C17.R5/RulesRoot.lock', m.loc(TAB, rl), 'RulesRoot.lock', 'no longer locks the groups and sets locked = True')
    # the logic setter installs rules only through the locking collection API
    ls = astq.setter(m, TAB, 'Tableau.logic')
    ok = 'self.rules.clear()' in astq.u(ls) and "self.rules.groups.create('closure').extend(Rules.closure)" in astq.u(ls)
    rep.instance(R5, ok=ok, nontrivial='logic.setter-installs-rules')
    if not ok:
        rep.finding(R5, 'C17.R5/logic.setter/rules', m.loc(TAB, ls), 'Tableau.logic.setter',
                    'does not (re)install the closure and group rules through the locking collection API')


def ClassRefTAB(name):
    from ..model import ClassRef
    return ClassRef(TAB, name)
