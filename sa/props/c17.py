"""C17 -- limits and lifecycle: three-valued verdicts, bounded work, locked state."""
from __future__ import annotations

import ast
import functools
import itertools

from .. import astq, lifecycle
from ..model import ClassRef
from ..core import AnalysisError
from ..lifecycle import TAB

LEVEL = 'other'
EXPLANATION = (
    'Static analysis (typestate of the tableau flag word). The verdict properties and the step-limit predicate are folded from source over every flag combination; every write to Tableau.flag in the package is enumerated with its dominating conditions and compared with the reviewed who-may-write table (a new writer, a missing guard or a clear of a bit other than PREMATURE is a finding); step()/finish() idempotence guards, the dominance of the step-limit test over rule application, the order set-TIMED_OUT -> finish() -> raise, the started-guards of the setters and of build_trunk, and the @locking discipline of the rule collections are checked structurally. (R6) StopWatch folded as a state machine: elapsed_ms() is the sum of all intervals since the last reset. R5 is folded: the argument/logic setters and build_trunk over all started/built/missing states, and the rule collections as a state machine with the locking decorator applied. R4 builds Emsg.Timeout as the code does (the member\'s value tuple from the Emsg class body given to the folded EmsgBase) and drives _check_timeout with integral and fractional limits: beyond the limit the object raised is a ProofTimeoutError.')
TRUSTED = ['CPython ast', 'sa.minieval', 'sa.astq.guards_of (dominating-condition computation over if/early-exit idioms)']
ASSUMPTIONS = ['wall-clock behaviour is declined', 'events are delivered synchronously by EventEmitter (not analysed)']

# reviewed writer table: (function, op, bits) -> groups of acceptable guard texts (one of each group must dominate)
WRITERS = {
    ('Tableau.__init__', '=', ('PREMATURE',)): [],
    ('Tableau.__init__', '|=', ('HAS_STEP_LIMIT',)): [('maxsteps is not None and maxsteps > 0', 'maxsteps and maxsteps > 0')],
    ('Tableau.__init__', '|=', ('HAS_TIME_LIMIT',)): [('timeout is not None and timeout > 0', 'timeout and timeout > 0')],
    ('Tableau.step', '&=~', ('PREMATURE',)): [],     # its conditions are decided semantically by the fold of step() (R2)
    ('Tableau.finish', '|=', ('FINISHED',)): [],
    ('Tableau.build_trunk', '|=', ('STARTED', 'TRUNK_BUILT')): [],
    ('Tableau.__listen_on.<locals>.after_rule_apply', '|=', ('STARTED',)): [],
    ('Tableau.__listen_on.<locals>.after_rule_apply', '|=', ('TIMING_INACCURATE',)): [],
    ('Tableau._check_timeout', '|=', ('TIMED_OUT',)): [],
}


def guard_texts(guards, polarity=True):
    return {t for t, p in guards if p == polarity}


def first_stmt(fn):
    b = astq.stmts(fn)
    return b[0] if b else None


def r7(ctx, rep):
    """The step limit counts recorded steps and STARTED is set by the tableau's after_rule_apply listener: both presuppose that every
    rule application reaches the tableau.  Rule.__init__ + Rule.apply folded over an event emitter for both values of `nolock`,
    and the after_rule_apply listener, are decided in C16.R2; imported."""
    from ..core import Report
    from . import c16
    R7 = rep.rule('C17.R7', 'every rule application is recorded: Rule.__init__ and Rule.apply folded together over an event emitter, for nolock off and on -- one '
                            'application tells the tableau AFTER_RULE_APPLY exactly once, after the helpers; the tableau listener appends the step and sets STARTED '
                            '(C16.R2) -- else the step limit never triggers and a started tableau still accepts a new argument')
    sub = Report('C16', rep.tier, rep.repo)
    c16.run(ctx, sub)
    n = 0
    for f in sub.findings:
        if f.rule == 'C16.R2' and ('Rule.apply' in f.key or 'after_rule_apply' in f.key):
            n += 1
            rep.instance(R7, ok=False, nontrivial=f.key)
            rep.finding(R7, f.key.replace('C16.', 'C17.R7/C16.', 1), f.where, f.construct, f.msg)
    for _ in range(max(0, min(sub.rules.get('C16.R2', {}).get('instances', 0), 40) - n)):
        rep.instance(R7, ok=True)
    rep.consulted |= sub.consulted
    rep.floor('C17.R7', 'C16.R2 instances', sub.rules.get('C16.R2', {}).get('instances', 0), 10)


def run(ctx, rep):
    m = ctx.m
    r7(ctx, rep)
    R0 = rep.rule('C17.R0', 'verdict properties folded over all flag combinations: valid/invalid are None unless '
                            'FINISHED and not PREMATURE and an argument is set; valid <=> no open branch')
    res, cons = lifecycle.fold_verdicts(m)
    rep.consult(*cons)
    for ok, case, detail in res:
        rep.instance(R0, ok=ok, sample=dict(case=case, got=detail), nontrivial=case)
        if not ok:
            rep.finding(R0, f'C17.R0/{case}', cons[0], 'Tableau verdict properties', f'{case}: {detail}')
    rep.floor('C17.R0', 'flag combinations', len(res), 48)

    R6 = rep.rule('C17.R6', 'the build timer accumulates: StopWatch folded as a state machine over every start/stop/reset/enter/exit sequence '
                            'up to the bound -- elapsed_ms() is the sum of all intervals since the last reset (what build_timeout is compared with)')
    from .. import timingfold
    res, cons = timingfold.fold_stopwatch(m, depth=5 if rep.tier == 'thorough' else 4)
    rep.consult(*cons)
    for ok, case, detail in res:
        rep.instance(R6, ok=ok, nontrivial=case)
        if not ok:
            rep.finding(R6, f'C17.R6/{case}', cons[0].split(' ')[0], 'tools.timing.StopWatch', f'sequence [{case}]: {detail}')
    rep.floor('C17.R6', 'operation sequences', len(res), 780)

    R1 = rep.rule('C17.R1', 'who-may-write per flag bit, with the dominating condition of each write (reviewed table)')
    writes = lifecycle.flag_writes(m)
    seen = set()
    for qn, op, bits, guards, st in writes:
        key = (qn, op, bits)
        seen.add(key)
        where = m.loc(TAB, st)
        if key not in WRITERS:
            rep.instance(R1, ok=False, nontrivial=key)
            rep.finding(R1, f'C17.R1/unexpected/{qn}/{op}/{"+".join(bits)}', where, qn,
                        f'unexpected write to the tableau flag word: `{astq.u(st)}` (not in the reviewed writer table)')
            continue
        pos = guard_texts(guards, True)
        missing = [grp for grp in WRITERS[key] if not (set(grp) & pos)]
        rep.instance(R1, ok=not missing, sample=dict(writer=qn, op=op, bits=list(bits), guards=sorted(pos)), nontrivial=key)
        for grp in missing:
            rep.finding(R1, f'C17.R1/unguarded/{qn}/{op}/{"+".join(bits)}/{grp[0]}', where, qn,
                        f'`{astq.u(st)}` is no longer dominated by `{grp[0]}`')
    for key in WRITERS:
        if key not in seen:
            rep.instance(R1, ok=False, nontrivial=key)
            rep.finding(R1, f'C17.R1/missing/{key[0]}/{key[1]}/{"+".join(key[2])}', m.relfile(TAB), key[0],
                        f'the reviewed flag write {key[1]} {"|".join(key[2])} in {key[0]} is gone')
    rep.floor('C17.R1', 'flag writes', len(writes), 9)

    R2 = rep.rule('C17.R2', 'step() and finish() folded over all lifecycle states: no effect once FINISHED; finish() sets FINISHED before any '
                            'post-build task, builds models iff invalid and enabled, the tree unless timed out, then stats and AFTER_FINISH')
    for fold in (lifecycle.fold_step, lifecycle.fold_finish):
        res, cons = fold(m)
        rep.consult(*cons)
        for ok, case, detail in res:
            rep.instance(R2, ok=ok, sample=dict(fold=fold.__name__, case=case), nontrivial=(fold.__name__, case))
            if not ok:
                rep.finding(R2, f'C17.R2/{fold.__name__[5:]}/{case}', cons[0].split(' ')[0], f'Tableau.{fold.__name__[5:]}', f'{case}: {detail}')
    step = m.func(TAB, 'Tableau.step')

    R3 = rep.rule('C17.R3', 'rule application in step() is reachable only through `not _is_max_steps_exceeded()`; '
                            'that predicate is HAS_STEP_LIMIT and len(history) >= max_steps')
    res, cons = lifecycle.fold_max_steps(m)
    rep.consult(*cons)
    for ok, case, detail in res:
        rep.instance(R3, ok=ok, nontrivial=case)
        if not ok:
            rep.finding(R3, f'C17.R3/{case}', cons[0], 'Tableau._is_max_steps_exceeded', f'{case}: {detail}')
    # (the dominance of the limit test over next()/apply() is decided by the fold of step() above: R2)

    R4 = rep.rule('C17.R4', '_check_timeout folded: no effect without a limit or within it; beyond it TIMED_OUT is set, then finish(), then the timeout error; step() checks it first (fold of step)')
    res, cons = lifecycle.fold_check_timeout(m)
    rep.consult(*cons)
    for ok, case, detail in res:
        rep.instance(R4, ok=ok, nontrivial=('timeout', case))
        if not ok:
            rep.finding(R4, f'C17.R4/_check_timeout/{case}', cons[0].split(' ')[0], 'Tableau._check_timeout', f'{case}: {detail}')

    R5 = rep.rule('C17.R5', 'argument/logic setters and build_trunk refuse when STARTED before any mutation; rule '
                            'collections: every mutator is @locking (or delegates to one), __setattr__ is locking, '
                            'RulesRoot.lock is registered on the first branch')
    # setters folded: once STARTED they raise before touching anything; before that they install the value
    from ..minieval import Interp as _I, Obj as _O, Raises as _Rs

    Flag = lifecycle.flag_enum(m)
    FlagM = lambda names: functools.reduce(lambda a_, b_: a_ | b_, (getattr(Flag, n_) for n_ in names), Flag(0))
    for name in ('argument', 'logic'):
        fn = astq.setter(m, TAB, f'Tableau.{name}')
        rep.consult(m.loc(TAB, fn) + f' Tableau.{name}.setter')
        for started in (True, False):
            log = []
            rules = _O('rules', clear=lambda: log.append('rules.clear'))
            rules.groups = _O('groups', create=lambda *a: (log.append(('create', a)), _O('group', extend=lambda cls_: log.append(('extend', tuple(cls_)))))[1])
            tab = _O('tableau', __srcclass__=(m, ClassRef(TAB, 'Tableau')), flag=FlagM({'STARTED'} if started else ()), rules=rules,
                     opts={'auto_build_trunk': True}, build_trunk=lambda: log.append('build_trunk'))
            LOGIC = _O('logic', Rules=_O('Rules', closure=('C1',), groups=(('G1',), ('G2', 'G3'))))
            if name == 'argument':
                tab.logic = LOGIC
            else:
                tab.argument = 'ARG'
                tab.logic = None
            it = _I(dict(Emsg=_O('Emsg', IllegalState=lambda *a: 'IllegalStateError'), Argument=lambda v: ('Argument', v), registry=lambda v: LOGIC),
                    where=f'Tableau.{name}.setter')
            if name == 'logic':
                # the setter reads self.logic back after storing _logic
                tab.__class__ = type('TabM', (_O,), {'logic': property(lambda s_: getattr(s_, '_logic', None))})
                del tab.__dict__['logic']
            r = it.safe(fn, [tab, 'VALUE'])
            if started:
                ok = isinstance(r, _Rs) and 'IllegalState' in r.text and log == [] and not hasattr(tab, '_argument') and not hasattr(tab, '_logic')
                want = 'IllegalStateError before any change'
            elif name == 'argument':
                ok = not isinstance(r, _Rs) and getattr(tab, '_argument', None) == ('Argument', 'VALUE') and log == ['build_trunk']
                want = 'the argument stored and the trunk built (logic present, auto_build_trunk)'
            else:
                ok = not isinstance(r, _Rs) and getattr(tab, '_logic', None) is LOGIC and log[:1] == ['rules.clear'] and \
                    [x for x in log if isinstance(x, tuple) and x[0] == 'extend'] == [('extend', ('C1',)), ('extend', ('G1',)), ('extend', ('G2', 'G3'))] and log[-1] == 'build_trunk'
                want = 'rules cleared first, closure and group rules installed through the collection API, then the trunk built'
            rep.instance(R5, ok=ok, nontrivial=(f'{name}.setter', started))
            if not ok:
                rep.finding(R5, f'C17.R5/{name}.setter/{"started" if started else "not-started"}', m.loc(TAB, fn), f'Tableau.{name}.setter',
                            f'STARTED={started}: result {r!r}, effects {log}; expected {want}')
    bt = m.func(TAB, 'Tableau.build_trunk')
    pmb = astq.parent_map(bt)
    effects = [c for c in astq.calls(bt) if astq.call_name(c) in ('self.emit', 'self.branch', 'self.logic.System.build_trunk')]
    astq.need(len(effects) >= 3, 'Tableau.build_trunk: effects not recognised')
    # build_trunk folded: refuses when the trunk is built / the tableau has started / argument or logic is missing -- before any effect
    for built, started, has_arg, has_logic in itertools.product((False, True), repeat=4):
        log = []
        flags = FlagM((['TRUNK_BUILT'] if built else []) + (['STARTED'] if started else []))
        br = _O('branch')
        system = _O('System', build_trunk=lambda b_, a_: log.append(('System.build_trunk', b_, a_)))
        tab = _O('tableau', __srcclass__=(m, ClassRef(TAB, 'Tableau')), flag=flags, argument='ARG' if has_arg else None,
                 logic=_O('logic', System=system) if has_logic else None, emit=lambda ev, *a: log.append(('emit', ev)),
                 branch=lambda *a: (log.append('branch'), br)[1], timers=_O('timers', trunk=type('CM', (), {'__enter__': lambda s_: None, '__exit__': lambda s_, *a: None})()))
        it = _I(dict(Emsg=_O('Emsg', IllegalState=lambda *a: 'IllegalStateError', MissingValue=lambda *a: 'IllegalStateError'),
                     Tableau=_O('Tableau', Events=_O('Events', BEFORE_TRUNK_BUILD='BEFORE_TRUNK_BUILD', AFTER_TRUNK_BUILD='AFTER_TRUNK_BUILD'))), where='Tableau.build_trunk')
        r = it.safe(bt, [tab])
        legal = not built and not started and has_arg and has_logic
        if legal:
            ok = not isinstance(r, _Rs) and ('System.build_trunk', br, 'ARG') in log and Flag.TRUNK_BUILT in tab.flag and Flag.STARTED in tab.flag
        else:
            ok = isinstance(r, _Rs) and log == [] and tab.flag == flags
        case = f'TRUNK_BUILT={built} STARTED={started} argument={"set" if has_arg else "None"} logic={"set" if has_logic else "None"}'
        rep.instance(R5, ok=ok, nontrivial=('build_trunk', case))
        if not ok:
            rep.finding(R5, f'C17.R5/build_trunk/{case}', m.loc(TAB, bt), 'Tableau.build_trunk',
                        f'{case}: result {r!r}, effects {log}, flags {tab.flag!r}; expected ' + ('the trunk built once' if legal else 'a refusal before any effect'))
    # rule collections: the locking state machine folded
    from .. import rulesfold
    res, cons = rulesfold.fold_rule_collections(m)
    rep.consult(*cons)
    for ok, case, detail in res:
        rep.instance(R5, ok=ok, nontrivial=('rules', case))
        if not ok:
            rep.finding(R5, f'C17.R5/rules/{case}', cons[0].split(' ')[0] if cons else m.relfile(TAB), 'RulesRoot / RuleGroups / RuleGroup', f'{case}: {detail}')


def ClassRefTAB(name):
    from ..model import ClassRef
    return ClassRef(TAB, name)
