"""C08 -- model evaluation is compositional and frame-correct (structural and table clauses)."""
from __future__ import annotations

import ast
import collections
import itertools

from .. import astq, frames
from ..core import AnalysisError
from ..minieval import Interp, Obj, Raised, Raises
from ..model import ClassRef, FuncRef
from . import common

LEVEL = 'other'
EXPLANATION = (
    "Static analysis. (R1) dispatch, by folding the evaluator's definitions over mocks: value_of tries opaque first and then value_of_<type> for the four sentence types; value_of_operated sends truth-functional operators to truth_function(oper, *values-of-operands-in-order) with the same keywords, modal ones to the generaliser, and refuses modal operators in non-modal models; _unquantify_values / _unmodal_values visit every constant / accessible world once; atomic/opaque/predicated lookups read the frame stores with the unassigned value as default. (R2) the extracted quantifier and modal generalisers of every logic, on every set of instance values, equal the documented ones (max/min; own disjunction/conjunction fold for K3WQ-family; MH existential, NH universal as in doc/logics; GO through assertion); the generalizers map pairs existential/possibility with disjunction and universal/necessity with conjunction; maxceil/minfloor (folded over all short sequences) are max/min with default. (R3) finish(): complete frames, enforce the access relation, then mark finished; every setter starts with _check_not_finished, every evaluator with _check_finished; _complete_frames (folded) fills every missing atomic/opaque with the unassigned value and aligns frames and R. (R4) the Horn clauses of each Access.enforce equal the frame condition of the class and of the logic using it. Identity/existence completion order-independence is declined. R3 now folds Model.finish() of every logic end to end through the model and access MRO (frames = worlds of the access relation incl. those the frame condition adds, completion, kept values, frame condition); (R5) classical identity completion folded over every order of setting values (known finding F15). R3 also folds every state guard (readers refuse before finish, writers after, with IllegalStateError before anything else); R4 obtains each Access.enforce's frame conditions by folding it on every relation over three worlds and multi-pass shapes. R5 also checks locality: identity facts at one world do not move extensions at another. (R6) Model.value_of of every logic folded end to end through its MRO, is_sentence_opaque included (sa.modelfold, shared with C07.R5): a compound is the truth function applied to the values of its operands, atoms, nested compounds and uninterpreted operands alike.")
TRUSTED = ['CPython ast', 'sa.minieval', 'sa.tables evaluator', 'doc/logics prose transcribed as reference generalisers']
ASSUMPTIONS = ['quantifier/modal semantics depend on the *set* of instance values only (re-proved by the ACI check of sa.tables)']

MODELS = 'pytableaux.models'
TOOLS = 'pytableaux.tools'


def documented_generalisers(lg, sem):
    """Reference: name -> function(frozenset of values) -> value, from the prose of doc/logics/*.rst"""
    V = sem.V
    num = {n: v for n, v in lg.values}
    mx = lambda S, d: max(S, key=num.get) if S else d
    mn = lambda S, d: min(S, key=num.get) if S else d
    lo, hi = min(V, key=num.get), max(V, key=num.get)
    name = lg.name
    base = name
    for p in ('S4', 'S5', 'K', 'T', 'D'):
        if name.startswith(p) and name[len(p):] in ('FDE', 'K3', 'LP', 'L3', 'RM3', 'K3W', 'K3WQ', 'B3E', 'G3', 'GO', 'MH', 'NH', 'P3'):
            base = name[len(p):]
            break
    ex = lambda S: mx(S, lo)
    un = lambda S: mn(S, hi)
    if base == 'K3WQ':
        # doc/logics/k3wq.rst: N if N in M; else T (resp. F) if in M; else F (resp. T)
        ex = lambda S: 'N' if 'N' in S else ('T' if 'T' in S else 'F')
        un = lambda S: 'N' if 'N' in S else ('F' if 'F' in S else 'T')
    elif base == 'MH':
        ex = lambda S: 'T' if 'T' in S else ('N' if {'N', 'F'} <= set(S) else 'F')
    elif base == 'NH':
        un = lambda S: 'F' if 'F' in S else ('B' if {'B', 'T'} <= set(S) else 'T')
    elif base == 'GO':
        crunch = lambda v: 'T' if v == 'T' else 'F'
        ex = lambda S: mx({crunch(v) for v in S}, lo)
        un = lambda S: mn({crunch(v) for v in S}, hi)
    return dict(Existential=ex, Universal=un, Possibility=ex, Necessity=un)


def run(ctx, rep):
    m = ctx.m
    common.check_floors(ctx, rep, 'C08')
    r1(ctx, rep)
    r2(ctx, rep)
    r3(ctx, rep)
    r4(ctx, rep)
    r6(ctx, rep)


def r6(ctx, rep):
    """Compositionality end to end: R1 folds `value_of` with `is_sentence_opaque` given as a constant; here the whole chain is
    read from the logic's model MRO (sa.modelfold, shared with C07.R5): the value of a compound is the table applied to the
    values of its operands -- atoms, identical atoms, nested compounds and uninterpreted operands alike."""
    from .. import modelfold
    m = ctx.m
    R6 = rep.rule('C08.R6', 'Model.value_of of every logic folded end to end through its MRO (is_sentence_opaque included): a compound sentence evaluates '
                            'to the truth function applied to the values of its operands at the evaluated world, also when an operand is uninterpreted '
                            '(imported from C07.R5)')
    n = 0
    for lg in ctx.lgs:
        res, cons = modelfold.fold_value_of(m, ctx.lgs, lg, deep=rep.tier == 'thorough')
        rep.consult(*cons)
        for ok, case, detail in res:
            n += 1
            rep.instance(R6, ok=ok, nontrivial=(lg.name, case))
            if not ok:
                rep.finding(R6, f'C08.R6/{lg.name}/{case}', m.relfile(lg.modelcls.module), f'{lg.name}.Model.value_of', f'{case}: {detail}')
    rep.floor('C08.R6', 'evaluation cases', n, 5000)


def r1(ctx, rep):
    m = ctx.m
    R1 = rep.rule('C08.R1', 'dispatch of the recursive evaluator (folded over mocks)')
    f = lambda n: m.func(MODELS, f'BaseModel.{n}')
    rep.consult(*(m.loc(MODELS, f(n)) + f' BaseModel.{n}' for n in ('value_of', 'value_of_operated', 'value_of_quantified', '_unquantify_values', '_unmodal_values')))
    it = Interp(dict(NotImplementedError='NotImplementedError', ValueError=lambda *a: 'ValueError', Sentence=Obj('Sentence'),
                     check=Obj('check', inst=lambda *a: None), DenotationError='DenotationError'), where='models/__init__.py evaluator')
    types = {n: Obj(n, __name__=n) for n in ('Atomic', 'Predicated', 'Quantified', 'Operated')}
    for tname, T in types.items():
        for opaque in (False, True):
            calls = []
            mdl = Obj('model', __srcclass__=(m, ClassRef(MODELS, 'BaseModel')))
            mdl._check_finished = lambda: calls.append('chk')
            mdl.is_sentence_opaque = lambda s, o=opaque: o
            for n in ('opaque', 'atomic', 'predicated', 'quantified', 'operated'):
                setattr(mdl, f'value_of_{n}', (lambda n: (lambda s, **kw: (calls.append((n, kw)), f'V:{n}')[1]))(n))
            s = Obj('sentence', typ=T)
            r = it.safe(f('value_of'), [mdl, s], dict(world=3))
            want = 'opaque' if opaque else tname.lower()
            ok = r == f'V:{want}' and (want, {'world': 3}) in calls and calls[0] == 'chk'
            rep.instance(R1, ok=ok, nontrivial=('value_of', tname, opaque))
            if not ok:
                rep.finding(R1, f'C08.R1/value_of/{tname}/{"opaque" if opaque else "plain"}', m.loc(MODELS, f('value_of')), 'BaseModel.value_of',
                            f'{tname} sentence (opaque={opaque}) is not evaluated by value_of_{want} with the caller\'s keywords (after _check_finished): got {r!r}, calls {calls}')
    # value_of_operated
    tf_ops = frozenset({'Conj', 'Neg'})
    modal_ops = frozenset({'Poss', 'Nec'})
    for modal_logic in (True, False):
        for oper in ('Conj', 'Neg', 'Poss', 'Nec'):
            calls = []
            operands = ('a', 'b') if oper == 'Conj' else ('a',)
            opr = Obj(f'Operator.{oper}')
            opr.Possibility = opr if oper == 'Poss' else Obj('other')
            opr.Necessity = opr if oper == 'Nec' else Obj('other2')
            opr.__class__ = type('Op', (Obj,), {'__hash__': lambda s_: hash(s_._name), '__eq__': lambda s_, o: s_ is o})
            meta = Obj('Meta', modal=modal_logic, truth_functional_operators={opr} if oper in tf_ops else set(),
                       modal_operators={opr} if oper in modal_ops else set())
            mdl = Obj('model', __srcclass__=(m, ClassRef(MODELS, 'BaseModel')), Meta=meta, maxval=9, minval=0)
            mdl._check_finished = lambda: None
            mdl.value_of = lambda s, **kw: (calls.append(('value_of', s, kw)), f'v({s})')[1]
            mdl.truth_function = lambda o, *vals: (calls.append(('tf', o, vals)), 'TF')[1]
            mdl._unmodal_values = lambda s, **kw: (calls.append(('unmodal', kw)), (1, 5, 3))[1]
            it.g['maxceil'] = lambda ceil, it_, default=None: ('maxceil', ceil, tuple(it_), default)
            it.g['minfloor'] = lambda floor, it_, default=None: ('minfloor', floor, tuple(it_), default)

            class Sent(tuple):
                pass
            s = Sent(operands)
            s.operator = opr
            r = it.safe(f('value_of_operated'), [mdl, s], dict(world=2))
            if oper in tf_ops:
                ok = r == 'TF' and ('tf', opr, tuple(f'v({x})' for x in operands)) in calls and \
                    [c for c in calls if c[0] == 'value_of'] == [('value_of', x, {'world': 2}) for x in operands]
                why = 'a truth-functional operator is not evaluated as truth_function(oper, values of the operands in order, same keywords)'
            elif not modal_logic:
                ok = isinstance(r, Raises) and 'NotImplementedError' in r.text
                why = 'a modal operator in a non-modal model does not raise NotImplementedError'
            else:
                exp = ('maxceil', 9, (1, 5, 3), 0) if oper == 'Poss' else ('minfloor', 0, (1, 5, 3), 9)
                ok = r == exp and ('unmodal', {'world': 2}) in calls
                why = f'{oper} is not max/min over the accessible worlds\' values with the neutral default (got {r!r})'
            rep.instance(R1, ok=ok, nontrivial=('value_of_operated', oper, modal_logic))
            if not ok:
                rep.finding(R1, f'C08.R1/value_of_operated/{oper}/modal={modal_logic}', m.loc(MODELS, f('value_of_operated')), 'BaseModel.value_of_operated', f'{why}: {r!r}')
    # value_of_quantified (base)
    for quantified in (True, False):
        for q in ('Ex', 'Un'):
            qo = Obj(f'Quantifier.{q}')
            qo.Existential = qo if q == 'Ex' else Obj('o1')
            qo.Universal = qo if q == 'Un' else Obj('o2')
            mdl = Obj('model', __srcclass__=(m, ClassRef(MODELS, 'BaseModel')), Meta=Obj('Meta', quantified=quantified), maxval=9, minval=0)
            mdl._check_finished = lambda: None
            mdl._unquantify_values = lambda s, **kw: (4, 2)
            r = it.safe(f('value_of_quantified'), [mdl, Obj('s', quantifier=qo)])
            if not quantified:
                ok = isinstance(r, Raises) and 'NotImplementedError' in r.text
            else:
                ok = r == (('maxceil', 9, (4, 2), 0) if q == 'Ex' else ('minfloor', 0, (4, 2), 9))
            rep.instance(R1, ok=ok, nontrivial=('value_of_quantified', q, quantified))
            if not ok:
                rep.finding(R1, f'C08.R1/value_of_quantified/{q}/quantified={quantified}', m.loc(MODELS, f('value_of_quantified')), 'BaseModel.value_of_quantified',
                            f'{q}: expected {"NotImplementedError" if not quantified else "max/min over the instance values with the neutral default"}, got {r!r}')
    # instance streams
    class Const:
        def __init__(self, n):
            self.n = n

        def __rshift__(self, s):
            return ('inst', self.n, s)
    c1, c2 = Const(1), Const(2)
    mdl = Obj('model', __srcclass__=(m, ClassRef(MODELS, 'BaseModel')), constants=[c1, c2])
    mdl.value_of = lambda s, **kw: (s, tuple(sorted(kw.items())))
    r = it.generate(f('_unquantify_values'), [mdl, 'S'], dict(world=4))
    ok = r == [(('inst', 1, 'S'), (('world', 4),)), (('inst', 2, 'S'), (('world', 4),))]
    rep.instance(R1, ok=ok, nontrivial='_unquantify_values')
    if not ok:
        rep.finding(R1, 'C08.R1/_unquantify_values', m.loc(MODELS, f('_unquantify_values')), 'BaseModel._unquantify_values', f'does not yield the value of every constant instance once, with the keywords: {r!r}')
    mdl = Obj('model', __srcclass__=(m, ClassRef(MODELS, 'BaseModel')), R={0: [5, 6], 5: [7]})
    mdl.value_of = lambda s, **kw: (s, tuple(sorted(kw.items())))
    r = it.generate(f('_unmodal_values'), [mdl, Obj('s', lhs='A')], dict(world=0))
    ok = r == [('A', (('world', 5),)), ('A', (('world', 6),))]
    rep.instance(R1, ok=ok, nontrivial='_unmodal_values')
    if not ok:
        rep.finding(R1, 'C08.R1/_unmodal_values', m.loc(MODELS, f('_unmodal_values')), 'BaseModel._unmodal_values', f'does not yield the operand\'s value at every world accessible from the given world: {r!r}')
    # overrides in logic modules pass the evaluation keywords (world=...) on
    nsem = 0
    for lg in ctx.lgs:
        sem = ctx.sem(lg)
        nsem += 1
        rep.instance(R1, ok=not sem.kw_drops and not sem.stream_problems, nontrivial=(lg.name, 'kw-propagation'))
        for where, msg in sem.stream_problems:
            rep.finding(R1, f'C08.R1/{lg.name}/stream/{where.split(" ")[-1]}', where.split(' ')[0], f'{lg.name}: {where.split(" ")[-1]}', msg)
        for where, callee in sem.kw_drops:
            rep.finding(R1, f'C08.R1/{lg.name}/kw-dropped/{callee}', where.split(' ')[0], f'{lg.name}: {where.split(" ")[-1]}',
                        f'calls self.{callee}(...) without passing **kw on: the sub-evaluation happens at world 0 instead of the world being evaluated')
    # leaf lookups
    for name, store in (('value_of_atomic', 'atomics'), ('value_of_opaque', 'opaques')):
        fr = Obj('frame', **{store: {'p': 'VAL'}})
        mdl = Obj('model', __srcclass__=(m, ClassRef(MODELS, 'BaseModel')), frames={2: fr}, Meta=Obj('Meta', unassigned_value='UN'))
        mdl._check_finished = lambda: None
        r1_ = it.safe(f(name), [mdl, 'p'], dict(world=2))
        r2_ = it.safe(f(name), [mdl, 'q'], dict(world=2))
        ok = r1_ == 'VAL' and r2_ == 'UN'
        rep.instance(R1, ok=ok, nontrivial=name)
        if not ok:
            rep.finding(R1, f'C08.R1/{name}', m.loc(MODELS, f(name)), f'BaseModel.{name}', f'does not read frames[world].{store} with the unassigned value as default: {r1_!r}, {r2_!r}')
    interp = {('c',): 'PV'}
    fr = Obj('frame', predicates={'P': interp})
    mdl = Obj('model', __srcclass__=(m, ClassRef(MODELS, 'BaseModel')), frames={1: fr}, Meta=Obj('Meta', unassigned_value='UN'), constants={'c', 'd'})
    mdl._check_finished = lambda: None
    s_ok = Obj('s', params=('c',), predicate='P')
    s_un = Obj('s', params=('d',), predicate='P')
    s_bad = Obj('s', params=('z',), predicate='P')
    r = [it.safe(f('value_of_predicated'), [mdl, x], dict(world=1)) for x in (s_ok, s_un, s_bad)]
    ok = r[0] == 'PV' and r[1] == 'UN' and isinstance(r[2], Raises) and 'DenotationError' in r[2].text
    rep.instance(R1, ok=ok, nontrivial='value_of_predicated')
    if not ok:
        rep.finding(R1, 'C08.R1/value_of_predicated', m.loc(MODELS, f('value_of_predicated')), 'BaseModel.value_of_predicated', f'lookup/default/denotation check changed: {r!r}')


def r2(ctx, rep):
    m, lgs = ctx.m, ctx.lgs
    R2 = rep.rule('C08.R2', 'quantifier and modal generalisers of every logic equal the documented ones on every set of instance values')
    n = 0
    for lg in lgs:
        sem = ctx.sem(lg)
        ref = documented_generalisers(lg, sem)
        for g, tbl in sem.gen.items():
            for S, got in tbl.items():
                if g in ('Existential', 'Universal') and not S:
                    continue
                n += 1
                want = ref[g](S)
                ok = got == want
                rep.instance(R2, ok=ok, sample=dict(logic=lg.name, generaliser=g, values=sorted(S), value=got), nontrivial=(lg.name, g, tuple(sorted(S))))
                if not ok:
                    rep.finding(R2, f'C08.R2/{lg.name}/{g}/{{{"".join(sorted(S))}}}', m.relfile(lg.modelcls.module), f'{lg.name}.Model',
                                f'{g} over instance values {sorted(S)} evaluates to {got}, documented value is {want}',
                                logic=lg.name, generaliser=g, values=sorted(S), got=got, want=want)
        rep.consult(*sem.consulted)
    rep.floor('C08.R2', 'generaliser obligations', n, 1400)
    gen = m.getattr(ClassRef(MODELS, 'BaseModel.TruthFunction'), 'generalizers')
    want = {('Quantifier', 'Existential'): 'Disjunction', ('Quantifier', 'Universal'): 'Conjunction',
            ('Operator', 'Possibility'): 'Disjunction', ('Operator', 'Necessity'): 'Conjunction'}
    got = {(k.enum, k.member): v.member for k, v in (gen or {}).items() if hasattr(k, 'enum') and hasattr(v, 'member')}
    ok = got == want
    rep.instance(R2, ok=ok, nontrivial='generalizers-map')
    if not ok:
        rep.finding(R2, 'C08.R2/generalizers-map', m.relfile(MODELS), 'BaseModel.TruthFunction.generalizers', f'mapping {got} differs from existential/possibility -> disjunction, universal/necessity -> conjunction')
    # maxceil / minfloor folded
    it = Interp(dict(ValueError=ValueError), where='tools/__init__.py _limit_best')
    lb = m.func(TOOLS, '_limit_best')
    import operator as _o
    it.g['lt'], it.g['gt'] = _o.lt, _o.gt
    it.g['_limit_best'] = lambda *a: it.call(lb, list(a))
    rep.consult(m.loc(TOOLS, lb) + ' _limit_best')
    for name, fn_ref, limit in (('maxceil', max, 2), ('minfloor', min, 0)):
        fn = m.func(TOOLS, name)
        for ln in range(0, 6 if rep.tier == 'thorough' else 4):
            for seq in itertools.product((0, 1, 2), repeat=ln):
                r = it.safe(fn, [limit, iter(seq), 'DEFAULT'])
                want = fn_ref(seq) if seq else 'DEFAULT'
                ok = r == want
                rep.instance(R2, ok=ok, nontrivial=(name, seq))
                if not ok:
                    rep.finding(R2, f'C08.R2/{name}/{seq}', m.loc(TOOLS, fn), name, f'{name}({limit}, {list(seq)}, default) = {r!r}, expected {want!r}')


def r3(ctx, rep):
    m = ctx.m
    R3 = rep.rule('C08.R3', 'the finished/not-finished guards; Model.finish() of every logic folded end to end (completion, frame condition, identity)')
    # state guards folded: every reader refuses before finish(), every writer after it -- with IllegalStateError, before touching anything.
    # The mock model has no state beyond `finished`: whatever a method touches before its guard shows up as another error.
    class IllegalStateError(Exception):
        pass
    n = 0

    def guard_case(cls, name, finished):
        mdl = Obj('model', __srcclass__=(m, cls), finished=finished, _finished=finished)
        itg = Interp(dict(IllegalStateError=IllegalStateError, Emsg=Obj('Emsg', IllegalState=lambda *a: IllegalStateError(*a))), where=f'{cls.qualname}.{name}')
        fn_, owner = m.method(cls, name)
        if not isinstance(fn_, FuncRef):
            return None, None
        a = fn_.node.args
        npos = len(a.posonlyargs) + len(a.args) - 1
        try:
            if any(isinstance(x, (ast.Yield, ast.YieldFrom)) for x in ast.walk(fn_.node)):
                itg.generate(fn_.node, [mdl] + [Obj(f'arg{i}') for i in range(npos)])
            else:
                itg.call(fn_.node, [mdl] + [Obj(f'arg{i}') for i in range(npos)])
            return fn_, 'returns normally'
        except IllegalStateError:
            return fn_, None
        except Raised as e:
            return fn_, f'raises {e.text}'
        except Exception as e:      # noqa: BLE001
            return fn_, f'raises {type(e).__name__}: {e}'
    base = ClassRef(MODELS, 'BaseModel')
    cd = m.clsdef(base)
    guarded = [st.name for st in cd.body if isinstance(st, ast.FunctionDef) and
               (st.name.startswith('set_') or st.name.startswith('value_of') or st.name in ('read_branch', '_read_node', '_complete_frames', 'finish'))]
    targets = [(base, nm) for nm in guarded]
    for lg in ctx.lgs:
        for nm in ('value_of_quantified', 'value_of_operated', 'finish'):
            f, owner = m.method(lg.modelcls, nm)
            if isinstance(f, FuncRef) and owner.module != MODELS and (owner, nm) not in targets:
                targets.append((owner, nm))
    for cls, nm in targets:
        wrong = not nm.startswith('value_of')      # readers need a finished model, writers an unfinished one
        fn_, problem = guard_case(cls, nm, finished=wrong)
        if fn_ is None:
            continue
        n += 1
        rep.instance(R3, ok=problem is None, nontrivial=(cls.qualname, nm))
        rep.consult(m.floc(fn_) + f' {cls.qualname}.{nm}')
        if problem is not None:
            rep.finding(R3, f'C08.R3/guard/{cls.short}.{nm}', m.floc(fn_), f'{cls.short}.{nm}',
                        f'called on a model that is {"already" if wrong else "not yet"} finished it {problem}; expected IllegalStateError before anything else')
    rep.floor('C08.R3', 'guarded methods', n, 14)
    cpl_finish_fold(ctx, rep, R3)
    n = common.finish_folds(ctx, rep, R3, 'C08.R3')
    rep.floor('C08.R3', 'finish pre-states', n, 500)
    # identity completion of the classical family
    R5 = rep.rule('C08.R5', 'classical family, finish() folded over every order of setting identity / predicate values: identity becomes an equivalence '
                            'on the constants and every predicate extension is closed under replacing a constant by an identical one')
    from .. import finishfold
    from .c04 import designation_family
    n = 0
    for lg in ctx.lgs:
        if designation_family(ctx, lg) != 'negation':
            continue
        res, cons = finishfold.fold_identity_completion(m, ctx.lgs, lg)
        rep.consult(*cons)
        for ok, label, kind, text in res:
            n += 1
            rep.instance(R5, ok=ok, nontrivial=(lg.name, label, kind))
            if not ok:
                rep.finding(R5, f'C08.R5/{lg.name}/{label}/{kind}', m.relfile('pytableaux.logics.cpl'), f'{lg.name}.Model.finish',
                            f'{lg.name}, values set in the order [{label}]: {text}', logic=lg.name, scenario=label, kind=kind)
    rep.floor('C08.R5', 'identity scenarios', n, 60)


def cpl_finish_fold(ctx, rep, R3):
    """Classical family: CPL.Model.finish folded -- identity/existence completion reaches every world,
    including worlds known only through the access relation, before the model is marked finished."""
    import collections
    m = ctx.m
    CPL = 'pytableaux.logics.cpl'
    fn = m.func(CPL, 'Model.finish')
    rep.consult(m.loc(CPL, fn) + ' cpl.Model.finish')
    from collections import deque
    for worlds_with_frames, worlds_in_R in (({0}, {0, 1}), ({0, 2}, {0, 2}), ({0}, {0}), ({0, 1}, {0, 1, 5})):
        log = []

        def mkframe():
            return Obj('frame', predicates=collections.OrderedDict(P='interp'))
        frames = collections.OrderedDict((w, mkframe()) for w in sorted(worlds_with_frames))
        mdl = Obj('model', __srcclass__=(m, ClassRef(CPL, 'Model')), frames=frames, R={w: set() for w in worlds_in_R})

        def complete():
            log.append('complete_frames')
            for w in mdl.R:
                frames.setdefault(w, mkframe())
        mdl._check_not_finished = lambda: None
        mdl._complete_frames = complete
        mdl._agument_extension_with_identicals = lambda pred, w: log.append(('identicals', pred, w))
        mdl._ensure_self_identity = lambda w: log.append(('identity', w))
        mdl._ensure_self_existence = lambda w: log.append(('existence', w))
        sup = Obj('super', finish=lambda: (log.append('base-finish'), mdl)[1])
        it = Interp(dict(deque=deque, super=lambda: sup), where='logics/cpl.py Model.finish')
        r = it.safe(fn, [mdl])
        allw = sorted(worlds_with_frames | worlds_in_R)
        got_id = sorted(x[1] for x in log if isinstance(x, tuple) and x[0] == 'identity')
        got_ex = sorted(x[1] for x in log if isinstance(x, tuple) and x[0] == 'existence')
        got_au = sorted({x[2] for x in log if isinstance(x, tuple) and x[0] == 'identicals'})
        ok = r is mdl and got_id == allw and got_ex == allw and got_au == allw and log and log[-1] == 'base-finish'
        case = f'frames at worlds {sorted(worlds_with_frames)}, access relation mentions {sorted(worlds_in_R)}'
        rep.instance(R3, ok=ok, sample=dict(fold='cpl.Model.finish', case=case), nontrivial=('cpl.finish', case))
        if not ok:
            rep.finding(R3, f'C08.R3/cpl.Model.finish/{case}', m.loc(CPL, fn), 'cpl.Model.finish',
                        f'{case}: self-identity ensured at {got_id}, self-existence at {got_ex}, identity-respecting extensions at {got_au}; '
                        f'expected all of {allw} before the base finish (calls: {[x if isinstance(x, str) else x[0] for x in log]})')
    # every classical-family model uses this finish
    for lg in ctx.lgs:
        from .c04 import designation_family
        if designation_family(ctx, lg) == 'negation':
            f_, owner = m.method(lg.modelcls, 'finish')
            ok = owner is not None and owner.module == CPL
            rep.instance(R3, ok=ok, nontrivial=(lg.name, 'cpl-finish'))
            if not ok:
                rep.finding(R3, f'C08.R3/{lg.name}/finish', m.relfile(lg.module), f'{lg.name}.Model.finish', 'classical-family model does not use cpl.Model.finish')


def r4(ctx, rep):
    m = ctx.m
    R4 = rep.rule('C08.R4', 'Horn clauses of each Access.enforce = frame condition of the class; each logic uses the class of its frame')
    want = {'BaseModel.Access': frozenset(), 'SerialAccess': frames.FRAME_OF['D'], 'ReflexiveAccess': frames.FRAME_OF['T'],
            'ReflexiveTransitiveAccesss': frames.FRAME_OF['S4'], 'GlobalAccess': frames.FRAME_OF['S5']}
    for cls, exp in want.items():
        got, info = frames.enforce_clauses(m, ClassRef(MODELS, cls))
        ok = got == exp
        rep.instance(R4, ok=ok, sample=dict(cls=cls, clauses=sorted(c[0] for c in got)), nontrivial=cls)
        rep.consult(*info['where'])
        for pr in dict.fromkeys(info['problems']):
            rep.instance(R4, ok=False, nontrivial=(cls, pr[:30]))
            rep.finding(R4, f'C08.R4/{cls}/{pr[:60]}', info['where'][0].split(' ')[0], cls, pr)
        if not ok:
            rep.finding(R4, f'C08.R4/{cls}', info['where'][0].split(' ')[0], cls, f'enforce() yields {sorted(c[0] for c in got)}, the class\'s frame condition is {sorted(c[0] for c in exp)}')
    n = 0
    for lg in ctx.lgs:
        exp = frames.FRAME_OF[frames.expected_frame(lg, ctx.lgs)] if lg.modal else frozenset()
        got, info = frames.enforce_clauses(m, lg.accesscls)
        n += 1
        ok = got == exp
        rep.instance(R4, ok=ok, nontrivial=(lg.name, 'access'))
        if not ok:
            rep.finding(R4, f'C08.R4/{lg.name}/access', m.relfile(lg.module), f'{lg.name}.Model.Access',
                        f'{lg.name} models enforce {sorted(c[0] for c in got)}; its documented frame condition is {sorted(c[0] for c in exp)}')
    rep.floor('C08.R4', 'logics', n, 57)
    # Access.add / has / addall folded on a real defaultdict(set): a pair is recorded once, both worlds become keys, has() is exact
    from collections import defaultdict as _dd
    from ..bind import bound_class as _bc
    cons_ = set()
    ita = Interp({}, where='models/__init__.py BaseModel.Access', modtree=m.trees[MODELS])
    AccM = _bc(m, ita, ClassRef(MODELS, 'BaseModel.Access'), base=_dd, consulted=cons_)
    rep.consult(*sorted(cons_))
    worlds = (0, 1, 2)
    pairs = [(a_, b_) for a_ in worlds for b_ in worlds]
    for seq in [()] + [(p_,) for p_ in pairs] + [((0, 1), (1, 2)), ((0, 1), (0, 1)), ((2, 2), (0, 2), (2, 0))]:
        for via in ('add', 'addall'):
            R = AccM(set)
            try:
                if via == 'add':
                    for p_ in seq:
                        R.add(p_)
                else:
                    R.addall(iter(seq))
                before = {k: set(v) for k, v in R.items()}
                has = {p_: R.has(p_) for p_ in pairs + [(5, 0), (0, 5)]}
                after = {k: set(v) for k, v in R.items()}
                err = None
            except (Raised, TypeError, KeyError, AttributeError, ValueError) as e:
                err = f'{type(e).__name__}: {getattr(e, "text", e)}'
                before = after = has = None
            want = {}
            for a_, b_ in seq:
                want.setdefault(a_, set()).add(b_)
                want.setdefault(b_, set())
            ok = err is None and before == want and has == {p_: p_ in set(seq) for p_ in has} and all(after.get(k) == v for k, v in before.items()) and \
                all(not v for k, v in after.items() if k not in before)
            rep.instance(R4, ok=ok, nontrivial=('Access', via, seq))
            if not ok:
                rep.finding(R4, f'C08.R4/Access.{via}', m.relfile(MODELS), f'BaseModel.Access.{via}',
                            f'{via} of {list(seq)}: relation {before} (expected {want}), has() = {has}, error {err}: a pair is recorded with both worlds registered and has() answers exactly the recorded pairs')
                break
