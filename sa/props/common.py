"""Shared T-pipeline results: rule exactness records for all group slots."""
from __future__ import annotations

from dataclasses import dataclass

from .. import oblig
from ..core import AnalysisError
from ..schema import Schema

FLOOR_LOGICS = 57
FLOOR_GROUP_SLOTS = 2407
FLOOR_CLOSURE_SLOTS = 116
FLOOR_RULE_CLASSES = 225
FLOOR_OPERATOR_SLOTS = 1605
FLOOR_QUANTIFIER_SLOTS = 416
FLOOR_MODAL_SLOTS = 316


@dataclass
class Slot:
    lg: object
    group: int
    rc: object
    kind: str | None          # operator / quantifier / modal / None (frame rules, identity)
    sch: Schema | None
    n: int                    # valuations enumerated
    fails: list               # [(direction, valuation)]


def slots(ctx):
    if getattr(ctx, '_slots', None) is not None:
        return ctx._slots
    out = []
    lex = ctx.lgs.lex
    for lg in ctx.lgs:
        sem = ctx.sem(lg)
        for gi, rc in lg.all_group_rules():
            a = ctx.lgs.rule_attrs(rc)
            if a.predicate or not (a.operator or a.quantifier):
                out.append(Slot(lg, gi, rc, None, None, 0, []))
                continue
            sch = ctx.ex.extract(rc)
            try:
                kind, (n, fails) = oblig.check_rule(lg, sem, sch, lex)
            except oblig.Free as e:
                kind, n, fails = oblig.rule_kind(lg, sch, lex), 0, [('illformed', str(e))]
            out.append(Slot(lg, gi, rc, kind, sch, n, fails))
    ctx._slots = out
    return out


def check_floors(ctx, rep, rid):
    t = ctx.lgs.totals()
    rep.floor(rid, 'logics', t['logics'], FLOOR_LOGICS)
    rep.floor(rid, 'group slots', t['group_slots'], FLOOR_GROUP_SLOTS)
    rep.floor(rid, 'closure slots', t['closure_slots'], FLOOR_CLOSURE_SLOTS)
    rep.floor(rid, 'rule classes', t['rule_classes'], FLOOR_RULE_CLASSES)


def exactness(ctx, rep, rid_prefix, directions, rids=None):
    """Record one instance per (logic, rule slot); report a finding per failing
    valuation in the wanted direction(s).  rids maps kind -> rule id."""
    rids = rids or {'operator': f'{rid_prefix}', 'quantifier': f'{rid_prefix}', 'modal': f'{rid_prefix}'}
    counts = dict(operator=0, quantifier=0, modal=0)
    for s in slots(ctx):
        if s.kind is None:
            continue
        counts[s.kind] += 1
        rid = rids[s.kind]
        # a rule that is skipped in some states leaves an open branch unsaturated: it matters wherever 'incomplete' does (not for soundness of 'valid')
        bad = [(d, v) for d, v in s.fails if d in directions or d == 'illformed'] + ([('skipped', p_) for p_ in s.sch.problems] if 'incomplete' in directions else [])
        rep.instance(rid, ok=not bad,
                     sample=dict(logic=s.lg.name, rule=s.rc.name, schema=s.sch.show(), valuations=s.n,
                                 defined_at=ctx.m.floc(s.sch.fn)),
                     nontrivial=(s.lg.name, s.rc.name))
        rep.consult(ctx.m.floc(s.sch.fn))
        for d, v in bad:
            vkey = v
            if d == 'skipped':
                vkey, v = v.split('|', 1)
            rep.finding(rid, f'{rid}/{s.lg.name}/{s.rc.name}/{d}/{vkey}', ctx.m.floc(s.sch.fn),
                        f'{s.lg.name}:{s.rc.short}',
                        f'rule {s.rc.name} of {s.lg.name} is {d} at valuation {v}: '
                        + ('the node is satisfiable but no extension is' if d == 'unsound'
                           else 'an extension is satisfiable but the node is not' if d == 'incomplete'
                           else 'the rule is not applied in some states' if d == 'skipped'
                           else 'the schema cannot be given a meaning (an item refers to a value that does not exist there)')
                        + f' [schema {s.sch.show()}]',
                        logic=s.lg.name, rule=s.rc.name, direction=d, valuation=v, schema=s.sch.show())
    return counts


def bookkeeping(ctx, rep, R, prefix, only=None):
    """The helpers that decide *which* nodes / constants / worlds a rule is applied to, folded as inductive steps
    (sa.helpersfold).  Shared by C04.R7 (rules reach every instance), C02.R6 and C03.R5 (an open finished branch is saturated)."""
    from .. import helpersfold
    m = ctx.m
    n = 0
    for fold in (helpersfold.fold_filter_cache, helpersfold.fold_nodeconsts, helpersfold.fold_extended_quantifier_targets,
                 helpersfold.fold_world_index, helpersfold.fold_unserial, helpersfold.fold_counts, helpersfold.fold_serial_rule):
        if only and fold.__name__ not in only:
            continue
        res, cons = fold(m)
        rep.consult(*cons)
        for ok, case, detail in res:
            n += 1
            rep.instance(R, ok=ok, sample=dict(fold=fold.__name__, case=case), nontrivial=(fold.__name__, case))
            if not ok:
                rep.finding(R, f'{prefix}/{fold.__name__[5:]}/{case}', cons[0].split(' ')[0], fold.__name__[5:], f'{case}: {detail}')
    return n


def finish_folds(ctx, rep, R, prefix):
    """Model.finish() of every logic folded end to end (sa.finishfold); shared by C08.R3 and C20.R4."""
    from .. import finishfold
    m = ctx.m
    n = 0
    seen = set()
    for lg in ctx.lgs:
        res, cons = finishfold.fold_finish(m, ctx.lgs, lg, deep=rep.tier == 'thorough')
        rep.consult(*cons)
        k = id(res)
        first = k not in seen
        seen.add(k)
        for ok, case, detail in res:
            n += 1
            rep.instance(R, ok=ok, sample=dict(logic=lg.name, case=case) if first else None, nontrivial=(lg.name, case))
            if not ok:
                rep.finding(R, f'{prefix}/{lg.name}/finish/{case}', m.relfile(lg.modelcls.module), f'{lg.name}.Model.finish', f'{lg.name}: {case}: {detail}')
    return n


def limit_guards(ctx, rep, R, prefix):
    "helpersfold.fold_limit_guards as a rule of the calling property (C11.R4, C10.R5, C02.R7)"
    from .. import helpersfold
    res, cons = helpersfold.fold_limit_guards(ctx.m, ctx.lgs)
    rep.consult(*cons)
    for ok, case, detail in res:
        rep.instance(R, ok=ok, nontrivial=case)
        if not ok:
            rep.finding(R, f'{prefix}/{case}', cons[0].split(' ')[0] if cons else 'pytableaux/proof/rules.py', case.split(':')[0], f'{case}: {detail}')
    rep.floor(R, 'limit guard states', len(res), 12)


def identity_rule(ctx, rep, R, prefix):
    """IdentityIndiscernability folded over mock branches with several worlds (rulefold; = C01.R9 / C10.R8): the substitution at a
    world is offered unless its result is on the branch at that world.  Shared by the properties that compare verdicts across
    runs or read a countermodel off an open branch: a substitution switched off by a copy elsewhere leaves a branch unsaturated."""
    from .. import rulefold
    res, cons = rulefold.fold_identity_indiscernability(ctx.m, deep=rep.tier == 'thorough')
    rep.consult(*cons)
    for ok, case, detail in res:
        rep.instance(R, ok=ok, nontrivial=case)
        if not ok:
            rep.finding(R, f'{prefix}/{case}', cons[0].split(' ')[0], 'cpl.Rules.IdentityIndiscernability._get_node_targets', f'{case}: {detail}')
    rep.floor(prefix, 'identity/predicate branch shapes', len(res), 120)
    return len(res)


def fair_gate(ctx, rep, R, prefix):
    """No starvation behind the fairness gate (helpersfold.fold_fair_gate); shared by C02.R8 and the properties that compare
    verdicts across runs (C09 premise order, C10 added premises, C11 logic pairs): an unsaturated open branch flips a verdict."""
    from .. import helpersfold
    res, cons, nsites = helpersfold.fold_fair_gate(ctx.m, ctx.lgs)
    rep.consult(*cons)
    seen = set()
    for ok, case, detail, where in res:
        rep.instance(R, ok=ok, nontrivial=case)
        if not ok:
            k = case.split(':')[0]
            if k in seen:
                continue
            seen.add(k)
            rep.finding(R, f'{prefix}/{k}', where.split(' ')[0], k, f'{case}: {detail}')
    rep.floor(prefix, 'gated rule producers', nsites, 1)
    rep.floor(prefix, 'states', len(res), 30)
    return len(res)
