"""C15 -- substitution and the derived attributes of sentences are exact (one structural level, folded)."""
from __future__ import annotations

import ast
import itertools

from .. import astq
from ..core import AnalysisError
from ..minieval import Interp, Obj, Raises
from ..model import ClassRef

LEVEL = 'other'
EXPLANATION = (
    'Static analysis (inductive step by folding definitions over mock children). For each of the four sentence classes, substitute() and each derived attribute (constants, variables, predicates, atomics, operators, quantifiers) is folded from source over mock children carrying arbitrary attribute values and compared with the structural specification for one level of the tree: substitution rebuilds with the same head and replaces exactly the old parameter in every child, in order; unquantify(c) = body.substitute(Constant(c), variable); c >> Q = Q.unquantify(c); negative() of a negation is its operand; every aggregate reads the same-named attribute of every child, sequences keep prefix order with the own operator/quantifier first. By induction on the sentence tree this gives exactness for all sentences; the induction itself (and caching by lazy.prop) is the assumption, not enumerated. Parameter mocks compare by value and the old parameter is also given as an equal item that is another object. (R3) the equality rebuilt sentences are cached and compared by is structural: the constructor fold of C14.R1 imported (distinct specs, bound variable included, get distinct keys).')
TRUSTED = ['CPython ast', 'sa.minieval']
ASSUMPTIONS = ['lazy.prop caches the first computed value (tools/lazy.py not analysed)', 'sentences are immutable after construction (C14.R3)']

LEX = 'pytableaux.lang.lex'
ATTRS = ('constants', 'variables', 'predicates', 'atomics', 'operators', 'quantifiers')
SETS = ('constants', 'variables', 'predicates', 'atomics')


def getter_or_attr(m, cls, name):
    "the FunctionDef computing <cls>.<name> (property / lazy.prop), or ('const', value-text) for class attributes"
    cd = m.clsdef(ClassRef(LEX, cls))
    for st in cd.body:
        if isinstance(st, ast.FunctionDef) and st.name == name and any(d in ('property', 'lazy.prop') for d in astq.decorators(st)):
            return st
        if isinstance(st, ast.Assign) and any(isinstance(t, ast.Name) and t.id == name for t in st.targets):
            return ('const', astq.u(st.value))
    return None


def run(ctx, rep):
    m = ctx.m
    R1 = rep.rule('C15.R1', 'substitute / unquantify / >> / negative, folded over mock children')
    R2 = rep.rule('C15.R2', 'the 4 x 6 matrix of derived attributes: defined everywhere; each aggregate reads the same-named attribute of every child, in order')
    ConstantT, VariableT, QuantifiedT, OperatedT = Obj('Constant'), Obj('Variable'), Obj('Quantified'), Obj('Operated')
    NEG = Obj('Operator.Negation')
    import itertools as _it
    it = Interp(dict(Constant=lambda c: ('Constant', c), Variable=VariableT, Quantified=QuantifiedT, Operated=OperatedT,
                     Operator=Obj('Operator', Negation=NEG), chain=_it.chain, frozenset=frozenset, tuple=tuple,
                     NotImplemented=NotImplemented, EMPTY_SET=frozenset(), EMPTY_SEQ=()), where='lang/lex.py sentence classes')
    it.g['Constant'] = ConstantT
    ConstantT.__class__ = type('CT', (Obj,), {'__call__': lambda s_, c: ('Constant', c)})
    # constants and variables share one coordinate space: a and x both have coordinates (0, 0)
    # (lexical items are compared by value: the item cache is bounded, so an equal item may be a different object)
    class P(Obj):
        def __eq__(self, o):
            return isinstance(o, P) and (o._typ, o.spec) == (self._typ, self.spec)

        def __ne__(self, o):
            return not self.__eq__(o)

        def __hash__(self):
            return hash((id(self._typ), self.spec))
    a, b, c, x = tuple(P(n, typ=ConstantT, spec=(i, 0), index=i, subscript=0) for i, n in enumerate('abc')) + (P('x', typ=VariableT, spec=(0, 0), index=0, subscript=0),)
    a_eq = P("a'", typ=ConstantT, spec=(0, 0), index=0, subscript=0)       # equal to a, another object
    x_eq = P("x'", typ=VariableT, spec=(0, 0), index=0, subscript=0)

    # ---- Predicated
    class Params(tuple):
        __eq__ = lambda s_, o: s_ is o
        __hash__ = lambda s_: id(s_)
    f_sub = m.func(LEX, 'Predicated.substitute')
    rep.consult(m.loc(LEX, f_sub) + ' Predicated.substitute')
    for params in ((a, b, a), (a, x), (b,), (x, x, a)):
        for pold, pnew in itertools.product((a, b, x, a_eq, x_eq), (a, c, x)):
            s = Params(params)
            s.params = tuple(params)
            s.__srcclass__ = (m, ClassRef(LEX, 'Predicated'))
            s.predicate = lambda ps: ('PRED', tuple(ps))
            r = it.safe(f_sub, [s, pnew, pold])
            want = s if pnew == pold else ('PRED', tuple(pnew if p == pold else p for p in params))
            ok = r is want if pnew == pold else (isinstance(r, tuple) and len(r) == 2 and r[0] == 'PRED' and len(r[1]) == len(want[1])
                                                 and all(g is w or (g == w and w is not pnew) for g, w in zip(r[1], want[1])))
            rep.instance(R1, ok=ok, nontrivial=('Predicated.substitute', tuple(p._name for p in params), pold._name, pnew._name))
            if not ok:
                rep.finding(R1, f'C15.R1/Predicated.substitute/{[p._name for p in params]}/{pnew._name}-for-{pold._name}', m.loc(LEX, f_sub), 'Predicated.substitute',
                            f'substituting {pnew._name} for {pold._name} in params {[p._name for p in params]} gives {r!r}, expected {want!r}'
                            + (' (the old parameter is given as an equal item that is another object)' if pold in (a_eq, x_eq) else ''))
    for attr, T in (('constants', ConstantT), ('variables', VariableT)):
        g = getter_or_attr(m, 'Predicated', attr)
        ok = isinstance(g, ast.FunctionDef)
        if ok:
            s = Params((a, x, b, a))
            s.params = (a, x, b, a)
            s.__srcclass__ = (m, ClassRef(LEX, 'Predicated'))
            r = it.safe(g, [s])
            want = frozenset(p for p in (a, x, b, a) if p._typ is T)
            ok = r == want
        rep.instance(R2, ok=ok, nontrivial=('Predicated', attr))
        if not ok:
            rep.finding(R2, f'C15.R2/Predicated.{attr}', m.relfile(LEX), f'Predicated.{attr}', f'is not the set of {attr} among the parameters (got {r!r})')
    # Predicated constants
    init = m.func(LEX, 'Predicated.__init__')
    itc = Interp(dict(Predicate=lambda v: v, Parameter=lambda v: v, Sentence=lambda v: v, Operator=lambda v: v, Quantifier=lambda v: v, Variable=lambda v: v,
                      frozenset=frozenset, tuple=tuple, TypeError=TypeError, IndexError=IndexError,
                      Emsg=Obj('Emsg', ArityMismatch=lambda *a_: TypeError('arity'))), where='lang/lex.py constructors')
    itc.g['isinstance'] = lambda o, t: isinstance(o, t) if isinstance(t, type) else False
    mk = lambda n, **kw: Obj(n, spec=(n,), ident=('X', (n,)), sort_tuple=(1, len(n)), **kw)
    PR = mk('F', arity=2)
    p1, p2 = mk('a'), mk('b')
    sp = Obj('self', TYPE=Obj('TYPE', rank=5))
    r = itc.safe(init, [sp, PR, (p1, p2)])
    ok = not isinstance(r, Raises) and getattr(sp, 'predicate', None) is PR and tuple(getattr(sp, 'params', ())) == (p1, p2) and getattr(sp, 'predicates', None) == frozenset((PR,))
    rep.instance(R2, ok=ok, nontrivial=('Predicated', 'predicates'))
    if not ok:
        rep.finding(R2, 'C15.R2/Predicated.predicates', m.loc(LEX, init), 'Predicated.__init__',
                    f'after construction predicate/params/predicates are {getattr(sp, "predicate", None)!r}/{getattr(sp, "params", None)!r}/{getattr(sp, "predicates", None)!r}, expected the predicate, the parameters in order, {{the predicate}}')
    for attr, want in (('operators', 'EMPTY_SEQ'), ('quantifiers', 'EMPTY_SEQ'), ('atomics', 'EMPTY_SET')):
        g = getter_or_attr(m, 'Predicated', attr)
        ok = g == ('const', want)
        rep.instance(R2, ok=ok, nontrivial=('Predicated', attr))
        if not ok:
            rep.finding(R2, f'C15.R2/Predicated.{attr}', m.relfile(LEX), f'Predicated.{attr}', f'is {g}, expected the empty {want}')
    # ---- Atomic
    for attr, want in (('predicates', 'EMPTY_SET'), ('constants', 'EMPTY_SET'), ('variables', 'EMPTY_SET'), ('quantifiers', 'EMPTY_SEQ'), ('operators', 'EMPTY_SEQ')):
        g = getter_or_attr(m, 'Atomic', attr)
        ok = g == ('const', want)
        rep.instance(R2, ok=ok, nontrivial=('Atomic', attr))
        if not ok:
            rep.finding(R2, f'C15.R2/Atomic.{attr}', m.relfile(LEX), f'Atomic.{attr}', f'is {g}, expected the empty {want}')
    ai = m.func(LEX, 'Atomic.__init__')
    sa_ = Obj('self')
    ita = Interp(dict(frozenset=frozenset, super=lambda *a_: Obj('super', __init__=lambda *x: None)), where='lang/lex.py Atomic.__init__')
    r = ita.safe(ai, [sa_, 0, 0])
    ok = getattr(sa_, 'atomics', None) == frozenset((sa_,))
    rep.instance(R2, ok=ok, nontrivial=('Atomic', 'atomics'))
    if not ok:
        rep.finding(R2, 'C15.R2/Atomic.atomics', m.loc(LEX, ai), 'Atomic.__init__', f'atomics is {getattr(sa_, "atomics", r)!r}, expected {{self}}')
    # base Sentence.substitute returns self (atoms have no parameters)
    bs = m.func(LEX, 'Sentence.substitute')
    ss = Obj('atom')
    r = it.safe(bs, [ss, 'PNEW', 'POLD'])
    ok = r is ss
    rep.instance(R1, ok=ok, nontrivial='Sentence.substitute')
    if not ok:
        rep.finding(R1, 'C15.R1/Sentence.substitute', m.loc(LEX, bs), 'Sentence.substitute', f'the default (atomic) substitution returns {r!r}, not the sentence itself')

    # ---- mock child sentence with arbitrary attribute values
    def child(tag):
        return Obj(f'child{tag}', constants=frozenset({f'c{tag}', 'shared'}), variables=frozenset({f'v{tag}'}), predicates=frozenset({f'P{tag}'}),
                   atomics=frozenset({f'A{tag}', 'sharedA'}), operators=(f'op{tag}a', f'op{tag}b'), quantifiers=(f'q{tag}',),
                   substitute=lambda pn, po, t=tag: ('SUB', t, pn, po))

    # ---- Quantified
    body = child(1)
    Q = lambda v, s: ('QUANT', v, s)
    qs = Obj('quantified', quantifier=Q, variable='VAR', sentence=body, items=(Q, 'VAR', body))
    for attr in ATTRS:
        g = getter_or_attr(m, 'Quantified', attr)
        ok = isinstance(g, ast.FunctionDef)
        r = None
        if ok:
            r = it.safe(g, [qs])
            want = (Q,) + body.quantifiers if attr == 'quantifiers' else getattr(body, attr)
            ok = r == want
        rep.instance(R2, ok=ok, nontrivial=('Quantified', attr))
        if not ok:
            rep.finding(R2, f'C15.R2/Quantified.{attr}', m.relfile(LEX), f'Quantified.{attr}',
                        ('is not (own quantifier, *body quantifiers)' if attr == 'quantifiers' else f"is not the body's {attr}") + f' (got {r!r})')
    fq = m.func(LEX, 'Quantified.substitute')
    for pn, po in (('n', 'o'), ('n', 'n')):
        r = it.safe(fq, [qs, pn, po])
        want = qs if pn == po else ('QUANT', 'VAR', ('SUB', 1, pn, po))
        ok = (r is qs) if pn == po else r == want
        rep.instance(R1, ok=ok, nontrivial=('Quantified.substitute', pn, po))
        if not ok:
            rep.finding(R1, f'C15.R1/Quantified.substitute/{pn}-for-{po}', m.loc(LEX, fq), 'Quantified.substitute', f'gives {r!r}, expected {want!r}')
    # the constructors the rebuilds go through: q(v, s), op(operands), pred(params) build exactly the item asked for, whatever the
    # arguments are (a variable that no longer occurs after a substitution included)
    for cname, built, cases in (('Quantifier', 'Quantified', ((('VAR', Obj('body', variables=frozenset({'VAR'}))), 'bound variable occurs'),
                                                            (('VAR', Obj('body', variables=frozenset({'OTHER'}))), 'bound variable does not occur'),
                                                            (('VAR', Obj('body', variables=frozenset())), 'closed body'))),
                                ('Operator', 'Operated', (((Obj('s1'), Obj('s2')), 'two operands'), ((Obj('s1'),), 'one operand'))),
                                ('Predicate', 'Predicated', ((('a', 'b'), 'two parameters'), (('x',), 'one parameter')))):
        fc = m.func(LEX, f'{cname}.__call__')
        rep.consult(m.loc(LEX, fc) + f' {cname}.__call__')
        itcall = Interp({built: (lambda *a, built=built: (built, a)), 'Sentence': lambda x: x, 'Variable': lambda x: x, 'Constant': lambda x: x,
                      'Parameter': lambda x: x}, where=f'lang/lex.py {cname}.__call__')
        me = Obj(cname.lower())
        for args, label in cases:
            r = itcall.safe(fc, [me, *args])
            ok = r == (built, (me, *args))
            rep.instance(R1, ok=ok, nontrivial=(f'{cname}.__call__', label))
            if not ok:
                rep.finding(R1, f'C15.R1/{cname}.__call__/{label}', m.loc(LEX, fc), f'{cname}.__call__',
                            f'{label}: gives {r!r}, expected {built}(self, *arguments) -- substitute / unquantify rebuild their result through this call')
    fu = m.func(LEX, 'Quantified.unquantify')
    r = it.safe(fu, [qs, 'k'])
    ok = r == ('SUB', 1, ('Constant', 'k'), 'VAR')
    rep.instance(R1, ok=ok, nontrivial='Quantified.unquantify')
    rep.consult(m.loc(LEX, fu) + ' Quantified.unquantify', m.loc(LEX, fq) + ' Quantified.substitute')
    if not ok:
        rep.finding(R1, 'C15.R1/Quantified.unquantify', m.loc(LEX, fu), 'Quantified.unquantify', f'unquantify(k) gives {r!r}, expected body.substitute(Constant(k), variable)')
    frs = m.func(LEX, 'Constant.__rshift__')
    qobj = Obj('Q', typ=QuantifiedT, unquantify=lambda c_: ('UNQ', c_))
    other = Obj('notQ', typ=OperatedT)
    cst = Obj('const')
    it.g.setdefault('LexicalAbcMeta', Obj('LexicalAbcMeta', __call__=Obj('metacall', _cache={})))      # (the shared item cache, should the code consult it)
    r1_, r2_ = it.safe(frs, [cst, qobj]), it.safe(frs, [cst, other])
    # a second quantified sentence with the same body and another bound variable, right after the first: its own instance
    shared_body = Obj('shared-body')
    qa = Obj('Qx', typ=QuantifiedT, sentence=shared_body, variable='x', unquantify=lambda c_: ('UNQ-x', c_))
    qb = Obj('Qy', typ=QuantifiedT, sentence=shared_body, variable='y', unquantify=lambda c_: ('UNQ-y', c_))
    seq = [it.safe(frs, [cst, qa]), it.safe(frs, [cst, qb]), it.safe(frs, [cst, qa])]
    ok_seq = seq == [('UNQ-x', cst), ('UNQ-y', cst), ('UNQ-x', cst)]
    rep.instance(R1, ok=ok_seq, nontrivial='Constant.__rshift__ sequence')
    if not ok_seq:
        rep.finding(R1, 'C15.R1/Constant.__rshift__/sequence', m.loc(LEX, frs), 'Constant.__rshift__',
                    f'c >> (Qx body), c >> (Qy body), c >> (Qx body) with one body and two bound variables give {seq!r}; each must be that sentence\'s own unquantify(c)')
    ok = r1_ == ('UNQ', cst) and r2_ is NotImplemented
    rep.instance(R1, ok=ok, nontrivial='Constant.__rshift__')
    if not ok:
        rep.finding(R1, 'C15.R1/Constant.__rshift__', m.loc(LEX, frs), 'Constant.__rshift__', f'c >> Q gives {r1_!r} (expected Q.unquantify(c)); c >> other gives {r2_!r}')

    # ---- Operated
    class Operands(tuple):
        pass
    OP = lambda args: ('OPER', tuple(args))
    same = child(3)
    bare = lambda tag: Obj(f'bare{tag}', constants=frozenset(), variables=frozenset(), predicates=frozenset(), atomics=frozenset({f'A{tag}'}), operators=(), quantifiers=(),
                           substitute=lambda pn, po, t=tag: ('SUB', t, pn, po))       # a sentence letter: no parameters, predicates, operators or quantifiers
    for label, kids in (('distinct', (child(1), child(2))), ('identical', (same, same)), ('unary', (child(4),)),
                        ('left operand without parameters', (bare(5), child(6))), ('right operand without parameters', (child(7), bare(8))),
                        ('neither operand with parameters', (bare(9), bare(10)))):
        ops = Operands(kids)
        ops.__srcclass__ = (m, ClassRef(LEX, 'Operated'))
        ops.operator, ops.operands, ops.lhs, ops.rhs = OP, tuple(kids), kids[0], kids[-1]
        for attr in ATTRS:
            g = getter_or_attr(m, 'Operated', attr)
            ok = isinstance(g, ast.FunctionDef)
            r = None
            if ok:
                r = it.safe(g, [ops])
                if attr in SETS:
                    want = frozenset().union(*(getattr(k, attr) for k in kids))
                elif attr == 'operators':
                    want = (OP,) + tuple(x for k in kids for x in k.operators)
                else:
                    want = tuple(x for k in kids for x in k.quantifiers)
                ok = r == want and type(r) is type(want)
            rep.instance(R2, ok=ok, nontrivial=('Operated', attr, label))
            if not ok:
                rep.finding(R2, f'C15.R2/Operated.{attr}/{label}', m.relfile(LEX), f'Operated.{attr}',
                            f'{label} operands: is not the union/concatenation (in operand order, with multiplicity) of the operands\' {attr} (got {r!r}, expected {want!r})')
    kids = (child(1), child(2))
    ops = Operands(kids)
    ops.__srcclass__ = (m, ClassRef(LEX, 'Operated'))
    ops.operator, ops.operands, ops.lhs, ops.rhs = OP, tuple(kids), kids[0], kids[-1]
    fo = m.func(LEX, 'Operated.substitute')
    rep.consult(m.loc(LEX, fo) + ' Operated.substitute')
    for pn, po in (('n', 'o'), ('n', 'n')):
        r = it.safe(fo, [ops, pn, po])
        want = ops if pn == po else ('OPER', (('SUB', 1, pn, po), ('SUB', 2, pn, po)))
        ok = (r is ops) if pn == po else r == want
        rep.instance(R1, ok=ok, nontrivial=('Operated.substitute', pn, po))
        if not ok:
            rep.finding(R1, f'C15.R1/Operated.substitute/{pn}-for-{po}', m.loc(LEX, fo), 'Operated.substitute', f'gives {r!r}, expected {want!r}')
    # ---- negative
    fn = m.func(LEX, 'Sentence.negative')
    rep.consult(m.loc(LEX, fn) + ' Sentence.negative')
    it.g['Operator'] = Obj('Operator', Negation=NEG)
    NEG.__class__ = type('N', (Obj,), {'__call__': lambda s_, x_: ('NEGATE', x_)})
    inner = Obj('inner')
    negs = Obj('neg', typ=OperatedT, operator=NEG, lhs=inner)
    conj = Obj('conj', typ=OperatedT, operator=Obj('Conj'), lhs=inner)
    atom = Obj('atom', typ=Obj('Atomic'))
    for s_, want in ((negs, inner), (conj, ('NEGATE', conj)), (atom, ('NEGATE', atom))):
        r = it.safe(fn, [s_])
        ok = r is want if want is inner else r == want
        rep.instance(R1, ok=ok, nontrivial=('negative', s_._name))
        if not ok:
            rep.finding(R1, f'C15.R1/Sentence.negative/{s_._name}', m.loc(LEX, fn), 'Sentence.negative', f'negative() of {s_._name} gives {r!r}, expected {want!r}')
    so = Obj('s', negative=lambda: 'NEGATIVE')
    for name, want in (('__neg__', 'NEGATIVE'), ('__invert__', ('NEGATE', so))):
        f_ = m.func(LEX, f'Sentence.{name}')
        r = it.safe(f_, [so])
        ok = r == want
        rep.instance(R1, ok=ok, nontrivial=name)
        if not ok:
            rep.finding(R1, f'C15.R1/Sentence.{name}', m.loc(LEX, f_), f'Sentence.{name}', f'gives {r!r}, expected {want!r}')
    # constructors keep operands/params in the given order; indexing reads them
    oi = m.func(LEX, 'Operated.__init__')
    OPR = mk('Conj', arity=2)
    o1, o2 = mk('A'), mk('BB')
    so2 = Obj('self', TYPE=Obj('TYPE', rank=7))
    r = itc.safe(oi, [so2, OPR, (o1, o2)])
    ok = not isinstance(r, Raises) and tuple(getattr(so2, 'operands', ())) == (o1, o2) and getattr(so2, 'lhs', None) is o1 and getattr(so2, 'rhs', None) is o2 \
        and getattr(so2, 'operator', None) is OPR
    rep.instance(R2, ok=ok, nontrivial='Operated.__init__')
    if not ok:
        rep.finding(R2, 'C15.R2/Operated.__init__', m.loc(LEX, oi), 'Operated.__init__',
                    f'operator/operands/lhs/rhs after construction: {getattr(so2, "operator", None)!r}/{getattr(so2, "operands", None)!r}/{getattr(so2, "lhs", None)!r}/{getattr(so2, "rhs", None)!r}; expected the given operator and operands in order ({r!r})')
    for cls, attr in (('Operated', 'operands'), ('Predicated', 'params')):
        g_ = m.func(LEX, f'{cls}.__getitem__')
        o = Obj('s', **{attr: ('x0', 'x1', 'x2')})
        ok = it.safe(g_, [o, 1]) == 'x1' and it.safe(g_, [o, -1]) == 'x2'
        rep.instance(R2, ok=ok, nontrivial=f'{cls}.__getitem__')
        if not ok:
            rep.finding(R2, f'C15.R2/{cls}.__getitem__', m.loc(LEX, g_), f'{cls}.__getitem__', f'indexing / iteration no longer reads the {attr} in order')
    # substitution, instantiation and negation rebuild sentences through the constructors, which answer from the item cache by
    # equality of the arguments: "exactly the occurrences of the old parameter and nothing else" presupposes that two sentences
    # are equal only when they are structurally identical.  The constructor fold of C14.R1 (sa.lexfold) is imported: every pair of
    # distinct specs of each sentence class gets distinct comparison keys.
    from .. import lexfold
    R3 = rep.rule('C15.R3', 'the equality the rebuilt sentences are cached and compared by is structural: for each sentence class, constructor arguments that '
                            'differ in any component (bound variable included) give different comparison keys (constructors folded; imported from C14.R1)')
    res, cons = lexfold.fold_constructors(m)
    rep.consult(*cons)
    seen = set()
    for ok, case, detail in res:
        if not case.startswith(('Predicated', 'Quantified', 'Operated')):
            continue
        rep.instance(R3, ok=ok, nontrivial=case)
        if not ok:
            k = case.split(':')[0]
            if k in seen:
                continue
            seen.add(k)
            rep.finding(R3, f'C15.R3/constructors/{k}', cons[0].split(' ')[0] if cons else m.relfile(LEX), 'sentence constructors',
                        f'{case}: {detail} -- a rebuilt sentence can come back from the cache as another sentence (e.g. with another bound variable)')
    rep.floor('C15.R3', 'constructor pairs', sum(1 for _ok, c, _d in res if c.startswith(('Predicated', 'Quantified', 'Operated'))), 60)
