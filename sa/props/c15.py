"""C15 -- substitution and the derived attributes of sentences are exact (one structural level, folded)."""
from __future__ import annotations

import ast
import itertools

from .. import astq
from ..core import AnalysisError
from ..minieval import Interp, Obj, Raises
from ..model import ClassRef

LEVEL = 'other'
EXPLANATION = (
    'Static analysis (inductive step by folding definitions over mock children). For each of the four sentence classes, substitute() and each derived attribute (constants, variables, predicates, atomics, operators, quantifiers) is folded from source over mock children carrying arbitrary attribute values and compared with the structural specification for one level of the tree: substitution rebuilds with the same head and replaces exactly the old parameter in every child, in order; unquantify(c) = body.substitute(Constant(c), variable); c >> Q = Q.unquantify(c); negative() of a negation is its operand; every aggregate reads the same-named attribute of every child, sequences keep prefix order with the own operator/quantifier first. By induction on the sentence tree this gives exactness for all sentences; the induction itself (and caching by lazy.prop) is the assumption, not enumerated. Parameter mocks compare by value and the old parameter is also given as an equal item that is another object.')
TRUSTED = ['CPython ast', 'sa.minieval']
ASSUMPTIONS = ['lazy.prop caches the first computed value (tools/lazy.py not analysed)', 'sentences are immutable after construction (C14.R3)']

LEX = 'pytableaux.lang.lex'
ATTRS = ('constants', 'variables', 'predicates', 'atomics', 'operators', 'quantifiers')
SETS = ('constants', 'variables', 'predicates', 'atomics')


def getter_or_attr(m, cls, name):
    "the FunctionDef computing <cls>.<name> (property / lazy.prop), or ('const', value-text) for class attributes"
    cd = m.clsdef(ClassRef(LEX, cls))
    for st in cd.body:
        if isinstance(st, ast.FunctionDef) and st.name == name and any(d in ('property', 'lazy.prop') for d in astq.decorators(st)):
            return st
        if isinstance(st, ast.Assign) and any(isinstance(t, ast.Name) and t.id == name for t in st.targets):
            return ('const', astq.u(st.value))
    return None


def run(ctx, rep):
    m = ctx.m
    R1 = rep.rule('C15.R1', 'substitute / unquantify / >> / negative, folded over mock children')
    R2 = rep.rule('C15.R2', 'the 4 x 6 matrix of derived attributes: defined everywhere; each aggregate reads the same-named attribute of every child, in order')
    ConstantT, VariableT, QuantifiedT, OperatedT = Obj('Constant'), Obj('Variable'), Obj('Quantified'), Obj('Operated')
    NEG = Obj('Operator.Negation')
    import itertools as _it
    it = Interp(dict(Constant=lambda c: ('Constant', c), Variable=VariableT, Quantified=QuantifiedT, Operated=OperatedT,
                     Operator=Obj('Operator', Negation=NEG), chain=_it.chain, frozenset=frozenset, tuple=tuple,
                     NotImplemented=NotImplemented, EMPTY_SET=frozenset(), EMPTY_SEQ=()), where='lang/lex.py sentence classes')
    it.g['Constant'] = ConstantT
    ConstantT.__class__ = type('CT', (Obj,), {'__call__': lambda s_, c: ('Constant', c)})
    # constants and variables share one coordinate space: a and x both have coordinates (0, 0)
    # (lexical items are compared by value: the item cache is bounded, so an equal item may be a different object)
    class P(Obj):
        def __eq__(self, o):
            return isinstance(o, P) and (o._typ, o.spec) == (self._typ, self.spec)

        def __ne__(self, o):
            return not self.__eq__(o)

        def __hash__(self):
            return hash((id(self._typ), self.spec))
    a, b, c, x = tuple(P(n, typ=ConstantT, spec=(i, 0), index=i, subscript=0) for i, n in enumerate('abc')) + (P('x', typ=VariableT, spec=(0, 0), index=0, subscript=0),)
    a_eq = P("a'", typ=ConstantT, spec=(0, 0), index=0, subscript=0)       # equal to a, another object
    x_eq = P("x'", typ=VariableT, spec=(0, 0), index=0, subscript=0)

    # ---- Predicated
    class Params(tuple):
        __eq__ = lambda s_, o: s_ is o
        __hash__ = lambda s_: id(s_)
    f_sub = m.func(LEX, 'Predicated.substitute')
    rep.consult(m.loc(LEX, f_sub) + ' Predicated.substitute')
    for params in ((a, b, a), (a, x), (b,), (x, x, a)):
        for pold, pnew in itertools.product((a, b, x, a_eq, x_eq), (a, c, x)):
            s = Params(params)
            s.params = tuple(params)
            s.predicate = lambda ps: ('PRED', tuple(ps))
            r = it.safe(f_sub, [s, pnew, pold])
            want = s if pnew == pold else ('PRED', tuple(pnew if p == pold else p for p in params))
            ok = r is want if pnew == pold else (isinstance(r, tuple) and len(r) == 2 and r[0] == 'PRED' and len(r[1]) == len(want[1])
                                                 and all(g is w or (g == w and w is not pnew) for g, w in zip(r[1], want[1])))
            rep.instance(R1, ok=ok, nontrivial=('Predicated.substitute', tuple(p._name for p in params), pold._name, pnew._name))
            if not ok:
                rep.finding(R1, f'C15.R1/Predicated.substitute/{[p._name for p in params]}/{pnew._name}-for-{pold._name}', m.loc(LEX, f_sub), 'Predicated.substitute',
                            f'substituting {pnew._name} for {pold._name} in params {[p._name for p in params]} gives {r!r}, expected {want!r}'
                            + (' (the old parameter is given as an equal item that is another object)' if pold in (a_eq, x_eq) else ''))
    for attr, T in (('constants', ConstantT), ('variables', VariableT)):
        g = getter_or_attr(m, 'Predicated', attr)
        ok = isinstance(g, ast.FunctionDef)
        if ok:
            s = Params((a, x, b, a))
            s.params = (a, x, b, a)
            r = it.safe(g, [s])
            want = frozenset(p for p in (a, x, b, a) if p._typ is T)
            ok = r == want
        rep.instance(R2, ok=ok, nontrivial=('Predicated', attr))
        if not ok:
            rep.finding(R2, f'C15.R2/Predicated.{attr}', m.relfile(LEX), f'Predicated.{attr}', f'is not the set of {attr} among the parameters (got {r!r})')
    # Predicated constants
    init = m.func(LEX, 'Predicated.__init__')
    ok = 'self.predicates = frozenset((pred,))' in astq.u(init) and 'self.params = params' in astq.u(init)
    rep.instance(R2, ok=ok, nontrivial=('Predicated', 'predicates'))
    if not ok:
        rep.finding(R2, 'C15.R2/Predicated.predicates', m.loc(LEX, init), 'Predicated.__init__', 'predicates is no longer {the predicate}')
    for attr, want in (('operators', 'EMPTY_SEQ'), ('quantifiers', 'EMPTY_SEQ'), ('atomics', 'EMPTY_SET')):
        g = getter_or_attr(m, 'Predicated', attr)
        ok = g == ('const', want)
        rep.instance(R2, ok=ok, nontrivial=('Predicated', attr))
        if not ok:
            rep.finding(R2, f'C15.R2/Predicated.{attr}', m.relfile(LEX), f'Predicated.{attr}', f'is {g}, expected the empty {want}')
    # ---- Atomic
    for attr, want in (('predicates', 'EMPTY_SET'), ('constants', 'EMPTY_SET'), ('variables', 'EMPTY_SET'), ('quantifiers', 'EMPTY_SEQ'), ('operators', 'EMPTY_SEQ')):
        g = getter_or_attr(m, 'Atomic', attr)
        ok = g == ('const', want)
        rep.instance(R2, ok=ok, nontrivial=('Atomic', attr))
        if not ok:
            rep.finding(R2, f'C15.R2/Atomic.{attr}', m.relfile(LEX), f'Atomic.{attr}', f'is {g}, expected the empty {want}')
    ai = m.func(LEX, 'Atomic.__init__')
    ok = 'self.atomics = frozenset((self,))' in astq.u(ai)
    rep.instance(R2, ok=ok, nontrivial=('Atomic', 'atomics'))
    if not ok:
        rep.finding(R2, 'C15.R2/Atomic.atomics', m.loc(LEX, ai), 'Atomic.__init__', 'atomics is no longer {self}')
    # base Sentence.substitute returns self (atoms have no parameters)
    bs = m.func(LEX, 'Sentence.substitute')
    ok = [astq.u(s_) for s_ in astq.stmts(bs)] == ['return self']
    rep.instance(R1, ok=ok, nontrivial='Sentence.substitute')
    if not ok:
        rep.finding(R1, 'C15.R1/Sentence.substitute', m.loc(LEX, bs), 'Sentence.substitute', 'the default (atomic) substitution is no longer the identity')

    # ---- mock child sentence with arbitrary attribute values
    def child(tag):
        return Obj(f'child{tag}', constants=frozenset({f'c{tag}', 'shared'}), variables=frozenset({f'v{tag}'}), predicates=frozenset({f'P{tag}'}),
                   atomics=frozenset({f'A{tag}', 'sharedA'}), operators=(f'op{tag}a', f'op{tag}b'), quantifiers=(f'q{tag}',),
                   substitute=lambda pn, po, t=tag: ('SUB', t, pn, po))

    # ---- Quantified
    body = child(1)
    Q = lambda v, s: ('QUANT', v, s)
    qs = Obj('quantified', quantifier=Q, variable='VAR', sentence=body, items=(Q, 'VAR', body))
    for attr in ATTRS:
        g = getter_or_attr(m, 'Quantified', attr)
        ok = isinstance(g, ast.FunctionDef)
        r = None
        if ok:
            r = it.safe(g, [qs])
            want = (Q,) + body.quantifiers if attr == 'quantifiers' else getattr(body, attr)
            ok = r == want
        rep.instance(R2, ok=ok, nontrivial=('Quantified', attr))
        if not ok:
            rep.finding(R2, f'C15.R2/Quantified.{attr}', m.relfile(LEX), f'Quantified.{attr}',
                        ('is not (own quantifier, *body quantifiers)' if attr == 'quantifiers' else f"is not the body's {attr}") + f' (got {r!r})')
    fq = m.func(LEX, 'Quantified.substitute')
    for pn, po in (('n', 'o'), ('n', 'n')):
        r = it.safe(fq, [qs, pn, po])
        want = qs if pn == po else ('QUANT', 'VAR', ('SUB', 1, pn, po))
        ok = (r is qs) if pn == po else r == want
        rep.instance(R1, ok=ok, nontrivial=('Quantified.substitute', pn, po))
        if not ok:
            rep.finding(R1, f'C15.R1/Quantified.substitute/{pn}-for-{po}', m.loc(LEX, fq), 'Quantified.substitute', f'gives {r!r}, expected {want!r}')
    fu = m.func(LEX, 'Quantified.unquantify')
    r = it.safe(fu, [qs, 'k'])
    ok = r == ('SUB', 1, ('Constant', 'k'), 'VAR')
    rep.instance(R1, ok=ok, nontrivial='Quantified.unquantify')
    rep.consult(m.loc(LEX, fu) + ' Quantified.unquantify', m.loc(LEX, fq) + ' Quantified.substitute')
    if not ok:
        rep.finding(R1, 'C15.R1/Quantified.unquantify', m.loc(LEX, fu), 'Quantified.unquantify', f'unquantify(k) gives {r!r}, expected body.substitute(Constant(k), variable)')
    frs = m.func(LEX, 'Constant.__rshift__')
    qobj = Obj('Q', typ=QuantifiedT, unquantify=lambda c_: ('UNQ', c_))
    other = Obj('notQ', typ=OperatedT)
    cst = Obj('const')
    r1_, r2_ = it.safe(frs, [cst, qobj]), it.safe(frs, [cst, other])
    ok = r1_ == ('UNQ', cst) and r2_ is NotImplemented
    rep.instance(R1, ok=ok, nontrivial='Constant.__rshift__')
    if not ok:
        rep.finding(R1, 'C15.R1/Constant.__rshift__', m.loc(LEX, frs), 'Constant.__rshift__', f'c >> Q gives {r1_!r} (expected Q.unquantify(c)); c >> other gives {r2_!r}')

    # ---- Operated
    class Operands(tuple):
        pass
    OP = lambda args: ('OPER', tuple(args))
    same = child(3)
    for label, kids in (('distinct', (child(1), child(2))), ('identical', (same, same)), ('unary', (child(4),))):
        ops = Operands(kids)
        ops.operator, ops.operands, ops.lhs, ops.rhs = OP, tuple(kids), kids[0], kids[-1]
        for attr in ATTRS:
            g = getter_or_attr(m, 'Operated', attr)
            ok = isinstance(g, ast.FunctionDef)
            r = None
            if ok:
                r = it.safe(g, [ops])
                if attr in SETS:
                    want = frozenset().union(*(getattr(k, attr) for k in kids))
                elif attr == 'operators':
                    want = (OP,) + tuple(x for k in kids for x in k.operators)
                else:
                    want = tuple(x for k in kids for x in k.quantifiers)
                ok = r == want and type(r) is type(want)
            rep.instance(R2, ok=ok, nontrivial=('Operated', attr, label))
            if not ok:
                rep.finding(R2, f'C15.R2/Operated.{attr}/{label}', m.relfile(LEX), f'Operated.{attr}',
                            f'{label} operands: is not the union/concatenation (in operand order, with multiplicity) of the operands\' {attr} (got {r!r}, expected {want!r})')
    kids = (child(1), child(2))
    ops = Operands(kids)
    ops.operator, ops.operands, ops.lhs, ops.rhs = OP, tuple(kids), kids[0], kids[-1]
    fo = m.func(LEX, 'Operated.substitute')
    rep.consult(m.loc(LEX, fo) + ' Operated.substitute')
    for pn, po in (('n', 'o'), ('n', 'n')):
        r = it.safe(fo, [ops, pn, po])
        want = ops if pn == po else ('OPER', (('SUB', 1, pn, po), ('SUB', 2, pn, po)))
        ok = (r is ops) if pn == po else r == want
        rep.instance(R1, ok=ok, nontrivial=('Operated.substitute', pn, po))
        if not ok:
            rep.finding(R1, f'C15.R1/Operated.substitute/{pn}-for-{po}', m.loc(LEX, fo), 'Operated.substitute', f'gives {r!r}, expected {want!r}')
    # ---- negative
    fn = m.func(LEX, 'Sentence.negative')
    rep.consult(m.loc(LEX, fn) + ' Sentence.negative')
    it.g['Operator'] = Obj('Operator', Negation=NEG)
    NEG.__class__ = type('N', (Obj,), {'__call__': lambda s_, x_: ('NEGATE', x_)})
    inner = Obj('inner')
    negs = Obj('neg', typ=OperatedT, operator=NEG, lhs=inner)
    conj = Obj('conj', typ=OperatedT, operator=Obj('Conj'), lhs=inner)
    atom = Obj('atom', typ=Obj('Atomic'))
    for s_, want in ((negs, inner), (conj, ('NEGATE', conj)), (atom, ('NEGATE', atom))):
        r = it.safe(fn, [s_])
        ok = r is want if want is inner else r == want
        rep.instance(R1, ok=ok, nontrivial=('negative', s_._name))
        if not ok:
            rep.finding(R1, f'C15.R1/Sentence.negative/{s_._name}', m.loc(LEX, fn), 'Sentence.negative', f'negative() of {s_._name} gives {r!r}, expected {want!r}')
    for name, frag in (('__neg__', 'return self.negative()'), ('__invert__', 'return Operator.Negation(self)')):
        f_ = m.func(LEX, f'Sentence.{name}')
        ok = frag in astq.u(f_)
        rep.instance(R1, ok=ok, nontrivial=name)
        if not ok:
            rep.finding(R1, f'C15.R1/Sentence.{name}', m.loc(LEX, f_), f'Sentence.{name}', f'is no longer `{frag}`')
    # constructors keep operands/params in the given order
    oi = m.func(LEX, 'Operated.__init__')
    ok = 'self.operands = operands = tuple(map(Sentence, operands))' in astq.u(oi) and 'self.lhs = operands[0]' in astq.u(oi) and 'self.rhs = operands[-1]' in astq.u(oi)
    rep.instance(R2, ok=ok, nontrivial='Operated.__init__')
    if not ok:
        rep.finding(R2, 'C15.R2/Operated.__init__', m.loc(LEX, oi), 'Operated.__init__', 'operands / lhs / rhs are no longer the given operands in order')
    og = m.func(LEX, 'Operated.__getitem__')
    ok = 'return self.operands[index]' in astq.u(og)
    rep.instance(R2, ok=ok, nontrivial='Operated.__getitem__')
    if not ok:
        rep.finding(R2, 'C15.R2/Operated.__getitem__', m.loc(LEX, og), 'Operated.__getitem__', 'iteration over an operated sentence no longer yields its operands')
    pg = m.func(LEX, 'Predicated.__getitem__')
    ok = 'return self.params[index]' in astq.u(pg)
    rep.instance(R2, ok=ok, nontrivial='Predicated.__getitem__')
    if not ok:
        rep.finding(R2, 'C15.R2/Predicated.__getitem__', m.loc(LEX, pg), 'Predicated.__getitem__', 'iteration over a predicated sentence no longer yields its parameters')
