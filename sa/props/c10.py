"""C10 -- provability obeys the structural laws of a consequence relation."""
from __future__ import annotations

import ast
from pathlib import Path

from .. import astq, closure, trunk
from ..core import AnalysisError
from . import common
from .c04 import designation_family

LEVEL = 'other'
EXPLANATION = (
    "Static analysis. (R1) reflexivity: the two trunk nodes that `A |- A` produces (folded build_trunk: A designated and A undesignated, or A and ~A) are a closing pair of a closure rule of every logic (folded partner tables), at the trunk's world. (R2) symbol blindness: inside proof/, models/ and the logic modules no code inspects the identity of a symbol (.index/.subscript/.spec/.coords/.ident/.sort_tuple of a lexical item, or construction of a specific Constant/Atomic/Variable/Predicate) outside example-node code and the reviewed sites; a positive fixture must be flagged on every run. Monotonicity under added premises and invariance under renaming as relations between two runs are declined. (R3) substitution exact (C15.R1); (R4) freshness marks above everything on the branch for every arrival order and choice of symbols (C06.R0-R2). (R5) limit guards (C02.R7). (R6) an added premise cannot switch an expansion off: every branch-dependent skip in a rule's target producer is a validated redundancy guard, the fairness gate or a limit guard, for every rule slot of every logic. (R7) no starvation behind the fairness gate (C02.R8). (R8) IdentityIndiscernability folded over branches with several worlds (C01.R9): a copy of the result at another world does not switch the rule off.")
TRUSTED = ['CPython ast', 'sa.minieval folds of build_trunk and _find_closing_node']
ASSUMPTIONS = ['order-only uses of symbols (max, sorted, <, next()) are permitted by the property']

FIXTURE = Path(__file__).resolve().parent.parent / 'fixtures' / 'c10_symbol_inspection.py'
IDENTITY_ATTRS = {'subscript', 'coords', 'bicoords', 'spec', 'ident', 'sort_tuple', 'index'}
CONSTRUCTORS = {'Constant', 'Atomic', 'Variable', 'Predicate'}
# reviewed sites: (module, function) -> reason
ALLOWED = {
    ('pytableaux.logics', '*'): 'Registry.index is the logic-module index, unrelated to lexical symbols',
    ('pytableaux.proof.tableaux', 'RulesRoot.__getitem__'): 'sequence index arithmetic',
    ('pytableaux.proof.tableaux', 'Tableau.__listen_on.<locals>.add_branch'): 'branch index in the stat table',
}


ENUM_ATTRS = ('operator', 'quantifier')
ENUM_CLASSES = ('Operator', 'Quantifier')


def enum_member_expr(e, fn, funcs, qn, members, depth=0):
    """Is `e` (inside fn) an Operator / Quantifier enum member -- whose `.index` is its position in the fixed enum, not the index
    of a renameable symbol?  `s.operator`, `s.quantifier`, `Operator.X`, `<member>.<MemberName>`, a local assigned only from
    such expressions, or a parameter that every call site in the module (`self.f(...)`) gives such an expression."""
    if depth > 3:
        return False
    if isinstance(e, ast.Attribute):
        if e.attr in ENUM_ATTRS:
            return True
        if e.attr in members:
            return (isinstance(e.value, ast.Name) and e.value.id in ENUM_CLASSES) or enum_member_expr(e.value, fn, funcs, qn, members, depth)
        return False
    if isinstance(e, ast.Name):
        vals = [st.value for t, st in astq.stores(fn, nested=False) if isinstance(t, ast.Name) and t.id == e.id and getattr(st, 'value', None) is not None
                and isinstance(st, (ast.Assign, ast.AnnAssign, ast.NamedExpr))]
        others = [t for t, st in astq.stores(fn, nested=False) if isinstance(t, ast.Name) and t.id == e.id and not isinstance(st, (ast.Assign, ast.AnnAssign, ast.NamedExpr))]
        if vals and not others:
            return all(enum_member_expr(v, fn, funcs, qn, members, depth + 1) for v in vals)
        if vals or others:
            return False
        params = [a.arg for a in fn.args.posonlyargs + fn.args.args]
        if e.id not in params or not params or params[0] not in ('self', 'cls'):
            return False
        pos = params.index(e.id) - 1
        name = qn.rsplit('.', 1)[-1]
        sites = [(q, f, c) for q, f in funcs for c in astq.calls(f, nested=False)
                 if isinstance(c.func, ast.Attribute) and c.func.attr == name and isinstance(c.func.value, ast.Name) and c.func.value.id in ('self', 'cls')]
        if not sites:
            return False
        for q, f, c in sites:
            arg = c.args[pos] if pos < len(c.args) else next((k.value for k in c.keywords if k.arg == e.id), None)
            if arg is None or not enum_member_expr(arg, f, funcs, q, members, depth + 1):
                return False
        return True
    return False


def scan(tree, modname, funcs, members=()):
    "yield (function, node, what) for identity inspections"
    for qn, fn in funcs:
        short = qn.rsplit('.', 1)[-1]
        if short in ('example_nodes', 'example_node', 'example') or 'EllipsisExampleHelper' in qn:
            continue
        for n in astq.walk_no_nested(fn):
            if isinstance(n, ast.Attribute) and n.attr in IDENTITY_ATTRS and isinstance(n.ctx, ast.Load):
                base = astq.u(n.value)
                if n.attr == 'index' and (base.endswith('.index') or base in ('self', 'branches')):
                    continue
                if n.attr == 'index' and enum_member_expr(n.value, fn, funcs, qn, members):
                    continue        # position of an operator / quantifier in its enum: fixed by the language, not by the argument
                yield qn, n, f'reads `{astq.u(n)}`'
            if isinstance(n, ast.Call) and isinstance(n.func, ast.Name) and n.func.id in CONSTRUCTORS and n.args \
                    and all(isinstance(a, ast.Constant) for a in n.args):
                yield qn, n, f'builds the specific symbol `{astq.u(n)}`'


def run(ctx, rep):
    m, lgs = ctx.m, ctx.lgs
    R2 = rep.rule('C10.R2', 'symbol blindness of the prover: no inspection of symbol identity outside reviewed sites')
    # positive fixture
    ftree = ast.parse(FIXTURE.read_text())
    members = tuple(lgs.lex.operators) + tuple(lgs.lex.quantifiers)
    hits = list(scan(ftree, 'fixture', astq.all_functions(ftree), members))
    if len(hits) < 4:
        raise AnalysisError(f'C10.R2 fixture: only {len(hits)} of 4 planted inspections recognised -- the scanner is broken')
    rep.count('C10.R2:fixture-hits', len(hits))
    nfn = 0
    for mod in sorted(m.trees):
        if not (mod.startswith('pytableaux.proof') or mod.startswith('pytableaux.logics') or mod.startswith('pytableaux.models')):
            continue
        if mod.startswith('pytableaux.proof.writers'):
            continue
        funcs = astq.all_functions(m.trees[mod])
        nfn += len(funcs)
        for qn, node, what in scan(m.trees[mod], mod, funcs, members):
            ok = (mod, qn) in ALLOWED or (mod, '*') in ALLOWED
            rep.instance(R2, ok=ok, sample=dict(site=f'{mod}:{qn}', what=what), nontrivial=(mod, qn, what))
            if not ok:
                rep.finding(R2, f'C10.R2/{mod}:{qn}/{what}', m.loc(mod, node), qn,
                            f'{what}: the proof search would depend on which symbol is used, not only on its order')
    rep.floor('C10.R2', 'functions scanned', nfn, 600)
    rep.instance(R2, ok=True, nontrivial='scan-complete')
    common.check_floors(ctx, rep, 'C10')
    R1 = rep.rule('C10.R1', 'reflexivity: the trunk of `A |- A` is a closing pair of some closure rule in every logic')
    n = 0
    for lg in lgs:
        fam = designation_family(ctx, lg)
        designated = fam == 'designation'
        pair = (((False, True), (False, False)) if designated else ((False, None), (True, None)))
        closes = False
        for rc in lg.closure:
            if lgs.rule_attrs(rc).predicate:
                continue
            tbl, fn, probs = closure.partner_table(m, rc, designated)
            rep.consult(m.floc(fn))
            if pair[1] in tbl.get(pair[0], ()) or pair[0] in tbl.get(pair[1], ()):
                closes = True
        n += 1
        rep.instance(R1, ok=closes, sample=dict(logic=lg.name, trunk_pair=[closure.fmtlit(x) for x in pair]), nontrivial=lg.name)
        if not closes:
            rep.finding(R1, f'C10.R1/{lg.name}', m.relfile(lg.module), f'{lg.name}.Rules.closure',
                        f'the trunk of `A |- A` ({closure.fmtlit(pair[0])}, {closure.fmtlit(pair[1])}) is not closed by any closure rule')
    rep.floor('C10.R1', 'logics', n, 57)

    # R3: instantiation/substitution is exact (hence equivariant under renaming): C15.R1
    from ..core import Report
    from . import c15
    R3 = rep.rule('C10.R3', 'substitution / instantiation replaces exactly the old parameter -- constants and variables with equal coordinates are distinct (C15.R1)')
    sub = Report('C15', rep.tier, rep.repo)
    c15.run(ctx, sub)
    for _ in range(sub.rules.get('C15.R1', {}).get('instances', 0)):
        rep.instance(R3, ok=True)
    rep.consulted |= sub.consulted
    for f in sub.findings:
        if f.rule == 'C15.R1':
            rep.rules[R3]['failed'] += 1
            rep.discharged -= 1
            rep.finding(R3, f.key.replace('C15.', 'C10.R3/C15.', 1), f.where, f.construct, f.msg)
    # R4: whichever constants an argument uses, the witness offered next is above all of them: C06.R0/R1/R2
    from . import c06
    R4 = rep.rule('C10.R4', 'the fresh-constant / fresh-world marks of Branch.append are above everything on the branch for every arrival order and '
                            'every choice of symbols (C06.R0, R1, R2): renaming constants cannot make a witness collide')
    sub = Report('C06', rep.tier, rep.repo)
    c06.run(ctx, sub)
    for rid in ('C06.R0', 'C06.R1', 'C06.R2'):
        for _ in range(sub.rules.get(rid, {}).get('instances', 0)):
            rep.instance(R4, ok=True)
    rep.consulted |= sub.consulted
    for f in sub.findings:
        if f.rule in ('C06.R0', 'C06.R1', 'C06.R2'):
            rep.rules[R4]['failed'] += 1
            rep.discharged -= 1
            rep.finding(R4, f.key.replace('C06.', 'C10.R4/C06.', 1), f.where, f.construct, f.msg)
    RL = rep.rule('C10.R5', 'a rule stops offering targets because of a world / constant limit only in states where a quit flag is put on the branch (limit predicates and guarded target producers folded below / at / above the limit): an open branch cut short by a limit is never limit-free')
    common.limit_guards(ctx, rep, RL, 'C10.R5')
    r6(ctx, rep)
    from .. import rulefold
    R8 = rep.rule('C10.R8', 'an added premise cannot switch the identity rule off: IdentityIndiscernability folded over mock branches with several worlds -- the '
                            'substitution at a world is offered unless its result is on the branch *at that world* (C01.R9)')
    res8, cons8 = rulefold.fold_identity_indiscernability(m, deep=rep.tier == 'thorough')
    rep.consult(*cons8)
    for ok8, case8, detail8 in res8:
        rep.instance(R8, ok=ok8, nontrivial=case8)
        if not ok8:
            rep.finding(R8, f'C10.R8/{case8}', cons8[0].split(' ')[0], 'cpl.Rules.IdentityIndiscernability._get_node_targets', f'{case8}: {detail8}')
    R9 = rep.rule('C10.R9', 'an added premise cannot make a rule lose sight of a constant, world or node: the helper bookkeeping folds of C04.R7 (every tracked universal node '
                            'gets every constant on the branch, its own included, whatever else is on the branch)')
    n9 = common.bookkeeping(ctx, rep, R9, 'C10.R9')
    rep.floor('C10.R9', 'bookkeeping cases', n9, 90)
    RF = rep.rule('C10.R7', 'no starvation behind the fairness gate (the C02.R8 fold): whenever some node still has an accessible world it was not applied to, the box-type rules offer a target -- an unsaturated open branch would make the verdict depend on which further premises are present')
    common.fair_gate(ctx, rep, RF, 'C10.R7')


def r6(ctx, rep):
    """Monotonicity / cut-freeness at the level of one rule: what a rule adds for a node may depend on the branch only through
    redundancy (the node it would add is already there), fairness (decided not to starve, C02.R8) and limits (C10.R5).  A skip
    conditioned on any *other* node lets an added premise switch an expansion off: valid |- becomes refuted with one more premise."""
    m = ctx.m
    R6 = rep.rule('C10.R6', 'an added premise cannot switch an expansion off: every branch-dependent skip in a rule\'s target producer is a validated redundancy guard '
                            '(`branch.has(x)` with x a node the rule goes on to add), the fairness gate, or a limit guard -- for every rule slot of every logic')
    n = 0
    seen = set()
    from .. import frames
    from types import SimpleNamespace

    def all_slots():
        for s_ in common.slots(ctx):
            if s_.sch is not None:
                yield s_
            elif frames.access_base(m, s_.rc):
                # frame rules (reflexive / transitive / symmetric / serial): their schema is extracted too
                yield SimpleNamespace(lg=s_.lg, rc=s_.rc, sch=ctx.ex.extract(s_.rc))
    for s in all_slots():
        n += 1
        rep.instance(R6, ok=not s.sch.problems, nontrivial=(s.lg.name, s.rc.name))
        for p_ in s.sch.problems:
            key, msg = p_.split('|', 1)
            k = (s.rc.short, key)
            if k in seen:
                continue
            seen.add(k)
            rep.finding(R6, f'C10.R6/{s.rc.short}/{key}', m.floc(s.sch.fn), s.rc.short, f'rule {s.rc.name} (first seen in {s.lg.name}): {msg}')
    rep.floor('C10.R6', 'rule slots', n, 1500)
