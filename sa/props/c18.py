"""C18 -- ordered-set containers stay a set and a sequence at once (structural clauses)."""
from __future__ import annotations

import ast

from .. import astq
from ..core import AnalysisError
from ..model import ClassRef

LEVEL = 'other'
EXPLANATION = (
    'Static analysis (black-box inductive step by folding). qset, linqset (links, hash table, wedge) and the predicate store are rebuilt as MRO-bound classes from their own method definitions (collections.abc mixins real); every operation of the mutator API is applied to every small state and the result is observed only through the read API (iteration, len, in, indexing, reversed; for the predicate store lookup by every reference): it agrees with the list-without-duplicates model, a rejected single operation changes nothing, copies are independent, and the predicate store never holds two predicates with one symbol and different arities. (R5/R6) the earlier white-box step checks of the qset mutators and linqset.__setitem__. Histories are covered by induction over the step, not by enumeration.')
TRUSTED = ['CPython ast', 'semantics of list/set/dict methods']
ASSUMPTIONS = ['MutableSequence mixin methods (append, extend, pop, remove, +=) reach the container only through insert/__delitem__/__setitem__']

HYB = 'pytableaux.tools.hybrids'
LNK = 'pytableaux.tools.linked'
COL = 'pytableaux.lang.collect'

SEQ_MEMBER_OPS = {'insert', 'append', 'extend', 'remove', 'pop', 'clear', '__delitem__', '__setitem__'}
SET_OPS = {'add', 'remove', 'discard', 'update', 'difference_update', 'clear', 'pop', 'intersection_update'}






def run(ctx, rep):
    m = ctx.m
    # (the former structural rules R1-R4 -- pairing tables, statement order, witness expressions -- described *how*
    #  the mutators are written and flagged behaviour-preserving rewrites; they are replaced by the black-box folds R7-R9)
    blackbox(ctx, rep)
    folded(ctx, rep)


def blackbox(ctx, rep):
    from .. import ordset
    m = ctx.m
    deep = rep.tier == 'thorough'
    for rid, name, fold, floor, what in (
            ('C18.R7', 'qset', ordset.fold_qset_blackbox, 1200, 'tools/hybrids.qset'),
            ('C18.R8', 'linqset', ordset.fold_linqset_blackbox, 1400, 'tools/linked.linqset (links, hash table, wedge)'),
            ('C18.R9', 'Predicates', ordset.fold_predicates_blackbox, 600, 'lang/collect.Predicates (no two members share a symbol with different arities; every member found by each reference)')):
        R = rep.rule(rid, f'{what}: every operation of the mutator API applied to every small state (the class rebuilt from its own method '
                          f'definitions through the MRO, collections.abc mixins real) agrees with the list-without-duplicates model when observed '
                          f'through the read API; a rejected single operation changes nothing; copies are independent')
        res, cons = fold(m, deep=deep)
        rep.consult(*cons)
        seen = set()
        for ok, op, case, detail in res:
            rep.instance(R, ok=ok, sample=dict(case=case) if len(seen) < 2 and ok else None, nontrivial=(name, case))
            if not ok:
                import re as _re
                kinds = _re.findall(r'\[([a-z-]+)\]', detail) or ['state']
                key = (op, kinds[0])
                if key in seen:
                    continue
                seen.add(key)
                rep.finding(R, f'{rid}/{name}/{op}/{kinds[0]}', m.relfile({'qset': 'pytableaux.tools.hybrids', 'linqset': 'pytableaux.tools.linked', 'Predicates': 'pytableaux.lang.collect'}[name]),
                            f'{name}.{op}', f'{case}: {detail}')
        rep.floor(rid, f'{name} operation x state cases', len(res), floor)


def folded(ctx, rep):
    """Inductive step by folding the mutators' definitions over all small pre-states and arguments."""
    from .. import containers
    m = ctx.m
    R5 = rep.rule('C18.R5', 'folded step invariant of qset mutators: for every small pre-state and argument the result equals the '
                            'list-without-duplicates model, list and set agree, hooks bracket the change, and a raising call leaves the state unchanged')
    res, cons = containers.fold_qset(m, deep=rep.tier == 'thorough')
    rep.consult(*cons)
    seen = set()
    for ok, meth, case, detail in res:
        rep.instance(R5, ok=ok, sample=dict(case=case, detail=detail) if len(seen) < 3 else None, nontrivial=(meth, case))
        if not ok and meth not in seen:
            seen.add(meth)
            rep.finding(R5, f'C18.R5/qset/{meth}', 'pytableaux/tools/hybrids.py', f'qset.{meth}', f'{case}: {detail}')
    rep.floor('C18.R5', 'qset step cases', len(res), 1500)
    R6 = rep.rule('C18.R6', 'folded step invariant of linqset item/slice assignment: after the in-place rewrite the hash table maps exactly '
                            'the chain\'s values to their links; rejected assignments change nothing')
    res, cons = containers.fold_linqset_setitem(m)
    rep.consult(*cons)
    first = True
    for ok, meth, case, detail in res:
        rep.instance(R6, ok=ok, nontrivial=(meth, case))
        if not ok and first:
            first = False
            rep.finding(R6, 'C18.R6/linqset/__setitem__', 'pytableaux/tools/linked.py', 'linqset.__setitem__', f'{case}: {detail}')
    rep.floor('C18.R6', 'linqset assignment cases', len(res), 400)






