"""C18 -- ordered-set containers stay a set and a sequence at once (structural clauses)."""
from __future__ import annotations

import ast

from .. import astq
from ..core import AnalysisError
from ..model import ClassRef

LEVEL = 'other'
EXPLANATION = (
    'Static analysis (paired-update / check-before-mutate rules over the three containers). (R1) qset: every method '
    'that changes the membership of the list `_seq_` changes the set `_set_` with the same arriving/leaving values; '
    'linkseq/linqset: every linkseq method that rewrites a link value or the chain ends is overridden by linqset so that '
    'the hash table follows (seed/spot/unlink/clear/copy/__setitem__), each override touching the table with the link\'s '
    'value; Predicates: the lookup index is updated in _hook_done for arriving and leaving members and follows clear/copy. '
    '(R2) in every single-element mutator all raising statements and the _hook_check call precede the first write (or the '
    'write sits in a try/except rollback) and _hook_done follows with the same arguments. (R3) bulk stores into the '
    'sequence are preceded by a uniqueness witness for the arriving values. Agreement with a list model over arbitrary '
    'operation sequences is declined; (R5/R6) however the *inductive step* is decided: each mutator definition is folded over every small '
    'pre-state satisfying the invariant and every small argument and must re-establish it and agree with the list model.')
TRUSTED = ['CPython ast', 'semantics of list/set/dict methods']
ASSUMPTIONS = ['MutableSequence mixin methods (append, extend, pop, remove, +=) reach the container only through insert/__delitem__/__setitem__']

HYB = 'pytableaux.tools.hybrids'
LNK = 'pytableaux.tools.linked'
COL = 'pytableaux.lang.collect'

SEQ_MEMBER_OPS = {'insert', 'append', 'extend', 'remove', 'pop', 'clear', '__delitem__', '__setitem__'}
SET_OPS = {'add', 'remove', 'discard', 'update', 'difference_update', 'clear', 'pop', 'intersection_update'}


def ops_on(fn, attr):
    """[(op, [arg texts], node)] for operations on self.<attr>: method calls, subscript stores and deletes."""
    out = []
    for n in astq.walk_no_nested(fn):
        if isinstance(n, ast.Call) and isinstance(n.func, ast.Attribute) and astq.u(n.func.value) == f'self.{attr}':
            out.append((n.func.attr, [astq.u(a) for a in n.args], n))
        elif isinstance(n, ast.Assign):
            for t in n.targets:
                if isinstance(t, ast.Subscript) and astq.u(t.value) == f'self.{attr}':
                    out.append(('__setitem__', [astq.u(t.slice), astq.u(n.value)], n))
        elif isinstance(n, ast.Delete):
            for t in n.targets:
                if isinstance(t, ast.Subscript) and astq.u(t.value) == f'self.{attr}':
                    out.append(('__delitem__', [astq.u(t.slice)], n))
    return sorted(out, key=lambda x: (x[2].lineno, x[2].col_offset))


def pos(n):
    return (n.lineno, n.col_offset)


def run(ctx, rep):
    m = ctx.m
    # (the former structural rules R1-R4 -- pairing tables, statement order, witness expressions -- described *how*
    #  the mutators are written and flagged behaviour-preserving rewrites; they are replaced by the black-box folds R7-R9)
    blackbox(ctx, rep)
    folded(ctx, rep)


def blackbox(ctx, rep):
    from .. import ordset
    m = ctx.m
    deep = rep.tier == 'thorough'
    for rid, name, fold, floor, what in (
            ('C18.R7', 'qset', ordset.fold_qset_blackbox, 1200, 'tools/hybrids.qset'),
            ('C18.R8', 'linqset', ordset.fold_linqset_blackbox, 1400, 'tools/linked.linqset (links, hash table, wedge)'),
            ('C18.R9', 'Predicates', ordset.fold_predicates_blackbox, 600, 'lang/collect.Predicates (no two members share a symbol with different arities; every member found by each reference)')):
        R = rep.rule(rid, f'{what}: every operation of the mutator API applied to every small state (the class rebuilt from its own method '
                          f'definitions through the MRO, collections.abc mixins real) agrees with the list-without-duplicates model when observed '
                          f'through the read API; a rejected single operation changes nothing; copies are independent')
        res, cons = fold(m, deep=deep)
        rep.consult(*cons)
        seen = set()
        for ok, op, case, detail in res:
            rep.instance(R, ok=ok, sample=dict(case=case) if len(seen) < 2 and ok else None, nontrivial=(name, case))
            if not ok:
                import re as _re
                kinds = _re.findall(r'\[([a-z-]+)\]', detail) or ['state']
                key = (op, kinds[0])
                if key in seen:
                    continue
                seen.add(key)
                rep.finding(R, f'{rid}/{name}/{op}/{kinds[0]}', m.relfile({'qset': 'pytableaux.tools.hybrids', 'linqset': 'pytableaux.tools.linked', 'Predicates': 'pytableaux.lang.collect'}[name]),
                            f'{name}.{op}', f'{case}: {detail}')
        rep.floor(rid, f'{name} operation x state cases', len(res), floor)


def folded(ctx, rep):
    """Inductive step by folding the mutators' definitions over all small pre-states and arguments."""
    from .. import containers
    m = ctx.m
    R5 = rep.rule('C18.R5', 'folded step invariant of qset mutators: for every small pre-state and argument the result equals the '
                            'list-without-duplicates model, list and set agree, hooks bracket the change, and a raising call leaves the state unchanged')
    res, cons = containers.fold_qset(m, deep=rep.tier == 'thorough')
    rep.consult(*cons)
    seen = set()
    for ok, meth, case, detail in res:
        rep.instance(R5, ok=ok, sample=dict(case=case, detail=detail) if len(seen) < 3 else None, nontrivial=(meth, case))
        if not ok and meth not in seen:
            seen.add(meth)
            rep.finding(R5, f'C18.R5/qset/{meth}', 'pytableaux/tools/hybrids.py', f'qset.{meth}', f'{case}: {detail}')
    rep.floor('C18.R5', 'qset step cases', len(res), 1500)
    R6 = rep.rule('C18.R6', 'folded step invariant of linqset item/slice assignment: after the in-place rewrite the hash table maps exactly '
                            'the chain\'s values to their links; rejected assignments change nothing')
    res, cons = containers.fold_linqset_setitem(m)
    rep.consult(*cons)
    first = True
    for ok, meth, case, detail in res:
        rep.instance(R6, ok=ok, nontrivial=(meth, case))
        if not ok and first:
            first = False
            rep.finding(R6, 'C18.R6/linqset/__setitem__', 'pytableaux/tools/linked.py', 'linqset.__setitem__', f'{case}: {detail}')
    rep.floor('C18.R6', 'linqset assignment cases', len(res), 400)


def qset(ctx, rep):
    m = ctx.m
    R1 = rep.rule('C18.R1', 'paired updates: sequence membership changes are mirrored in the set / hash table / lookup index')
    R2 = rep.rule('C18.R2', 'check-before-mutate: raises and _hook_check precede the first write (or rollback), _hook_done follows with the same arguments')
    R3 = rep.rule('C18.R3', 'bulk stores into the sequence have a uniqueness witness for the arriving values')
    cd = m.clsdef(ClassRef(HYB, 'qset'))
    methods = {st.name: st for st in cd.body if isinstance(st, ast.FunctionDef)}
    expect = {
        # method: (seq op, set ops with the roles of their arguments)
        'insert': [('insert', 1, 'add', 0)],
        '__delitem__': [('__delitem__', None, 'difference_update', None)],
        '__setitem_index__': [('__setitem__', 1, 'add', 0)],
        '__setitem_slice__': [('__setitem__', 1, 'update', 0)],
        'clear': [('clear', None, 'clear', None)],
    }
    seen_members = 0
    for name, fn in methods.items():
        sops = [o for o in ops_on(fn, '_seq_') if o[0] in SEQ_MEMBER_OPS]
        tops = [o for o in ops_on(fn, '_set_') if o[0] in SET_OPS]
        if not sops and not tops:
            continue
        seen_members += 1
        where = m.loc(HYB, fn)
        rep.consult(f'{where} qset.{name}')
        if name not in expect:
            rep.instance(R1, ok=False, nontrivial=('qset', name))
            rep.finding(R1, f'C18.R1/qset/{name}/unreviewed', where, f'qset.{name}',
                        f'changes membership of the list or set ({[o[0] for o in sops]}, {[o[0] for o in tops]}) but is not in the reviewed pairing table')
            continue
        for sop, sarg, top, targ in expect[name]:
            s_ = [o for o in sops if o[0] == sop]
            t_ = [o for o in tops if o[0] == top]
            ok = len(s_) == 1 and len(t_) >= 1
            if ok and sarg is not None:
                ok = any(t[1][targ] == s_[0][1][sarg] for t in t_)
            rep.instance(R1, ok=ok, sample=dict(method=f'qset.{name}', seq=[(o[0], o[1]) for o in sops], set=[(o[0], o[1]) for o in tops]), nontrivial=('qset', name, sop))
            if not ok:
                rep.finding(R1, f'C18.R1/qset/{name}/{sop}-{top}', where, f'qset.{name}',
                            f'`_seq_.{sop}` is not paired with `_set_.{top}` of the same arriving value '
                            f'(seq ops {[(o[0], o[1]) for o in sops]}, set ops {[(o[0], o[1]) for o in tops]})')
        # leaving side for the replacing mutators
        if name == '__setitem_index__':
            ok = any(o[0] == 'remove' and o[1] == ['old'] for o in tops) and 'old = self._seq_[index]' in astq.u(fn)
            rep.instance(R1, ok=ok, nontrivial=('qset', name, 'leaving'))
            if not ok:
                rep.finding(R1, f'C18.R1/qset/{name}/leaving', where, f'qset.{name}', 'the replaced value is not removed from the set')
        if name == '__setitem_slice__':
            ok = any(o[0] == 'difference_update' and o[1] == ['leaving'] for o in tops) and 'leaving = self[slice_]' in astq.u(fn)
            rep.instance(R1, ok=ok, nontrivial=('qset', name, 'leaving'))
            if not ok:
                rep.finding(R1, f'C18.R1/qset/{name}/leaving', where, f'qset.{name}', 'the replaced values are not removed from the set')
        if name == '__delitem__':
            ok = any(o[0] == 'difference_update' and o[1] == ['values'] for o in tops) and 'values = self[key]' in astq.u(fn)
            rep.instance(R1, ok=ok, nontrivial=('qset', name, 'leaving'))
            if not ok:
                rep.finding(R1, f'C18.R1/qset/{name}/leaving', where, f'qset.{name}', 'the deleted values are not those removed from the set')
        # R2 ordering
        if name in ('insert', '__delitem__', '__setitem_index__', '__setitem_slice__'):
            writes = [o[2] for o in sops + tops]
            first_write = min(map(pos, writes))
            raises = [n for n in astq.walk_no_nested(fn) if isinstance(n, ast.Raise)]
            pm = astq.parent_map(fn)
            late = [r for r in raises if pos(r) > first_write and not (r.exc is None and astq.enclosing(pm, r, ast.ExceptHandler) is not None)]
            hc = astq.find_calls(fn, 'self._hook_check', nested=False)
            hd = astq.find_calls(fn, 'self._hook_done', nested=False)
            ok = not late and len(hc) == 1 and len(hd) == 1 and pos(hc[0]) < first_write and pos(hd[0]) > max(map(pos, writes)) and \
                [astq.u(a) for a in hc[0].args] == [astq.u(a) for a in hd[0].args]
            rep.instance(R2, ok=ok, nontrivial=('qset', name))
            if not ok:
                rep.finding(R2, f'C18.R2/qset/{name}', where, f'qset.{name}',
                            'raising statements / _hook_check do not all precede the first write, or _hook_done does not follow with the same arguments')
            # the sequence write that can fail must be rolled back
            if name.startswith('__setitem_'):
                seqw = [o[2] for o in sops][0]
                tr = astq.enclosing(pm, seqw, ast.Try)
                ok = tr is not None and any(h.type is None and isinstance(h.body[-1], ast.Raise) and
                                            any(astq.u(c.func).startswith('self._set_.') for c in astq.calls(h)) for h in tr.handlers)
                rep.instance(R2, ok=ok, nontrivial=('qset', name, 'rollback'))
                if not ok:
                    rep.finding(R2, f'C18.R2/qset/{name}/rollback', where, f'qset.{name}', 'the set is changed before the list store without a rollback handler')
    rep.floor('C18.R1', 'qset membership-changing methods', seen_members, 5)
    # duplicate checks before insertion
    fn = methods.get('insert')
    txt = astq.u(fn)
    ok = 'if value in self:' in txt and 'raise DuplicateValueError(value)' in txt
    rep.instance(R2, ok=ok, nontrivial='qset.insert-dupcheck')
    if not ok:
        rep.finding(R2, 'C18.R2/qset/insert/duplicate-check', m.loc(HYB, fn), 'qset.insert', 'no longer rejects a value that is already a member')
    fn = methods.get('__setitem_index__')
    ok = 'if value in self and value != old:' in astq.u(fn)
    rep.instance(R2, ok=ok, nontrivial='qset.setitem-index-dupcheck')
    if not ok:
        rep.finding(R2, 'C18.R2/qset/__setitem_index__/duplicate-check', m.loc(HYB, fn), 'qset.__setitem_index__', 'no longer rejects a member other than the one replaced')
    # R3 uniqueness witness
    fn = methods.get('__setitem_slice__')
    txt = astq.u(fn)
    w1 = 'filterfalse(leaving.__contains__, filter(self.__contains__, values))' in txt
    w2 = 'len(set(values)) != len(values)' in txt or 'len(set(values)) < len(values)' in txt or 'dict.fromkeys(values)' in txt
    ok = w1 and w2
    rep.instance(R3, ok=ok, nontrivial='qset.__setitem_slice__')
    if not ok:
        rep.finding(R3, 'C18.R3/qset.__setitem_slice__', m.loc(HYB, fn), 'qset.__setitem_slice__',
                    'arriving values are stored without checking that they are new to the set' if not w1 else
                    'arriving values are stored without checking that they are distinct from each other')
    qf = m.func(HYB, 'qsetf.__init__')
    ok = 'self._seq_ = tuple(dict.fromkeys(values))' in astq.u(qf) and 'self._set_ = frozenset(self._seq_)' in astq.u(qf)
    rep.instance(R3, ok=ok, nontrivial='qsetf.__init__')
    if not ok:
        rep.finding(R3, 'C18.R3/qsetf.__init__', m.loc(HYB, qf), 'qsetf.__init__', 'the frozen ordered set is not built from de-duplicated values')
    # copy owns its containers
    cp = methods.get('copy')
    ok = 'inst._set_ = self._set_.copy()' in astq.u(cp) and 'inst._seq_ = self._seq_.copy()' in astq.u(cp)
    rep.instance(R1, ok=ok, nontrivial='qset.copy')
    if not ok:
        rep.finding(R1, 'C18.R1/qset/copy', m.loc(HYB, cp), 'qset.copy', 'copy shares the list or the set with the original')
    # shared read methods come from qsetf
    for nm in ('__len__', '__contains__', '__getitem__', '__iter__', '__reversed__'):
        raw, _ = m.getraw(ClassRef(HYB, 'qset'), nm)
        ok = raw is not None and astq.u(raw[1]) == f'qsetf.{nm}'
        rep.instance(R1, ok=ok, nontrivial=('qset', nm))
        if not ok:
            rep.finding(R1, f'C18.R1/qset/{nm}', m.relfile(HYB), f'qset.{nm}', 'is no longer the qsetf implementation (len/contains/getitem must read the same pair of containers)')
    mss = m.func(HYB, 'MutableSequenceSet.add')
    ok = 'self.append(value)' in astq.u(mss) and 'except DuplicateValueError' in astq.u(mss)
    rep.instance(R1, ok=ok, nontrivial='MutableSequenceSet.add')
    if not ok:
        rep.finding(R1, 'C18.R1/MutableSequenceSet.add', m.loc(HYB, mss), 'MutableSequenceSet.add', 'add() is no longer append-unless-duplicate')
    dsc = m.func(HYB, 'MutableSequenceSet.discard')
    ok = 'if value in self' in astq.u(dsc) and 'self.remove(value)' in astq.u(dsc)
    rep.instance(R1, ok=ok, nontrivial='MutableSequenceSet.discard')
    if not ok:
        rep.finding(R1, 'C18.R1/MutableSequenceSet.discard', m.loc(HYB, dsc), 'MutableSequenceSet.discard', 'discard() is no longer remove-if-member')


def linked(ctx, rep):
    m = ctx.m
    R1, R2, R3 = 'C18.R1', 'C18.R2', 'C18.R3'
    ls = m.clsdef(ClassRef(LNK, 'linkseq'))
    lq = m.clsdef(ClassRef(LNK, 'linqset'))
    lsm = {st.name: st for st in ls.body if isinstance(st, ast.FunctionDef)}
    lqm = {st.name: st for st in lq.body if isinstance(st, ast.FunctionDef)}
    neutral = {'reverse', '__new__', '__init__'}
    n = 0
    for name, fn in lsm.items():
        writes_value = [st for t, st in astq.stores(fn, nested=False) if isinstance(t, ast.Attribute) and t.attr == 'value']
        writes_ends = [st for t, st in astq.stores(fn, nested=False) if isinstance(t, ast.Attribute) and t.attr in ('__link_first__', '__link_last__')]
        if not (writes_value or writes_ends) or name in neutral:
            continue
        n += 1
        ok = name in lqm
        rep.instance(R1, ok=ok, sample=dict(method=f'linkseq.{name}', writes=[astq.u(x)[:50] for x in writes_value + writes_ends][:3]), nontrivial=('linkseq', name))
        rep.consult(f'{m.loc(LNK, fn)} linkseq.{name}')
        if not ok:
            rep.finding(R1, f'C18.R1/linqset/{name}', m.loc(LNK, fn), f'linkseq.{name}',
                        f'rewrites link values / chain ends but linqset does not override it: the hash table goes stale')
    rep.floor('C18.R1', 'linkseq membership primitives', n, 5)
    table_rules = {
        '_seed': ('super()._seed(link)', 'self.__table[link.value] = link'),
        '_spot': ('super()._spot(rel, neighbor, link)', 'self.__table[link.value] = link'),
        '_unlink': ('super()._unlink(link)', 'del self.__table[link.value]'),
        'clear': ('super().clear()', 'self.__table.clear()'),
        'copy': ('inst = super().copy()', 'table[link.value] = link'),
        '__setitem__': ('super().__setitem__(i, value)', 'table[link.value] = link'),
    }
    for name, frags in table_rules.items():
        fn = lqm.get(name)
        if fn is None:
            continue        # reported above
        txt = astq.u(fn)
        ok = all(f in txt for f in frags)
        rep.instance(R1, ok=ok, nontrivial=('linqset', name))
        rep.consult(f'{m.loc(LNK, fn)} linqset.{name}')
        if not ok:
            rep.finding(R1, f'C18.R1/linqset/{name}/table', m.loc(LNK, fn), f'linqset.{name}',
                        f'override no longer keeps the hash table in step (`{frags[-1]}` after `{frags[0]}`)')
    fn = lqm.get('__setitem__')
    if fn is not None:
        txt = astq.u(fn)
        ok = 'del table[v]' in txt and 'leaving = tuple((link.value for link in links))' in txt
        rep.instance(R1, ok=ok, nontrivial=('linqset', '__setitem__', 'leaving'))
        if not ok:
            rep.finding(R1, 'C18.R1/linqset/__setitem__/leaving', m.loc(LNK, fn), 'linqset.__setitem__', 'replaced values are not dropped from the hash table')
        ok = 'len(set(arriving)) != len(arriving)' in txt
        rep.instance(R3, ok=ok, nontrivial='linqset.__setitem__')
        if not ok:
            rep.finding(R3, 'C18.R3/linqset.__setitem__', m.loc(LNK, fn), 'linqset.__setitem__', 'slice assignment stores arriving values without checking they are distinct from each other')
    for name in ('__contains__', '_link_of'):
        fn = lqm.get(name)
        ok = fn is not None and 'self.__table' in astq.u(fn)
        rep.instance(R1, ok=ok, nontrivial=('linqset', name))
        if not ok:
            rep.finding(R1, f'C18.R1/linqset/{name}', m.relfile(LNK), f'linqset.{name}', 'membership / lookup no longer reads the hash table')
    # R2: checks before writes in the single-element mutators
    ins = lsm['insert']
    hc = astq.find_calls(ins, 'self._hook_check')
    wr = [c for c in astq.calls(ins) if astq.call_name(c) in ('self._seed', 'self._spot')]
    ok = len(hc) == 1 and wr and all(pos(hc[0]) < pos(w) for w in wr) and astq.u(hc[0].args[0]) == '(value,)'
    rep.instance(R2, ok=ok, nontrivial='linkseq.insert')
    if not ok:
        rep.finding(R2, 'C18.R2/linkseq/insert', m.loc(LNK, ins), 'linkseq.insert', '_hook_check((value,), ...) does not precede the link insertion')
    si = lsm['__setitem__']
    pm = astq.parent_map(si)
    vw = [st for t, st in astq.stores(si, nested=False) if isinstance(t, ast.Attribute) and t.attr == 'value']
    hcs = astq.find_calls(si, 'self._hook_check')
    ok = len(vw) == 2 and len(hcs) == 2 and all(any(pos(h) < pos(w) and astq.enclosing(pm, h, ast.If) is astq.enclosing(pm, w, ast.If) for h in hcs) for w in vw)
    rep.instance(R2, ok=ok, nontrivial='linkseq.__setitem__')
    if not ok:
        rep.finding(R2, 'C18.R2/linkseq/__setitem__', m.loc(LNK, si), 'linkseq.__setitem__', 'a link value is rewritten before _hook_check in the same branch')
    hk = lqm.get('_hook_check')
    ok = hk is not None and 'filterfalse(departures.__contains__, filter(self.__contains__, arrivals))' in astq.u(hk) and 'raise Emsg.DuplicateValue(v)' in astq.u(hk)
    rep.instance(R2, ok=ok, nontrivial='linqset._hook_check')
    if not ok:
        rep.finding(R2, 'C18.R2/linqset/_hook_check', m.relfile(LNK), 'linqset._hook_check', 'no longer rejects arriving values that are members and not departing')
    wd = lqm.get('wedge')
    txt = astq.u(wd)
    ok = 'if value in self:' in txt and 'raise Emsg.DuplicateValue(value)' in txt and txt.index('raise Emsg.DuplicateValue(value)') < txt.index('self._spot(')
    rep.instance(R2, ok=ok, nontrivial='linqset.wedge')
    if not ok:
        rep.finding(R2, 'C18.R2/linqset/wedge', m.loc(LNK, wd), 'linqset.wedge', 'duplicate / missing-neighbour checks do not precede the insertion')
    # length bookkeeping of the primitives
    for name, frag in (('_seed', 'self.__len += 1'), ('_spot', 'self.__len += 1'), ('_unlink', 'self.__len -= 1'), ('clear', 'self.__len = 0')):
        ok = frag in astq.u(lsm[name])
        rep.instance(R1, ok=ok, nontrivial=('linkseq', name, 'len'))
        if not ok:
            rep.finding(R1, f'C18.R1/linkseq/{name}/len', m.loc(LNK, lsm[name]), f'linkseq.{name}', f'length bookkeeping `{frag}` is gone')


def predicates(ctx, rep):
    m = ctx.m
    R1 = 'C18.R1'
    R4 = rep.rule('C18.R4', 'predicate store: conflicting arities are rejected before any change; every member is found by each of its references')
    hd = m.func(COL, 'Predicates._hook_done')
    txt = astq.u(hd)
    ok = all(x in txt for x in ('for pred in leaving', 'for ref in pred.refs', 'pop(ref, None)', 'pop(pred, None)',
                                'for pred in arriving', 'update(zip(pred.refs, repeat(pred)))', 'lookup[pred] = pred')) and \
        txt.index('for pred in leaving') < txt.index('for pred in arriving')
    rep.instance(R1, ok=ok, nontrivial='Predicates._hook_done')
    rep.consult(m.loc(COL, hd) + ' Predicates._hook_done')
    if not ok:
        rep.finding(R1, 'C18.R1/Predicates/_hook_done', m.loc(COL, hd), 'Predicates._hook_done',
                    'the lookup index is no longer updated for every reference of the leaving and then the arriving predicates')
    for name, frag in (('clear', 'self._lookup.clear()'), ('copy', 'inst._lookup = self._lookup.copy()')):
        fn = m.func(COL, f'Predicates.{name}')
        ok = frag in astq.u(fn) and f'super().{name}()' in astq.u(fn)
        rep.instance(R1, ok=ok, nontrivial=f'Predicates.{name}')
        if not ok:
            rep.finding(R1, f'C18.R1/Predicates/{name}', m.loc(COL, fn), f'Predicates.{name}', f'the lookup index does not follow {name}() (`{frag}`)')
    hc = m.func(COL, 'Predicates._hook_check')
    txt = astq.u(hc)
    ok = all(x in txt for x in ('for pred in arriving', 'filter(None, map(get, pred.refs))', 'if prior != pred', 'for prior in leaving', 'raise Emsg.ValueConflictFor'))
    stores_ = [t for t, st in astq.stores(hc) if isinstance(t, (ast.Attribute, ast.Subscript)) and 'conflicts' not in astq.u(t)]
    ok = ok and not stores_
    rep.instance(R4, ok=ok, nontrivial='Predicates._hook_check')
    rep.consult(m.loc(COL, hc) + ' Predicates._hook_check')
    if not ok:
        rep.finding(R4, 'C18.R4/Predicates/_hook_check', m.loc(COL, hc), 'Predicates._hook_check',
                    'no longer rejects (without side effects) an arriving predicate whose symbol is held by a different, non-leaving predicate')
    g = m.func(COL, 'PredicatesBase.get')
    ok = 'return self._lookup[ref]' in astq.u(g) and 'Predicate.System[ref]' in astq.u(g)
    rep.instance(R4, ok=ok, nontrivial='PredicatesBase.get')
    if not ok:
        rep.finding(R4, 'C18.R4/PredicatesBase/get', m.loc(COL, g), 'PredicatesBase.get', 'lookup no longer goes through the multi-key index, then the system predicates')
    ct = m.func(COL, 'PredicatesBase.__contains__')
    ok = 'return ref in self._lookup' in astq.u(ct)
    rep.instance(R4, ok=ok, nontrivial='PredicatesBase.__contains__')
    if not ok:
        rep.finding(R4, 'C18.R4/PredicatesBase/__contains__', m.loc(COL, ct), 'PredicatesBase.__contains__', 'membership no longer reads the lookup index')
    bases = [b.qualname for b in m.bases(ClassRef(COL, 'Predicates'))]
    ok = bases[:2] == ['PredicatesBase', 'qset']
    rep.instance(R4, ok=ok, nontrivial='Predicates.bases')
    if not ok:
        rep.finding(R4, 'C18.R4/Predicates/bases', m.relfile(COL), 'Predicates', f'bases {bases}: lookup-based membership must precede the qset implementation')
    fz = m.func(COL, 'Predicates.Frozen.__init__')
    ok = 'v = Predicates(*args, **kw)' in astq.u(fz) and 'self._lookup = MapProxy(v._lookup)' in astq.u(fz)
    rep.instance(R4, ok=ok, nontrivial='Predicates.Frozen')
    if not ok:
        rep.finding(R4, 'C18.R4/Predicates.Frozen', m.loc(COL, fz), 'Predicates.Frozen.__init__', 'frozen store is not built through a checked mutable store')
