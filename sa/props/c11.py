"""C11 -- declared logic extensions preserve validity."""
from __future__ import annotations

import itertools

from .. import frames
from ..core import AnalysisError
from . import common
from .c07 import base_of

LEVEL = 'other'
EXPLANATION = (
    "Static analysis (table agreement). (R1) the declared relation: every extension_of name resolves, the relation is acyclic, and the documented chains (b < Kb < Tb < S4b < S5b, K < D < T) are declared. (R2) for every declared pair (weaker L', stronger L) the sub-valuation condition on the extracted semantics: V_L within V_L', every operator table of L is the restriction of L's counterpart, D_L = D_L' restricted, generalisers agree on P(V_L), frame clauses of L include those of L'; if it holds, every L-countermodel is an L'-countermodel (proved at the semantic level); if not, a propositional witness (<= 2 letters, depth <= 2, thorough: 3) valid in L' and invalid in L by the tables is searched -- a witness is a violation, no witness is reported as undecided, not as an alarm. (R3) prover-level transfer needs the weaker logic's rules sound and the stronger logic's rules invertible (C04 obligations of the logics in a pair). (R4) limit guards folded below / at / above the limit: a rule stops offering targets only where a quit flag is put on the branch. (R5) no starvation behind the fairness gate (C02.R8).")
TRUSTED = ['CPython ast', 'sa.tables / sa.schema extractors']
ASSUMPTIONS = ['first-order/modal arguments beyond the table semantics are not enumerated']

PRED = {'K': None, 'T': 'K', 'S4': 'T', 'S5': 'S4'}


def split(lg, lgs):
    n = lg.name
    if n in ('K', 'D', 'T', 'S4', 'S5'):
        return n, None
    for p in ('S4', 'S5', 'K', 'T', 'D'):
        if n.startswith(p) and n[len(p):] in lgs.by_name and not lgs.by_name[n[len(p):]].modal:
            return p, n[len(p):]
    return None, None


def run(ctx, rep):
    m, lgs = ctx.m, ctx.lgs
    common.check_floors(ctx, rep, 'C11')
    lex = lgs.lex
    R1 = rep.rule('C11.R1', 'declared relation resolves, is acyclic, and contains the documented chains')
    pairs = []
    for lg in lgs:
        for w in lg.extension_of:
            ok = w in lgs.by_name
            rep.instance(R1, ok=ok, nontrivial=(lg.name, w))
            if not ok:
                rep.finding(R1, f'C11.R1/{lg.name}/unknown/{w}', m.relfile(lg.module), f'{lg.name}.Meta.extension_of', f'extension_of names the unknown logic {w!r}')
            else:
                pairs.append((lgs.by_name[w], lg))
    rep.floor('C11.R1', 'declared pairs', len(pairs), 98)
    # acyclic
    graph = {lg.name: set(lg.extension_of) & set(lgs.by_name) for lg in lgs}
    state = {}

    def dfs(n, stack):
        state[n] = 1
        for x in graph[n]:
            if state.get(x) == 1:
                return stack + [n, x]
            if x not in state:
                r = dfs(x, stack + [n])
                if r:
                    return r
        state[n] = 2
        return None
    cyc = None
    for n in graph:
        if n not in state:
            cyc = dfs(n, [])
            if cyc:
                break
    rep.instance(R1, ok=cyc is None, nontrivial='acyclic')
    if cyc:
        rep.finding(R1, 'C11.R1/cycle/' + '>'.join(cyc), 'pytableaux/logics', 'extension_of', f'the declared relation has a cycle: {cyc}')
    # documented chains
    for lg in lgs:
        if not lg.modal:
            continue
        p, b = split(lg, lgs)
        if p is None:
            raise AnalysisError(f'modal logic {lg.name}: frame prefix not recognised')
        if b is None:
            want = {'K': 'CFOL', 'D': 'K', 'T': 'D', 'S4': 'T', 'S5': 'S4'}[p]
        else:
            q = PRED[p]
            want = b if q is None or (q + b) not in lgs.by_name else q + b
        ok = want in lg.extension_of
        rep.instance(R1, ok=ok, sample=dict(logic=lg.name, must_extend=want), nontrivial=(lg.name, 'chain'))
        if not ok:
            rep.finding(R1, f'C11.R1/{lg.name}/chain/{want}', m.relfile(lg.module), f'{lg.name}.Meta.extension_of',
                        f'{lg.name} does not declare that it extends {want} (documented chain)')

    R2 = rep.rule('C11.R2', 'sub-valuation condition (proof) or propositional witness search for every declared pair')
    depth = 3 if rep.tier == 'thorough' else 2
    proved = undecided = 0
    for weak, strong in pairs:
        sw, ss = ctx.sem(weak), ctx.sem(strong)
        why = []
        if not set(ss.V) <= set(sw.V):
            why.append(f'values {ss.V} not among {sw.V}')
        else:
            for op in lex.truth_functional:
                bad = [k for k, v in ss.tables[op].items() if sw.tables[op][k] != v]
                if bad:
                    why.append(f'{op} differs at {["".join(k) for k in bad[:3]]}')
            if set(ss.D) != set(sw.D) & set(ss.V):
                why.append(f'designated {sorted(ss.D)} vs {sorted(set(sw.D) & set(ss.V))}')
            for g in set(ss.gen) & set(sw.gen):
                bad = [S for S, v in ss.gen[g].items() if sw.gen[g].get(S) != v]
                if bad:
                    why.append(f'generaliser {g} differs at {sorted(map(sorted, bad))[:2]}')
        if weak.modal and not strong.modal:
            why.append('weaker logic is modal, stronger is not')
        if weak.modal and strong.modal:
            cw, _ = frames.enforce_clauses(m, weak.accesscls)
            cs, _ = frames.enforce_clauses(m, strong.accesscls)
            if not cs >= cw:
                why.append(f'frame condition of {strong.name} does not include that of {weak.name}')
        if weak.quantified and not strong.quantified:
            why.append('weaker logic is quantified, stronger is not')
        if not why:
            proved += 1
            rep.instance(R2, ok=True, sample=dict(weaker=weak.name, stronger=strong.name, result='proved: sub-valuation'), nontrivial=(weak.name, strong.name))
            continue
        wit = witness(sw, ss, lex, depth) if set(ss.V) <= set(sw.V) or True else None
        if wit:
            rep.instance(R2, ok=False, nontrivial=(weak.name, strong.name))
            rep.finding(R2, f'C11.R2/{weak.name}<{strong.name}', m.relfile(strong.module), f'{strong.name}.Meta.extension_of',
                        f'{strong.name} is declared an extension of {weak.name}, but {wit} is valid in {weak.name} and invalid in {strong.name} '
                        f'by their truth tables ({"; ".join(why)})', witness=wit, why=why)
        else:
            undecided += 1
            rep.instance(R2, ok=True, sample=dict(weaker=weak.name, stronger=strong.name, result='undecided (no witness)', why=why),
                         nontrivial=(weak.name, strong.name))
            rep.note(f'undecided pair {weak.name} < {strong.name}: {"; ".join(why)}; no witness up to depth {depth}')
    rep.count('C11.R2:proved', proved)
    rep.count('C11.R2:undecided', undecided)

    R3 = rep.rule('C11.R3', 'rules of every weaker logic of a pair are sound, rules of every stronger logic invertible (C04 obligations)')
    weaker = {w.name for w, s in pairs}
    stronger = {s.name for w, s in pairs}
    for s in common.slots(ctx):
        if s.kind is None:
            continue
        roles = [(r, d) for r, d, names in (('weaker', 'unsound', weaker), ('stronger', 'incomplete', stronger)) if s.lg.name in names]
        if not roles:
            continue
        bad = [(r, d, v) for r, d in roles for dd, v in s.fails if dd == d]
        rep.instance(R3, ok=not bad, nontrivial=(s.lg.name, s.rc.name))
        for r, d, v in bad:
            rep.finding(R3, f'C11.R3/{s.lg.name}/{r}/{s.rc.name}/{d}/{v}', m.floc(s.sch.fn), f'{s.lg.name}:{s.rc.short}',
                        f'{s.lg.name} is the {r} logic of a declared pair and its rule {s.rc.name} is {d} at {v}',
                        logic=s.lg.name, rule=s.rc.name, direction=d, valuation=v)
    RL = rep.rule('C11.R4', 'a rule stops offering targets because of a world / constant limit only in states where a quit flag is put on the branch (limit predicates and guarded target producers folded below / at / above the limit): an open branch cut short by a limit is never limit-free')
    common.limit_guards(ctx, rep, RL, 'C11.R4')
    RF = rep.rule('C11.R5', 'no starvation behind the fairness gate (the C02.R8 fold): whenever some node still has an accessible world it was not applied to, the box-type rules offer a target -- an unsaturated open branch would make the verdict depend on which logic of a declared pair runs the proof (valid in the weaker, refuted in the stronger)')
    common.fair_gate(ctx, rep, RF, 'C11.R5')


def formulas(ops, arity, depth, letters=('p', 'q'), cap=6000):
    "formulas up to a nesting depth, generated breadth first and *lazily*, so the cap bounds the work as well as the result"
    allf = [('leaf', x) for x in letters]
    seen = set(allf)
    for _ in range(depth):
        base = list(allf)

        def candidates():
            for op in ops:
                if arity[op] == 1:
                    for a in base:
                        yield ('op', op, (a,))
            # binary shapes in order of total size, small operands first
            for i, a in enumerate(base):
                for b in base[:i + 1]:
                    for op in ops:
                        if arity[op] != 1:
                            yield ('op', op, (a, b))
                            if a is not b:
                                yield ('op', op, (b, a))
        for f in candidates():
            if f not in seen:
                seen.add(f)
                allf.append(f)
                if len(allf) >= cap:
                    return allf
    return allf


def evalf(f, val, sem):
    if f[0] == 'leaf':
        return val[f[1]]
    return sem.tables[f[1]][tuple(evalf(x, val, sem) for x in f[2])]


def witness(sw, ss, lex, depth):
    "argument (premise |- conclusion) valid in the weaker semantics, invalid in the stronger one"
    from ..schema import fmt
    ops = [o for o in lex.truth_functional]
    small = formulas(ops, lex.arity, 1)
    fs = formulas(ops, lex.arity, depth)
    letters = ('p', 'q')

    def designated_sets(sem):
        out = {}
        vals = list(itertools.product(sem.V, repeat=len(letters)))
        for f in fs:
            out[f] = frozenset(i for i, vs in enumerate(vals) if evalf(f, dict(zip(letters, vs)), sem) in sem.D)
        return out
    dw, ds = designated_sets(sw), designated_sets(ss)
    allw, alls = len(sw.V) ** 2, len(ss.V) ** 2
    for c in fs:
        if len(dw[c]) == allw and len(ds[c]) != alls:
            return f'|- {fmt(c)}'
    for p, c in itertools.chain(((p, c) for p in fs for c in small), ((p, c) for p in small for c in fs)):
        if dw[p] <= dw[c] and not ds[p] <= ds[c]:
            return f'{fmt(p)} |- {fmt(c)}'
    return None
