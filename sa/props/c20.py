"""C20 -- the published description of a model says what the model evaluates (folded export)."""
from __future__ import annotations

import ast
import itertools

from .. import astq
from ..model import ClassRef
from ..core import AnalysisError
from ..minieval import Interp, Obj, Raises

from . import common

LEVEL = 'other'
EXPLANATION = (
    "Static analysis (the export definitions folded over mock models). BaseModel.get_data, Frame.get_data and its helpers, PredicateInterpretation.having and Access.flat are folded from source over mock frames/interpretations: (R1) the export lists exactly the model's worlds (sorted) and access pairs (R.flat over those worlds, sorted), and for each world the atomics and opaques read from the same per-frame stores that value_of_atomic/value_of_opaque read, with the stored values; non-modal models export frame 0; (R2) a tuple is in a predicate's extension exactly when its stored value is true-containing (T or B) and in the anti-extension exactly when false-containing (B or F), the anti-extension being exported iff the logic is many-valued, with +/- symbols; (R3) every listing comes out sorted whatever the insertion order. Agreement with value_of for arbitrary compound sentences is C08; per-model values are declined. (R4) Model.finish() folded end to end: every world of the access relation has a completed frame, so the export covers what evaluation reads. (R5) LogicMetaMeta.__new__ folded over every logic's Meta facts: the many_valued flag the export branches on equals 'more than two truth values' for all 57 logics. R1's evaluator side is folded too (value_of_atomic/opaque/predicated return the value stored in frames[world], unassigned when absent). R2 runs over every distinct profile of Meta facts among the logics (values, designated values, many_valued, unassigned value), not only over the flag.")
TRUSTED = ['CPython ast', 'sa.minieval', 'Python sorted()']
ASSUMPTIONS = ['sorted() over sentences/predicates/tuples relies on the lexical total order (C14)']

MODELS = 'pytableaux.models'


def run(ctx, rep):
    m = ctx.m
    it = Interp({}, where='models/__init__.py export')
    f = lambda q: m.func(MODELS, q)
    names = ['BaseModel.get_data', 'BaseModel.Frame.get_data', 'BaseModel.Frame._get_sentencemap_data', 'BaseModel.Frame._get_predicates_data',
             'BaseModel.Frame._get_predicate_data_values', 'BaseModel.Frame._get_predicate_data_part', 'PredicateInterpretation.having', 'BaseModel.Access.flat']
    for n in names:
        rep.consult(m.loc(MODELS, f(n)) + ' ' + n)

    R1 = rep.rule('C20.R1', 'export lists exactly the worlds, access pairs and per-world stores the evaluator reads')
    # --- BaseModel.get_data
    for modal in (True, False):
        flats = []

        class R:
            def flat(self, **kw):
                flats.append(kw)
                return iter([(0, 2), (2, 2)])
        # worlds need not be contiguous: 0, 3, 7 (inserted out of order)
        frames = {7: Obj('f7', get_data=lambda: 'DATA7'), 0: Obj('f0', get_data=lambda: 'DATA0'), 3: Obj('f3', get_data=lambda: 'DATA3')}
        mdl = Obj('model', __srcclass__=(m, ClassRef(MODELS, 'BaseModel')), frames=frames, Meta=Obj('Meta', modal=modal), R=R())
        nframes = len(frames)
        r = it.safe(f('BaseModel.get_data'), [mdl])
        if not modal:
            ok = r == 'DATA0'
            why = f'non-modal export is {r!r}, expected the data of frame 0'
        else:
            ok = isinstance(r, dict) and r.get('Worlds', {}).get('values') == [0, 3, 7] and r.get('Access', {}).get('values') == [(0, 2), (2, 2)] \
                and flats == [dict(w1s=[0, 3, 7], sort=True)] and len(frames) == nframes \
                and [(x.get('value'), x.get('description')) for x in r.get('Frames', {}).get('values', [])] == [('DATA0', 'frame at world 0'), ('DATA3', 'frame at world 3'), ('DATA7', 'frame at world 7')]
            why = f'modal export {r!r} (R.flat called with {flats}) is not the model\'s worlds [0,3,7] sorted, R.flat(w1s=worlds, sort=True), one frame per world in order'
        rep.instance(R1, ok=ok, nontrivial=('get_data', modal))
        if not ok:
            rep.finding(R1, f'C20.R1/BaseModel.get_data/modal={modal}', m.loc(MODELS, f('BaseModel.get_data')), 'BaseModel.get_data', why)
    # --- Frame.get_data reads atomics / opaques / predicates of *this* frame
    calls = []
    fr = Obj('frame', __srcclass__=(m, ClassRef(MODELS, 'BaseModel.Frame')), atomics={'ATOMICS': 1}, opaques={'OPAQUES': 1})
    fr._get_sentencemap_data = lambda base: (calls.append(base), ('SM', tuple(base)))[1]
    fr._get_predicates_data = lambda: 'PREDS'
    r = it.safe(f('BaseModel.Frame.get_data'), [fr])
    ok = r == dict(Atomics=('SM', ('ATOMICS',)), Opaques=('SM', ('OPAQUES',)), Predicates='PREDS') and calls == [fr.atomics, fr.opaques]
    rep.instance(R1, ok=ok, nontrivial='Frame.get_data')
    if not ok:
        rep.finding(R1, 'C20.R1/Frame.get_data', m.loc(MODELS, f('BaseModel.Frame.get_data')), 'Frame.get_data', f'does not export this frame\'s atomics, opaques and predicates stores: {r!r}')
    # the evaluator reads the same stores
    for name, store in (('value_of_atomic', 'atomics'), ('value_of_opaque', 'opaques'), ('value_of_predicated', 'predicates')):
        fn = m.func(MODELS, f'BaseModel.{name}')
        rep.consult(m.loc(MODELS, fn) + f' BaseModel.{name}')
        pred = Obj('pred')
        sent = Obj('sentence', params=('c1', 'c2'), predicate=pred)
        stores = {w: dict(atomics={}, opaques={}, predicates={pred: {}}) for w in (0, 3)}
        key = sent.params if store == 'predicates' else sent
        (stores[3][store][pred] if store == 'predicates' else stores[3][store])[key] = 'STORED@3'
        (stores[0][store][pred] if store == 'predicates' else stores[0][store])[key] = 'STORED@0'
        mdl = Obj('model', __srcclass__=(m, ClassRef(MODELS, 'BaseModel')), frames={w: Obj(f'frame{w}', **st) for w, st in stores.items()},
                  Meta=Obj('Meta', unassigned_value='UNASSIGNED'), constants={'c1', 'c2'}, finished=True)
        mdl._check_finished = lambda: None
        got = [it.safe(fn, [mdl, sent], dict(world=w)) for w in (0, 3)]
        other = Obj('other-sentence', params=('c1', 'c1'), predicate=pred)
        got.append(it.safe(fn, [mdl, other], dict(world=3)))
        ok = got == ['STORED@0', 'STORED@3', 'UNASSIGNED']
        rep.instance(R1, ok=ok, nontrivial=(name, store))
        if not ok:
            rep.finding(R1, f'C20.R1/{name}', m.loc(MODELS, fn), f'BaseModel.{name}', f'does not read the value stored in frames[world].{store} (the store the export publishes), unassigned when absent: gives {got!r} at worlds 0, 3 and for an unset key')
    # --- _get_sentencemap_data
    R3 = rep.rule('C20.R3', 'every listing is sorted, whatever the insertion order')
    for order in itertools.permutations(['q', 'p', 'r']):
        base = {k: f'val-{k}' for k in order}
        r = it.safe(f('BaseModel.Frame._get_sentencemap_data'), [Obj('frame', __srcclass__=(m, ClassRef(MODELS, 'BaseModel.Frame'))), base])
        vals = r.get('values') if isinstance(r, dict) else None
        ok = vals == [dict(input=k, output=f'val-{k}') for k in ('p', 'q', 'r')]
        rep.instance(R3, ok=ok, nontrivial=('sentencemap', order))
        if not ok:
            rep.finding(R3, 'C20.R3/_get_sentencemap_data', m.loc(MODELS, f('BaseModel.Frame._get_sentencemap_data')), 'Frame._get_sentencemap_data',
                        f'insertion order {order}: values {vals!r} are not the sorted (sentence, stored value) pairs')
            break
    # --- predicates data
    R2 = rep.rule('C20.R2', 'extension = tuples with a true-containing value, anti-extension = tuples with a false-containing value, anti-extension iff many-valued')
    # one Meta mock per distinct profile of Meta facts among the logics (value names, designated values, the many_valued flag as the
    # folded metaclass leaves it): whatever fact the export branches on, the anti-extension is published iff there are more than two values
    profiles = {}
    for lg in ctx.lgs:
        vnames = tuple(n for n, _ in lg.values)
        profiles.setdefault((vnames, tuple(sorted(lg.designated)), bool(lg.many_valued), lg.unassigned), lg.name)
    for (vnames, desig, mv, unass), lgname in sorted(profiles.items()):
        many = len(vnames) > 2
        hv = []
        interp = Obj('interp', having=lambda *vals: (hv.append(vals), [('b',), ('a',)])[1])
        meta = Obj('Meta', many_valued=mv, values=vnames, designated_values=frozenset(desig), unassigned_value=unass, name=lgname)
        fr = Obj('frame', __srcclass__=(m, ClassRef(MODELS, 'BaseModel.Frame')), predicates={'G': interp, 'F': interp}, model=Obj('model', Meta=meta))
        fr._get_predicate_data_part = lambda pred, tuples: it.call(f('BaseModel.Frame._get_predicate_data_part'), [fr, pred, tuples])
        out = it.generate(f('BaseModel.Frame._get_predicate_data_values'), [fr, 'F'])
        want_calls = [('T', 'B'), ('B', 'F')] if many else [('T', 'B')]
        syms = [d.get('symbol') for d in out]
        outs = [d.get('values') for d in out]
        ok = hv == want_calls and syms == (['P+', 'P-'] if many else ['P']) and all(o == [dict(input='F', output=[('a',), ('b',)])] for o in outs)
        rep.instance(R2, ok=ok, nontrivial=('predicate-data', lgname))
        if not ok:
            rep.finding(R2, f'C20.R2/_get_predicate_data_values/{lgname}', m.loc(MODELS, f('BaseModel.Frame._get_predicate_data_values')), 'Frame._get_predicate_data_values',
                        f'Meta facts of {lgname} (values {vnames}, designated {desig}): having() called with {hv} (expected {want_calls}), symbols {syms}, outputs {outs}: extension/anti-extension are not the T/B and B/F tuples, sorted')
        fr._get_predicate_data_values = lambda pred: it.generate(f('BaseModel.Frame._get_predicate_data_values'), [fr, pred])
        hv.clear()
        r = it.safe(f('BaseModel.Frame._get_predicates_data'), [fr])
        preds = [d['values'][0]['input'] for d in r.get('values', [])] if isinstance(r, dict) else None
        ok = preds == (['F', 'F', 'G', 'G'] if many else ['F', 'G'])
        rep.instance(R3, ok=ok, nontrivial=('predicates-sorted', lgname))
        if not ok:
            rep.finding(R3, f'C20.R3/_get_predicates_data/{lgname}', m.loc(MODELS, f('BaseModel.Frame._get_predicates_data')), 'Frame._get_predicates_data', f'predicates exported as {preds}, not sorted / not every predicate')
    # --- having: one interpreter for all value families, one after the other and each twice, as in one process -- members of
    # different value enums are different objects even when their names agree, so a result (or a cache) from one family must not
    # leak into another
    from ..bind import bound_class as _bc20
    ValC = _bc20(m, it, ClassRef(MODELS, 'Mval'), only=('__eq__', '__hash__', '__bool__', '__len__'), with_eq=True)      # (+ truthiness, should the class define it: `having` filters with it)
    ValC.__repr__ = lambda s_: f'<{s_.name}>'
    rep.consult(m.relfile(MODELS) + ' Mval.__eq__ / __hash__')
    for rnd in (1, 2):
        for fam, valset in enumerate((('F', 'N', 'T'), ('F', 'B', 'T'), ('F', 'N', 'B', 'T'), ('F', 'T'))):
            # members of this family's value enum: Mval's own __eq__ / __hash__ (folded from source) on distinct objects
            members_ = {}
            for n_ in valset:
                v_ = ValC()
                v_.name, v_.value = n_, {'F': 0.0, 'N': 0.25, 'B': 0.75, 'T': 1.0}[n_]
                members_[n_] = v_
            class Values:
                def get(self, k, d=None, members_=members_):
                    return members_.get(str(k), d)
            mapping = {(f'c{i}',): members_[v] for i, v in enumerate(valset)}

            class PI(Obj):
                def items(self, mapping=mapping):
                    return list(mapping.items())
            for ask, wanted in ((('T', 'B'), {'T', 'B'}), (('B', 'F'), {'B', 'F'})):
                pi = PI('interpretation', __srcclass__=(m, ClassRef(MODELS, 'PredicateInterpretation')), model=Obj('model', values=Values()))
                r = it.generate(f('PredicateInterpretation.having'), [pi, *ask])
                want = [k for k, v in mapping.items() if v.name in wanted]
                ok = r == want
                rep.instance(R2, ok=ok, nontrivial=('having', valset, ask, rnd))
                if not ok:
                    rep.finding(R2, f'C20.R2/having/{"".join(valset)}/{"".join(ask)}', m.loc(MODELS, f('PredicateInterpretation.having')), 'PredicateInterpretation.having',
                                f'values {valset} (family {fam + 1} of 4 used in this process, pass {rnd}): having{ask} yields {r}, expected the tuples whose stored value is in {sorted(wanted)}: {want}')
    # --- Access.flat sorted
    class Acc(dict):
        pass
    acc = Acc({2: [5, 1], 0: [3, 0]})
    r = it.generate(f('BaseModel.Access.flat'), [acc], dict(w1s=[0, 2], sort=True))
    ok = r == [(0, 0), (0, 3), (2, 1), (2, 5)]
    rep.instance(R3, ok=ok, nontrivial='Access.flat')
    if not ok:
        rep.finding(R3, 'C20.R3/Access.flat', m.loc(MODELS, f('BaseModel.Access.flat')), 'BaseModel.Access.flat', f'flat(w1s=[0,2], sort=True) yields {r}, not the sorted pairs')
    r = it.generate(f('BaseModel.Access.flat'), [acc], dict(sort=True))
    ok = r == [(0, 0), (0, 3), (2, 1), (2, 5)]
    rep.instance(R3, ok=ok, nontrivial='Access.flat-default')
    if not ok:
        rep.finding(R3, 'C20.R3/Access.flat/default', m.loc(MODELS, f('BaseModel.Access.flat')), 'BaseModel.Access.flat', f'flat(sort=True) yields {r}')
    # stores are written only by the set_* API and completion (so export == what was set)
    n = 0
    for attr in ('atomics', 'opaques'):
        for mod, qn, fn, t, st in astq.attr_stores(m, attr, prefix='pytableaux.models'):
            n += 1
            ok = mod == MODELS and qn == 'BaseModel.Frame.__init__'
            rep.instance(R1, ok=ok, nontrivial=(attr, qn))
            if not ok:
                rep.finding(R1, f'C20.R1/store/{attr}/{mod}:{qn}', m.loc(mod, st), qn, f'replaces a frame\'s {attr} store outside Frame.__init__')
    rep.floor('C20.R1', 'store assignments', n, 2)
    R4 = rep.rule('C20.R4', 'Model.finish() folded end to end for every logic: every world of the access relation -- the ones a frame condition adds '
                            'included -- has a frame, and every frame lists every letter / opaque / predicate of the model; so the export covers what evaluation reads '
                            'and does not change by evaluating')
    n = common.finish_folds(ctx, rep, R4, 'C20.R4')
    rep.floor('C20.R4', 'finish pre-states', n, 500)
    r5(ctx, rep)


LOGICS = 'pytableaux.logics'


def r5(ctx, rep):
    m = ctx.m
    R5 = rep.rule('C20.R5', 'the flag the export branches on is the logic\'s value count: LogicMetaMeta.__new__ folded over every logic\'s Meta facts gives '
                            'many_valued == (more than two truth values); so a logic with false-containing values other than through absence publishes the anti-extension')
    fn = m.func(LOGICS, 'LogicMetaMeta.__new__')
    rep.consult(m.loc(LOGICS, fn) + ' LogicMetaMeta.__new__')
    n = 0
    for lg in ctx.lgs:
        got = lg.many_valued          # from the folded metaclass (sa.metafold through sa.logics)
        want = len(lg.values) != 2
        n += 1
        ok = got is want
        rep.instance(R5, ok=ok, nontrivial=lg.short)
        if not ok:
            rep.finding(R5, f'C20.R5/{lg.short}', m.loc(LOGICS, fn), 'LogicMetaMeta.__new__',
                        f'{lg.name} has {len(lg.values)} truth values ({"modal" if lg.modal else "non-modal"}) but its Meta.many_valued comes out {got!r}; '
                        f'Frame._get_predicate_data_values publishes the anti-extension only when that flag is true')
    rep.floor('C20.R5', 'logics', n, 50)
