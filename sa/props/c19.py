"""C19 -- every finished tableau renders (dispatch exhaustiveness and key completeness)."""
from __future__ import annotations

import ast
import re

from .. import astq, symtab
from ..core import AnalysisError
from ..model import ClassRef, FuncRef
from ..symtab import Sym

LEVEL = 'other'
EXPLANATION = (
    'Static analysis (dispatch exhaustiveness + table key completeness). (R1) for each strict translator (Latex, Text: a missing visit_ method raises NotImplementedError) every doctree element class that the tableau document builder can emit -- the closure of `types[...]` references from `tableau.for_object` -- has a visit_ method, and a depart_ method unless the visit_ always raises SkipDeparture/SkipNode; the html translator falls back to default visitors. (R2) every string-table key the translators and the lexical writer look up (access, designation True/False, subscript delimiters, whitespace, parentheses, every lexical key) is present in every table of _symdata (or the lookup is guarded by except KeyError). (R3) the document builder covers the node kinds rules can put on a branch (sentence, access, ellipsis, flag; designation and world sub-elements); every registered writer class is concrete and names its translator; the plain-text template mentions sentence, world, both designation markers, access pair, tick and the closure mark conditioned on the closure flag. Determinism and faithfulness of the rendered text for a given tableau are declined. (R4) ownership: jinja template handles are not stored or memoised. R3 folds the node builders over one mock node of every kind, TabWriterMeta.__call__ over registries and _write_structure over mock trees. (R5) class-level containers in the writers package are pure caches: every method reading one is folded three times in a row from an empty container with file reads mocked; the three results are identical (first rendering in a process = second).')
TRUSTED = ['CPython ast', 'sa.minieval (symbol tables)']
ASSUMPTIONS = ['element classes are instantiated only through `types[cls]` in nodes.py builders']

NODES = 'pytableaux.proof.writers.doctree.nodes'
DOCTREE = 'pytableaux.proof.writers.doctree'
WRITERS = 'pytableaux.proof.writers'
STRICT = [('pytableaux.proof.writers.doctree.latex', 'LatexTranslator'), ('pytableaux.proof.writers.doctree.text', 'TextTranslator')]


def emitted_types(m):
    """Element class names reachable from document/tableau through `types[X]` in builder methods."""
    tree = m.trees[NODES]
    classes = {st.name: st for st in tree.body if isinstance(st, ast.ClassDef)}
    refs = {}
    for name, cd in classes.items():
        s = set()
        for n in ast.walk(cd):
            if isinstance(n, ast.Subscript) and astq.u(n.value) in ('types', 'cls.types') and isinstance(n.slice, ast.Name):
                s.add(n.slice.id)
        refs[name] = s
    # DoctreeTabWriter.build_doc: types[nodes.document](types[nodes.tableau].for_object(tab))
    bd = m.func(DOCTREE, 'DoctreeTabWriter.build_doc')
    start = {n.slice.attr for n in ast.walk(bd) if isinstance(n, ast.Subscript) and astq.u(n.value) == 'types' and isinstance(n.slice, ast.Attribute)}
    if not {'document', 'tableau'} <= start:
        raise AnalysisError(f'DoctreeTabWriter.build_doc: document/tableau roots not recognised ({start})')
    seen, todo = set(), list(start)
    while todo:
        c = todo.pop()
        if c in seen or c not in classes:
            continue
        seen.add(c)
        todo.extend(refs[c])
    return seen, classes


def always_skips(fn):
    b = astq.stmts(fn)
    return bool(b) and isinstance(b[-1], ast.Raise) and astq.u(b[-1].exc).split('(')[0] in ('SkipDeparture', 'SkipNode')


def r8(ctx, rep):
    """Both text renderers print the mark of a node's `flag` value; "one closure mark per closed branch and none on open ones" then
    needs the closure flag to sit only on the node `Branch.close` appends.  Who-may-build: the closure property map
    (`Node.PropMap.Closure`, read from source) or a literal mapping carrying its flag value is used to build a node only in
    `Branch.close`; elsewhere only its entries are read (`PropMap.Closure[key]`)."""
    m = ctx.m
    R8 = rep.rule('C19.R8', 'closure marks only on closed branches: a node carrying the closure flag (Node.PropMap.Closure, or a literal mapping with its flag '
                            'value) is built only in Branch.close; every other use reads an entry of the map')
    PROOF, COMMON = 'pytableaux.proof', 'pytableaux.proof.common'
    pm = next((st for st in ast.walk(m.trees[PROOF]) if isinstance(st, ast.ClassDef) and st.name == 'PropMap'), None)
    if pm is None:
        raise AnalysisError('proof/__init__.py: class PropMap not found')
    maps = {}
    for st in pm.body:
        if isinstance(st, ast.Assign) and len(st.targets) == 1 and isinstance(st.targets[0], ast.Name):
            v = st.value
            d = None
            if isinstance(v, ast.Call) and isinstance(v.func, ast.Name) and v.func.id == 'dict' and not v.args:
                d = {k.arg: k.value for k in v.keywords}
            elif isinstance(v, ast.Dict):
                d = {(k.value if isinstance(k, ast.Constant) else getattr(k, 'attr', None)): x for k, x in zip(v.keys, v.values)}
            if d is not None:
                maps[st.targets[0].id] = {k: (x.value if isinstance(x, ast.Constant) else astq.u(x)) for k, x in d.items()}
    if 'Closure' not in maps or 'flag' not in maps['Closure']:
        raise AnalysisError(f'proof/__init__.py PropMap: no Closure map with a flag entry (found {sorted(maps)})')
    cflag = maps['Closure']['flag']
    flags = {v.get('flag') for v in maps.values() if 'flag' in v}
    rep.consult(m.loc(PROOF, pm) + ' NodeMeta.PropMap')
    n = 0
    for mod in sorted(m.trees):
        if not (mod.startswith('pytableaux.proof') or mod.startswith('pytableaux.logics') or mod.startswith('pytableaux.models')) or mod.startswith('pytableaux.proof.writers'):
            continue
        for qn, fn in astq.all_functions(m.trees[mod]):
            pmap = astq.parent_map(fn)
            for x in astq.walk_no_nested(fn):
                site = None
                if isinstance(x, ast.Attribute) and x.attr == 'Closure' and isinstance(x.value, ast.Attribute) and x.value.attr == 'PropMap':
                    par = pmap.get(x)
                    if isinstance(par, ast.Subscript) and par.value is x and isinstance(par.ctx, ast.Load):
                        continue        # reads one entry of the map
                    site = f'`{astq.u(par if par is not None else x)[:70]}` uses the closure property map as a whole'
                elif isinstance(x, ast.Dict):
                    for k, v in zip(x.keys, x.values):
                        kn = k.value if isinstance(k, ast.Constant) else getattr(k, 'attr', None)
                        if kn == 'flag' and isinstance(v, ast.Constant) and v.value == cflag:
                            site = f'`{astq.u(x)[:70]}` is a mapping with the closure flag'
                elif isinstance(x, ast.keyword) and x.arg == 'flag' and isinstance(x.value, ast.Constant) and x.value.value == cflag:
                    site = f'`flag={cflag!r}` builds a mapping with the closure flag'
                if site is None:
                    continue
                # a mapping handed to a lookup (branch.has / find / search / all, node.meets) is a query, not a node
                up = pmap.get(x)
                while isinstance(up, (ast.BinOp, ast.Dict, ast.keyword)):
                    up = pmap.get(up)
                if isinstance(up, ast.Call) and isinstance(up.func, ast.Attribute) and up.func.attr in ('has', 'find', 'search', 'all', 'any', 'meets'):
                    continue
                n += 1
                ok = (mod, qn) == (COMMON, 'Branch.close')
                if not ok and mod == COMMON and qn.startswith('Branch._') and not qn.startswith('Branch.__'):
                    # a private helper of Branch that only Branch.close calls
                    short = qn.rsplit('.', 1)[-1]
                    callers = {q for q, f in astq.all_functions(m.trees[mod]) for c in astq.calls(f, nested=False)
                               if isinstance(c.func, ast.Attribute) and c.func.attr == short}
                    ok = callers == {'Branch.close'}
                rep.instance(R8, ok=ok, nontrivial=(mod, qn))
                if not ok:
                    rep.finding(R8, f'C19.R8/{mod}:{qn}', m.loc(mod, x), qn, f'{site} outside Branch.close: the node is rendered with the closure mark although its branch is open')
    # the plain-text template compares node.flag with literals: each must be a flag value some property map defines, and the closure mark hangs on the closure value
    import re as _re
    from pathlib import Path as _P
    tpl = _P(rep.repo) / 'pytableaux/proof/writers/templates/text/nodes.jinja2'
    if tpl.exists():
        txt = tpl.read_text()
        rep.consult('pytableaux/proof/writers/templates/text/nodes.jinja2')
        for mt in _re.finditer(r"node\.flag\s*==\s*'([^']*)'", txt):
            ok = mt.group(1) in flags
            rep.instance(R8, ok=ok, nontrivial=('template', mt.group(1)))
            if not ok:
                rep.finding(R8, f'C19.R8/template/{mt.group(1)}', 'pytableaux/proof/writers/templates/text/nodes.jinja2', 'nodes.jinja2',
                            f'compares node.flag with {mt.group(1)!r}, which no property map of proof.NodeMeta.PropMap defines ({sorted(flags)}): the mark is never printed')
    rep.floor('C19.R8', 'closure-map build sites', n, 1)


def run(ctx, rep):
    m = ctx.m
    r8(ctx, rep)
    R1 = rep.rule('C19.R1', 'visitor exhaustiveness of the strict translators over every element class the builder can emit')
    emitted, classes = emitted_types(m)
    rep.floor('C19.R1', 'emitted element classes', len(emitted), 15)
    for mod, cls in STRICT:
        ref = ClassRef(mod, cls)
        ns = {}
        for c in reversed(m.mro(ref)):
            if c.module.startswith('pytableaux'):
                for k, v in m.clsns(c).items():
                    ns[k] = (v, c)
        for el in sorted(emitted):
            v = ns.get(f'visit_{el}')
            ok = v is not None
            fn = None
            if ok:
                val = m.force(v[0])
                fn = val.node if isinstance(val, FuncRef) else None
            rep.instance(R1, ok=ok, nontrivial=(cls, el, 'visit'))
            if not ok:
                rep.finding(R1, f'C19.R1/{cls}/visit_{el}', m.relfile(mod), cls, f'no visit_{el}: rendering a tableau that contains a <{el}> element raises NotImplementedError')
                continue
            if fn is None or always_skips(fn):
                continue
            d = ns.get(f'depart_{el}')
            ok = d is not None
            rep.instance(R1, ok=ok, nontrivial=(cls, el, 'depart'))
            if not ok:
                rep.finding(R1, f'C19.R1/{cls}/depart_{el}', m.loc(mod, fn), cls, f'visit_{el} does not skip departure and there is no depart_{el}: NotImplementedError on the way out')
    # html: default visitor fallbacks
    h = ClassRef('pytableaux.proof.writers.doctree.html', 'HtmlTranslator')
    ok = any(c.qualname == 'DefaultNodeVisitor' for c in m.mro(h)) and m.method(h, 'default_visitor')[0] is not None and m.method(h, 'default_departer')[0] is not None
    rep.instance(R1, ok=ok, nontrivial='HtmlTranslator-defaults')
    if not ok:
        rep.finding(R1, 'C19.R1/HtmlTranslator/defaults', m.relfile(h.module), 'HtmlTranslator', 'no default visitor/departer fallback')
    # Node.walkabout / walk and the visitor dispatch folded over a mock tree: visit parent first, children in order, depart last;
    # SkipDeparture drops the departure only, SkipNode drops children and departure; an element without a visitor method is
    # NotImplementedError for the strict visitor and goes to default_visitor / default_departer for the default one
    from ..bind import bound_class
    from ..minieval import Interp as _Iw, Raised as _Rw

    class SkipDepartureM(Exception):
        pass

    class SkipNodeM(Exception):
        pass
    cons_ = set()
    itw = _Iw(dict(SkipDeparture=SkipDepartureM, SkipNode=SkipNodeM, NotImplementedError=NotImplementedError, AttributeError=AttributeError),
              where='proof/writers/doctree Node.walk / NodeVisitor')
    NodeB = bound_class(m, itw, ClassRef(NODES, 'Node'), only=('walk', 'walkabout'), consulted=cons_)
    kinds = {k: type(k, (NodeB,), {}) for k in ('alpha', 'beta', 'gamma')}

    def mk(kind, *children):
        n_ = kinds[kind]()
        n_.children = list(children)
        n_.label = kind + str(len(made))
        made.append(n_)
        return n_
    for vis_base in ('NodeVisitor', 'DefaultNodeVisitor'):
        VB = bound_class(m, itw, ClassRef(DOCTREE, vis_base), consulted=cons_)
        for skip in (None, 'SkipDeparture', 'SkipNode'):
            for have_gamma in (True, False):
                made, log = [], []
                tree = mk('alpha', mk('beta', mk('gamma'), mk('gamma')), mk('gamma'))

                def visit_beta(s_, n_):
                    log.append(('visit', n_.label))
                    if skip == 'SkipDeparture':
                        raise SkipDepartureM()
                    if skip == 'SkipNode':
                        raise SkipNodeM()
                ns = dict(visit_alpha=lambda s_, n_: log.append(('visit', n_.label)), depart_alpha=lambda s_, n_: log.append(('depart', n_.label)),
                          visit_beta=visit_beta, depart_beta=lambda s_, n_: log.append(('depart', n_.label)),
                          default_visitor=lambda s_, n_: log.append(('default-visit', n_.label)), default_departer=lambda s_, n_: log.append(('default-depart', n_.label)))
                if have_gamma:
                    ns.update(visit_gamma=lambda s_, n_: log.append(('visit', n_.label)), depart_gamma=lambda s_, n_: log.append(('depart', n_.label)))
                V = type('V', (VB,), ns)
                try:
                    tree.walkabout(V())
                    err = None
                except NotImplementedError:
                    err = 'NotImplementedError'
                except (_Rw, TypeError, AttributeError) as e:
                    err = f'{type(e).__name__}: {getattr(e, "text", e)}'

                def ref(n_, out):
                    kind = type(n_).__name__
                    strict_missing = kind == 'gamma' and not have_gamma
                    if strict_missing and vis_base == 'NodeVisitor':
                        raise NotImplementedError
                    out.append(('default-visit' if strict_missing else 'visit', n_.label))
                    if kind == 'beta' and skip == 'SkipNode':
                        return
                    for c_ in n_.children:
                        ref(c_, out)
                    if not (kind == 'beta' and skip == 'SkipDeparture'):
                        out.append(('default-depart' if strict_missing else 'depart', n_.label))
                want = []
                try:
                    ref(tree, want)
                    werr = None
                except NotImplementedError:
                    werr = 'NotImplementedError'
                ok = err == werr and (werr is not None or log == want)
                case = f'{vis_base}, visit_beta raises {skip}, gamma visitor methods {"present" if have_gamma else "absent"}'
                rep.instance(R1, ok=ok, nontrivial=('walk', case))
                if not ok:
                    rep.finding(R1, f'C19.R1/walk/{case}', m.relfile(NODES), 'Node.walk / NodeVisitor dispatch',
                                f'{case}: the traversal logs {log} (error {err}); expected {want} (error {werr})')
    rep.consult(*sorted(cons_))

    R2 = rep.rule('C19.R2', 'every string-table key the translators / lexical writer look up exists in every table (or is guarded)')
    pt, st = symtab.load(m)
    M = Sym('Marking')
    need = [(M.tableau, 'access'), (M.tableau, 'designation', True), (M.tableau, 'designation', False), (M.tableau, 'flag', 'closure'),
            (M.tableau, 'flag', 'quit'), (M.subscript_open, 0), (M.subscript_close, 0), (M.whitespace, 0)]
    lexkeys = None
    for t in st:
        name = f"{str(t['notation']).split('.')[-1]}/{t['format']}/{t['dialect']}"
        keys = t['strings']
        for k in need + ([(M.paren_open, 0), (M.paren_close, 0)] if name.startswith('standard') else []):
            ok = k in keys and keys[k] is not NotImplemented
            rep.instance(R2, ok=ok, nontrivial=(name, str(k)))
            if not ok:
                rep.finding(R2, f'C19.R2/{name}/{k}', 'pytableaux/lang/_symdata.py', f'string table {name}', f'key {k} missing: KeyError while rendering in this format')
        lk = {str(k) for k in keys if symtab.string_key_to_item(k) is not None and keys[k] is not NotImplemented}
        if lexkeys is None:
            lexkeys = lk
        missing = lexkeys - lk
        rep.instance(R2, ok=not missing, nontrivial=(name, 'lexical-keys'))
        for k in sorted(missing):
            rep.finding(R2, f'C19.R2/{name}/lexical/{k}', 'pytableaux/lang/_symdata.py', f'string table {name}', f'lexical key {k} has no string in this table')
        if len(lk) < 31:
            rep.finding(R2, f'C19.R2/{name}/lexical-count', 'pytableaux/lang/_symdata.py', f'string table {name}', f'only {len(lk)} of 31 lexical keys have strings')
    # lookups in translator code: every literal key used is in `need`, or guarded
    for mod, cls in STRICT + [('pytableaux.proof.writers.doctree.html', 'HtmlTranslator')]:
        for qn, fn in astq.all_functions(m.trees[mod]):
            pm = None
            for n in astq.walk_no_nested(fn):
                if isinstance(n, ast.Subscript) and astq.u(n.value) == 'self.strings' and isinstance(n.slice, ast.Tuple):
                    elts = n.slice.elts
                    lit = tuple(astq.u(e) for e in elts)
                    pm = pm or astq.parent_map(fn)
                    tr = astq.enclosing(pm, n, ast.Try)
                    guarded = tr is not None and any(h.type is not None and 'KeyError' in astq.u(h.type) for h in tr.handlers)
                    known = lit[:2] in (('Marking.tableau', "'access'"), ('Marking.tableau', "'designation'"), ('Marking.tableau', "'flag'"))
                    ok = guarded or (known and lit[1] != "'flag'")
                    rep.instance(R2, ok=ok, nontrivial=(cls, qn, lit))
                    if not ok:
                        rep.finding(R2, f'C19.R2/{cls}/{qn}/{"|".join(lit)}', m.loc(mod, n), qn, f'looks up strings[{", ".join(lit)}] without a KeyError guard and the key is not in every table')
    R3 = rep.rule('C19.R3', 'builder covers the node kinds; registered writers are concrete; plain-text template renders every node part')
    # node builders folded over one mock node of every kind: what node_props / sentence emit for it
    from ..closure import node_classes
    from ..minieval import Interp as _I2, Obj as _O2, Raised as _Rd
    NC = node_classes(m)
    for extra_kind in ('EllipsisNode',):
        NC.setdefault(extra_kind, type(extra_kind, (NC['Node'],), {}))
    keyobj = _O2('Key', designation='designated', designated='designated', world='world', world1='world1', world2='world2', sentence='sentence', flag='flag')
    proofns = _O2('proof', **NC)
    proofns.Node = NC['Node']
    NC['Node'].Key = keyobj

    class Builder:
        def __init__(s_, name):
            s_.name = name

        def for_object(s_, obj):
            return (s_.name, 'for_object', obj)

        def __call__(s_, *a, **k):
            return (s_.name, 'call', a, tuple(sorted(k)))
    names = tuple(st.name for st in m.trees[NODES].body if isinstance(st, ast.ClassDef))      # every element class of the module is a key of `types`
    itb = _I2(dict({n_: n_ for n_ in names}, proof=proofns, isinstance=isinstance, getattr=getattr), where='proof/writers/doctree/nodes.py builders')
    clsms = {what_: _O2('builder-class', __srcclass__=(m, ClassRef(NODES, what_)), types={n_: Builder(n_) for n_ in names}) for what_ in ('node_props', 'sentence')}

    def mk(kind, **props):
        nd = NC[kind]()
        nd.update(props)
        return nd
    gc = m.func(NODES, 'node_props.get_obj_children')
    sc = m.func(NODES, 'sentence.get_obj_children')
    rep.consult(m.loc(NODES, gc) + ' node_props.get_obj_children', m.loc(NODES, sc) + ' sentence.get_obj_children')
    cases = [
        ('SentenceNode', dict(sentence='S'), gc, lambda out, nd: ('sentence', 'for_object', nd) in out),
        ('SentenceDesignationWorldNode', dict(sentence='S', designated=False, world=2), gc, lambda out, nd: ('sentence', 'for_object', nd) in out),
        ('AccessNode', dict(world1=1, world2=3), gc, lambda out, nd: [x for x in out if x[0] in ('world', 'access')][:3] ==
            [('world', 'for_object', 1), ('access', 'call', (), ()), ('world', 'for_object', 3)]),
        ('EllipsisNode', dict(ellipsis=True), gc, lambda out, nd: any(x[0] == 'ellipsis' for x in out)),
        ('ClosureNode', dict(flag='closure', is_flag=True), gc, lambda out, nd: ('flag', 'for_object', nd) in out),
        ('QuitFlagNode', dict(flag='quit', is_flag=True), gc, lambda out, nd: ('flag', 'for_object', nd) in out),
        ('SentenceNode', dict(sentence='S'), sc, lambda out, nd: not any(x[0] in ('designation', 'world') for x in out)),
        ('SentenceDesignationNode', dict(sentence='S', designated=True), sc, lambda out, nd: ('designation', 'for_object', True) in out and not any(x[0] == 'world' for x in out)),
        ('SentenceDesignationNode', dict(sentence='S', designated=False), sc, lambda out, nd: ('designation', 'for_object', False) in out),
        ('SentenceWorldNode', dict(sentence='S', world=0), sc, lambda out, nd: ('world', 'for_object', 0) in out and not any(x[0] == 'designation' for x in out)),
        ('SentenceDesignationWorldNode', dict(sentence='S', designated=False, world=2), sc,
         lambda out, nd: ('designation', 'for_object', False) in out and ('world', 'for_object', 2) in out),
    ]
    for kind, props, fn_, good in cases:
        if kind not in NC:
            continue
        nd = mk(kind, **props)
        try:
            out = itb.generate(fn_, [clsms['node_props' if fn_ is gc else 'sentence'], nd])
            err = None
        except _Rd as e:
            out, err = [], e.text
        except (TypeError, KeyError, AttributeError) as e:
            out, err = [], f'{type(e).__name__}: {e}'
        ok = err is None and good(out, nd)
        what = 'node_props' if fn_ is gc else 'sentence'
        rep.instance(R3, ok=ok, nontrivial=(what, kind, tuple(sorted(props))))
        if not ok:
            rep.finding(R3, f'C19.R3/{what}/{kind}/{"+".join(sorted(props))}', m.loc(NODES, fn_), f'{what}.get_obj_children',
                        f'for a {kind} {props} the builder emits {[x[:2] for x in out]}{" / raises " + err if err else ""}: a part of the node is not rendered')
    for mod, wcls, fmt in (('pytableaux.proof.writers.doctree.html', 'HtmlTabWriter', 'html'), ('pytableaux.proof.writers.doctree.latex', 'LatexTabWriter', 'latex'),
                           ('pytableaux.proof.writers.doctree.text', 'TextTabWriter', 'text'), ('pytableaux.proof.writers.jinja', 'TextTabWriter', 'text')):
        ref = ClassRef(mod, wcls)
        f_ = m.getattr(ref, 'format')
        ok = f_ == fmt
        if 'doctree' in mod:
            tt = m.getattr(ref, 'translator_type')
            bd, owner = m.method(ref, 'build_doc')
            ok = ok and isinstance(tt, ClassRef) and isinstance(bd, FuncRef) and owner == ref
        else:
            ok = ok and m.getattr(ref, 'template_name') == 'nodes.jinja2' and m.method(ref, '__call__')[0] is not None
        rep.instance(R3, ok=ok, nontrivial=(mod, wcls))
        if not ok:
            rep.finding(R3, f'C19.R3/{mod}:{wcls}', m.relfile(mod), wcls, f'registered writer is not a concrete {fmt} writer (format / translator / build_doc / template)')
    # registration (AST): a writer class is registered by `registry.register(Cls)` anywhere in the writers package or by the
    # decorator form `@registry.register` / `@registry.register(...)`
    registered = {}
    for mod in sorted(m.trees):
        if not mod.startswith(WRITERS):
            continue
        for n_ in ast.walk(m.trees[mod]):
            if isinstance(n_, ast.Call) and isinstance(n_.func, ast.Attribute) and n_.func.attr == 'register' and n_.args and isinstance(n_.args[0], ast.Name):
                registered.setdefault(n_.args[0].id, m.loc(mod, n_))
            if isinstance(n_, ast.ClassDef):
                for d in n_.decorator_list:
                    f_ = d.func if isinstance(d, ast.Call) else d
                    if isinstance(f_, ast.Attribute) and f_.attr == 'register':
                        registered.setdefault(n_.name, m.loc(mod, n_))
    for w in ('HtmlTabWriter', 'LatexTabWriter', 'TextTabWriter'):
        ok = w in registered
        rep.instance(R3, ok=ok, nontrivial=('registered', w))
        if not ok:
            rep.finding(R3, f'C19.R3/registry/{w}', m.relfile(DOCTREE), 'writer registry', f'{w} is no longer registered (registered: {sorted(registered)})')
    mc = m.func(WRITERS, 'TabWriterMeta.__call__')
    rep.consult(m.loc(WRITERS, mc) + ' TabWriterMeta.__call__')
    # folded: TabWriter(fmt, ...) resolves the format in the default registry first, then in any registry; no format -> the default writer
    from ..minieval import Interp as _I, Obj as _O, Raises as _Rs

    class Reg(dict):
        def __init__(self, name, default=None, **kw):
            super().__init__(**kw)
            self.name, self.default = name, default
    mk = lambda tag: (lambda *a, **k: (tag, a, tuple(sorted(k.items()))))
    dflt = Reg('doctree', default=mk('DEFAULT'), html=mk('HTML'))
    other = Reg('jinja', text=mk('TEXT'))
    TabWriterM = _O('TabWriter')
    for with_default_key in (True, False):
        regs = dict(default=dflt, jinja=other) if with_default_key else dict(doctree=dflt, jinja=other)
        itc = _I(dict(TabWriter=TabWriterM, registries=regs, registry=dflt, KeyError=KeyError), where='TabWriterMeta.__call__')
        for args, kw, want in (((), {}, ('DEFAULT', (), ())), (('html',), {}, ('HTML', (), ())), (('text', 'polish'), {}, ('TEXT', ('polish',), ())),
                               ((), {'format': 'text', 'notation': 'x'}, ('TEXT', (), (('notation', 'x'),))), (('nosuch',), {}, 'KeyError')):
            r = itc.safe(mc, [TabWriterM, *args], dict(kw))
            ok = (isinstance(r, _Rs) and 'KeyError' in r.text) if want == 'KeyError' else r == want
            case = f'TabWriter{args}{kw or ""} default-registry-key={with_default_key}'
            rep.instance(R3, ok=ok, nontrivial=('TabWriterMeta.__call__', case))
            if not ok:
                rep.finding(R3, f'C19.R3/TabWriterMeta.__call__/{case}', m.loc(WRITERS, mc), 'TabWriterMeta.__call__', f'{case}: gives {r!r}, expected {want!r}')
    tpl = (m.root / 'pytableaux/proof/writers/templates/text/nodes.jinja2')
    if not tpl.exists():
        raise AnalysisError('plain-text template nodes.jinja2 vanished')
    t = tpl.read_text()
    parts = {
        'sentence': r"lw\(node\.sentence\)\s+if\s+node\.has\('sentence'\)",
        'world': r"node\.world\s+if\s+node\.has\('world'\)",
        'designated marker': r"'\s*\[\+\]'\s+if\s+node\.designated\b",
        'undesignated marker': r"'\s*\[-\]'\s+if\s+node\.designated\s*==\s*False",
        'access pair': r"node\.world1\s*~\s*'Rw'\s*~\s*node\.world2\s+if\s+node\.has\('world1',\s*'world2'\)",
        'tick': r"if\s+node\.ticked",
        'closure mark': r"'\(x\)'\s+if\s+node\.flag\s*==\s*'closure'",
        'all nodes of the structure': r"for\s+node\s+in\s+structure\.nodes",
    }
    for what, rx in parts.items():
        ok = re.search(rx, t) is not None
        rep.instance(R3, ok=ok, nontrivial=('template', what))
        if not ok:
            rep.finding(R3, f'C19.R3/template/{what}', 'pytableaux/proof/writers/templates/text/nodes.jinja2', 'text template', f'the plain-text template no longer renders the {what} as reviewed')
    ws = m.func('pytableaux.proof.writers.jinja', 'TextTabWriter._write_structure')
    rep.consult(m.loc('pytableaux.proof.writers.jinja', ws) + ' TextTabWriter._write_structure')
    # folded over mock structures: every structure is rendered exactly once, parent before its children, children in order
    from collections import deque as _dq

    def S(name, *children):
        return _O(name, name=name, children=list(children))
    rendered = []
    tmpl = _O('template', render=lambda structure: (rendered.append(structure.name), f'[{structure.name}]')[1])
    its = _I(dict(deque=_dq, enumerate=enumerate, len=len), where='TextTabWriter._write_structure')
    w = _O('writer', __srcclass__=(m, ClassRef('pytableaux.proof.writers.jinja', 'TextTabWriter')))
    w._write_structure = lambda s_, t_, **kw: its.call(ws, [w, s_, t_], kw)
    for label, tree_, order in (('single', S('r'), ['r']), ('fork', S('r', S('a'), S('b')), ['r', 'a', 'b']),
                                ('nested', S('r', S('a', S('a1'), S('a2')), S('b'), S('c', S('c1'))), ['r', 'a', 'a1', 'a2', 'b', 'c', 'c1'])):
        del rendered[:]
        r = its.safe(ws, [w, tree_, tmpl])
        text = r if isinstance(r, str) else ''
        pos = [text.find(f'[{n}]') for n in order]
        ok = isinstance(r, str) and rendered == order and all(p >= 0 for p in pos) and pos == sorted(pos) and all(text.count(f'[{n}]') == 1 for n in order)
        rep.instance(R3, ok=ok, nontrivial=('_write_structure', label))
        if not ok:
            rep.finding(R3, f'C19.R3/_write_structure/{label}', m.loc('pytableaux.proof.writers.jinja', ws), 'TextTabWriter._write_structure',
                        f'{label}: structures rendered {rendered} (expected {order} once each, in that order in the text); output {r!r:.120}')
    r4(ctx, rep)
    r5(ctx, rep)
    r6(ctx, rep)
    r7(ctx, rep)


def r4(ctx, rep):
    """Ownership of template handles.  JinjaTabWriter.get_template binds *this* writer's lw/opts into the globals of a
    Template object that the (class-level, shared) jinja Environment caches and hands to every writer of the class;
    the binding is only valid until the next get_template of any writer.  So a handle must be fetched and used
    within one call: it may live in a local, be passed down and be returned by a plain (re-evaluated) accessor, but
    must not be stored on an object, a class or the module, nor memoised."""
    m = ctx.m
    R4 = rep.rule('C19.R4', 'jinja template handles (get_template results, bound to one writer\'s lw until the next fetch) never outlive the call: '
                            'no store to an attribute/subscript/global, no memoising decorator on the fetching function')
    MEMO = ('cached_property', 'lru_cache', 'cache', 'lazy', 'membr', 'memoize', 'memoized')
    n = 0
    for mod in sorted(m.trees):
        if not mod.startswith('pytableaux.proof.writers'):
            continue
        for qn, fn in astq.all_functions(m.trees[mod]):
            sites = [c for c in astq.walk_no_nested(fn) if isinstance(c, ast.Call) and isinstance(c.func, ast.Attribute) and c.func.attr == 'get_template']
            if not sites:
                continue
            rep.consult(f'{m.loc(mod, fn)} {qn}')
            decos = [astq.u(d) for d in fn.decorator_list]
            bad = [d for d in decos if any(x in d.split('(')[0].split('.') for x in MEMO)]
            n += 1
            rep.instance(R4, ok=not bad, nontrivial=(mod, qn, 'decorators'))
            for d in bad:
                rep.finding(R4, f'C19.R4/{mod}:{qn}/memoised', m.loc(mod, fn), qn,
                            f'`@{d}` memoises a function that fetches a template handle: the handle is rebound to whichever writer fetched last, '
                            f'so a kept handle renders with another writer\'s notation')
            # names holding a handle
            handles = set()
            globs = {x for g in astq.walk_no_nested(fn) if isinstance(g, (ast.Global, ast.Nonlocal)) for x in g.names}
            for t, st in astq.stores(fn, nested=False):
                val = getattr(st, 'value', None)
                if val is None:
                    continue
                holds = any(c in sites for c in ast.walk(val)) or (isinstance(val, ast.Name) and val.id in handles)
                if not holds:
                    continue
                n += 1
                if isinstance(t, ast.Name) and t.id not in globs:
                    handles.add(t.id)
                    rep.instance(R4, ok=True, nontrivial=(mod, qn, astq.u(t)))
                else:
                    rep.instance(R4, ok=False, nontrivial=(mod, qn, astq.u(t)))
                    rep.finding(R4, f'C19.R4/{mod}:{qn}/stored/{astq.u(t)}', m.loc(mod, st), qn,
                                f'`{astq.u(st)[:80]}` keeps a template handle beyond the call')
    rep.floor('C19.R4', 'functions fetching a template handle (+ their stores)', n, 3)


def r5(ctx, rep):
    """Shared mutable state in the writers (class-level / module-level containers): whatever a method computes through such
    a container must come out the same on a cold container and on the warm one it left behind -- otherwise the first
    rendering in a process differs from the second."""
    from ..minieval import Interp, Obj, Raised, Raises
    m = ctx.m
    R5 = rep.rule('C19.R5', 'class-level containers in the writers package are pure caches: every method reading one is folded three times in a row '
                            'from an empty container (file reads mocked); all three results are identical')

    def is_empty_container(v):
        return (isinstance(v, (ast.Dict, ast.List, ast.Set)) and not (getattr(v, 'keys', None) or getattr(v, 'elts', None))) or \
               (isinstance(v, ast.Call) and isinstance(v.func, ast.Name) and v.func.id in ('dict', 'list', 'set', 'deque', 'defaultdict') and not v.args and not v.keywords)
    n = 0
    for mod in sorted(m.trees):
        if not mod.startswith(WRITERS):
            continue
        for cdef in [x for x in ast.walk(m.trees[mod]) if isinstance(x, ast.ClassDef)]:
            attrs = [st.targets[0].id for st in cdef.body if isinstance(st, ast.Assign) and isinstance(st.targets[0], ast.Name) and is_empty_container(st.value)]
            for attr in attrs:
                users = [fn for fn in cdef.body if isinstance(fn, ast.FunctionDef) and
                         any(isinstance(a, ast.Attribute) and a.attr == attr for a in ast.walk(fn))]
                for fn in users:
                    n += 1
                    qn = f'{cdef.name}.{fn.name}'
                    rep.consult(f'{m.loc(mod, fn)} {qn}')
                    if len(fn.args.args) != 1 or fn.args.kwonlyargs or fn.args.vararg:
                        raise AnalysisError(f'{mod}:{qn} uses the shared container `{attr}` and takes arguments: idiom not modelled')
                    reads = []

                    class F:
                        def __init__(s, path):
                            s.path = path

                        def __enter__(s):
                            return s

                        def __exit__(s, *a):
                            return False

                        def read(s):
                            reads.append(s.path)
                            return f'/* contents of {s.path} */\n  body {{ }}\n\n'
                    it = Interp(dict(open=lambda p, *a, **k: F(p)), where=f'{mod} {qn}', modtree=m.trees[mod])
                    cls = Obj(cdef.name, __srcclass__=(m, ClassRef(mod, cdef.name)))
                    for st in cdef.body:
                        # other class-level attributes: their value when it folds, an opaque stable token otherwise
                        if isinstance(st, ast.Assign) and isinstance(st.targets[0], ast.Name) and st.targets[0].id != attr:
                            try:
                                setattr(cls, st.targets[0].id, it.ev(st.value, {}))
                            except (Raised, AnalysisError, TypeError, AttributeError, KeyError, ValueError):
                                setattr(cls, st.targets[0].id, f'<{cdef.name}.{st.targets[0].id}>')
                    setattr(cls, attr, {})
                    outs = []
                    for _ in range(3):
                        try:
                            outs.append(it.call(fn, [cls]))
                        except Raised as e:
                            outs.append(Raises(e.text))
                    ok = not any(isinstance(o, Raises) for o in outs) and outs[0] == outs[1] == outs[2]
                    rep.instance(R5, ok=ok, nontrivial=(mod, qn, attr))
                    if not ok:
                        rep.finding(R5, f'C19.R5/{mod}:{qn}/{attr}', m.loc(mod, fn), qn,
                                    f'three calls in a row starting from an empty `{attr}` give {outs[0]!r}, {outs[1]!r}, {outs[2]!r}: what a rendering '
                                    f'includes depends on whether the shared container was warm')
    rep.floor('C19.R5', 'methods over shared containers', n, 1)


def r6(ctx, rep):
    """The written form of a node's sentence is the lexical writer's under the options the tableau writer was given.  The chain
    TabWriter.__init__ -> LexWriterMeta.__call__ -> <notation>.DefaultWriter -> LexWriter.__init__ is folded: every lexical-writer
    option (the keys of the notation writers' `defaults`, and `dialect`) given to the tableau writer arrives in `lw.opts` /
    at StringTable.fetch."""
    from ..minieval import Interp, Obj, Raised
    m = ctx.m
    LW = 'pytableaux.lang.writing'
    R6 = rep.rule('C19.R6', 'writer options reach the lexical writer: TabWriter.__init__, LexWriterMeta.__call__ and LexWriter.__init__ folded as a chain -- '
                            'every option the notation\'s lexical writer declares (and the dialect) that is given to the tableau writer arrives there with its value')
    tw_init = m.func(WRITERS, 'TabWriter.__init__')
    meta_call = m.func(LW, 'LexWriterMeta.__call__')
    lw_init = getattr(m.method(ClassRef(LW, 'LexWriter'), '__init__')[0], 'node', None)      # (not the TYPE_CHECKING overload stub of the same name)
    astq.need(lw_init is not None, 'LexWriter.__init__ not found')
    rep.consult(m.loc(WRITERS, tw_init) + ' TabWriter.__init__', m.loc(LW, meta_call) + ' LexWriterMeta.__call__', m.loc(LW, lw_init) + ' LexWriter.__init__')
    itw = Interp(dict(MapProxy=dict, EMPTY_MAP={}), where='lang/writing.py writer defaults', modtree=m.trees[LW])

    def class_attr(clsname, attr):
        for c in m.mro(ClassRef(LW, clsname)):
            try:
                raw = m.clsns(c).get(attr)
            except Exception:
                continue
            if isinstance(raw, tuple) and raw and raw[0] == 'expr':
                try:
                    return dict(itw.ev(raw[1], {}))
                except (Raised, AnalysisError, TypeError, ValueError) as e:
                    raise AnalysisError(f'{clsname}.{attr} does not fold: {getattr(e, "text", e)}')
        return {}
    n = 0
    for wcls, notation in (('StandardLexWriter', 'standard'), ('PolishLexWriter', 'polish')):
        declared = class_attr(wcls, 'defaults')
        given = {k: ('GIVEN', k) for k in declared}
        given_all = dict(given, dialect='DIALECT-GIVEN', classes=('tab-writer-option',))
        fetched, built = [], []
        StringTableM = Obj('StringTable', fetch=lambda **kw: (fetched.append(kw), Obj('strings', format=kw.get('format'), dialect=kw.get('dialect')))[1])
        LexWriterM = Obj('LexWriter', DEFAULT_NOTATION='polish', DEFAULT_FORMAT='text', defaults=class_attr('LexWriter', 'defaults'))

        def default_writer(*a, _declared=declared, _notation=notation, **kw):
            self_ = Obj('lexwriter', notation=_notation, defaults=dict(_declared))
            it_ = Interp(dict(LexWriter=LexWriterM, StringTable=StringTableM, Emsg=Obj('Emsg', WrongValue=lambda *x: ValueError(x))), where='lang/writing.py LexWriter.__init__')
            it_.call(lw_init, [self_, *a], kw)
            built.append(self_)
            return self_
        NotationM = lambda v: Obj(f'Notation.{v}', name=v, DefaultWriter=default_writer)
        itm = Interp(dict(LexWriter=LexWriterM, Notation=NotationM), where='lang/writing.py LexWriterMeta.__call__')
        LexWriterM.__class__ = type('LexWriterCallable', (Obj,), {'__call__': lambda s_, *a, **kw: itm.call(meta_call, [LexWriterM, *a], kw)})
        tw = Obj('tabwriter', format='text', defaults={'classes': ()})
        itt = Interp(dict(LexWriter=LexWriterM, Notation=lambda v: v, Emsg=Obj('Emsg', ValueConflict=lambda *x: ValueError(x))), where='proof/writers/__init__.py TabWriter.__init__')
        try:
            itt.call(tw_init, [tw, notation], dict(given_all))
            err = None
        except Raised as e:
            err = e.text
        except (TypeError, KeyError, AttributeError, ValueError) as e:
            err = f'{type(e).__name__}: {e}'
        lw = getattr(tw, 'lw', None)
        lwopts = getattr(lw, 'opts', None) or {}
        n += 1
        missing = {k: v for k, v in given.items() if lwopts.get(k) != v}
        dialect_ok = bool(fetched) and fetched[-1].get('dialect') == 'DIALECT-GIVEN' and fetched[-1].get('format') == 'text' and fetched[-1].get('notation') == notation
        kept = getattr(tw, 'opts', {}) or {}
        ok = err is None and not missing and dialect_ok and all(kept.get(k) == v for k, v in given_all.items())
        rep.instance(R6, ok=ok, nontrivial=(wcls, tuple(sorted(declared))))
        if not ok:
            rep.finding(R6, f'C19.R6/{notation}', m.loc(WRITERS, tw_init), 'TabWriter.__init__ -> LexWriter',
                        f'{notation} notation, tableau writer created with {sorted(given_all)}: the lexical writer ends up with opts {lwopts!r} (not passed on: {sorted(missing)}), '
                        f'string table fetched with {fetched[-1:] or "nothing"}, error {err}: the sentences are then not written under the options asked for')
    rep.floor('C19.R6', 'notations', n, 2)


def r7(ctx, rep):
    """Every writer renders `tab.tree`.  That the tree has one leaf per branch whose root-to-leaf node path is that branch -- for
    two-way, three-way and nested forks, open and closed branches -- is the Tree.make fold of C16.R5 (sa.treefold), imported:
    a branch missing from the tree is missing from every rendering."""
    from .. import treefold
    m = ctx.m
    R7 = rep.rule('C19.R7', 'what is rendered is the whole tableau: Tableau.Tree.make folded over mock tableaux (two-way, three-way, nested forks; open / closed '
                            'branches) gives the tree computed from the branches -- one leaf per branch, every node on its path (C16.R5)')
    res, cons = treefold.fold_tree(m)
    rep.consult(*cons)
    for ok, case, detail in res:
        rep.instance(R7, ok=ok, nontrivial=('tree', case))
        if not ok:
            rep.finding(R7, f'C19.R7/tree/{case}', cons[0].split(' ')[0], 'Tableau.Tree.make', f'{case}: {detail}')
    rep.floor('C19.R7', 'tree scenarios', len(res), 6)
