"""C12 -- sentences and arguments survive a write/parse round trip (table and grammar agreement)."""
from __future__ import annotations

import ast

from .. import astq, symtab
from ..model import ClassRef
from ..core import AnalysisError
from ..symtab import Sym

LEVEL = 'other'
EXPLANATION = (
    'Static analysis (writer-table vs parser-table agreement). The dict literals of lang/_symdata.py are evaluated '
    'from source. (R1) Polish round trip at token level: for every lexical key k of the Polish ASCII string table, the '
    'Polish parse table maps string[k] back to k; both parse tables have single-character keys, are one-to-one onto the '
    '31 lexical items, map the ten digits to their values, contain whitespace (and parentheses for the standard '
    'notation), and every string of the standard ASCII table that the standard parser is documented to read is in its '
    'parse table. (R2) injectivity: within each of the ten string tables no two lexical keys share a string, no lexical '
    'string begins with a digit (subscripts cannot merge with a following token), subscript delimiters are paired. (R3) '
    'grammar agreement: emission order of each LexWriter._write_* equals the consumption order of the parser\'s _read_*; '
    'the argument string uses the Polish ASCII writer and ":" on both sides. (R4) both dispatch maps cover every lexical '
    'type. The standard *writer* is deliberately not required to invert the standard parser (the property does not claim '
    'it). Round trips of arbitrary sentences are declined. (R3, folded) the ArgumentMeta attributes lang.init() installs are evaluated from init\'s own statements; Argument.argstr and Argument.from_argstr are folded over them with a parser mock whose predicate store lives as long as the instance: four argument strings in a row, re-using a predicate symbol with another arity, must each come back conclusion first and parsed independently. (R6) the Polish string of every sentence of a structure corpus (all operator shapes, nested quantifiers, one variable re-used in disjoint scopes, subscripts) is read back by the MRO-bound PolishParser/ParseContext as the structure written.')
TRUSTED = ['CPython ast', 'sa.minieval', 'html.unescape']
ASSUMPTIONS = ['tables are loaded unchanged by ParseTable.load / StringTable.load (the loaders are checked for the keys they add)']

WR = 'pytableaux.lang.writing'
PAR = 'pytableaux.lang.parsing'
COL = 'pytableaux.lang.collect'
LEX = 'pytableaux.lang.lex'
LANG = 'pytableaux.lang'


def run(ctx, rep):
    m = ctx.m
    lex = ctx.lgs.lex
    pt, st = symtab.load(m)
    rep.consult('pytableaux/lang/_symdata.py parse_tables', 'pytableaux/lang/_symdata.py string_tables')
    items = symtab.lexical_items(lex)
    R1 = rep.rule('C12.R1', 'token tables agree: Polish ASCII strings parse back to their items; parse tables are single-character, one-to-one onto the 31 lexical items, with digits/whitespace/parens')
    ptab = {str(t['notation']).split('.')[-1]: t['mapping'] for t in pt}
    if set(ptab) != {'polish', 'standard'}:
        raise AnalysisError(f'parse tables for {sorted(ptab)}; expected polish and standard')
    M = Sym('Marking')
    for notn, mp in ptab.items():
        vals = list(mp.values())
        for it in items:
            keys = [k for k, v in mp.items() if v == it]
            ok = len(keys) == 1
            rep.instance(R1, ok=ok, sample=dict(notation=notn, item=str(it), char=keys), nontrivial=(notn, str(it)))
            if not ok:
                rep.finding(R1, f'C12.R1/{notn}/item/{it}', 'pytableaux/lang/_symdata.py', f'parse table {notn}',
                            f'lexical item {it} has {len(keys)} spellings in the {notn} parse table ({keys}): ' +
                            ('it cannot be written so that it parses' if not keys else 'ambiguous'))
        for k, v in mp.items():
            ok = isinstance(k, str) and len(k) == 1
            rep.instance(R1, ok=ok, nontrivial=(notn, 'key', k))
            if not ok:
                rep.finding(R1, f'C12.R1/{notn}/key/{k!r}', 'pytableaux/lang/_symdata.py', f'parse table {notn}', f'key {k!r} is not a single character (the parsers read one character at a time)')
        for d in range(10):
            ok = mp.get(str(d)) == (M.digit, d)
            rep.instance(R1, ok=ok, nontrivial=(notn, 'digit', d))
            if not ok:
                rep.finding(R1, f'C12.R1/{notn}/digit/{d}', 'pytableaux/lang/_symdata.py', f'parse table {notn}', f"'{d}' maps to {mp.get(str(d))}, not (Marking.digit, {d})")
        need = [(M.whitespace, 0)] + ([(M.paren_open, 0), (M.paren_close, 0)] if notn == 'standard' else [])
        for nd in need:
            ok = nd in vals
            rep.instance(R1, ok=ok, nontrivial=(notn, str(nd)))
            if not ok:
                rep.finding(R1, f'C12.R1/{notn}/marking/{nd}', 'pytableaux/lang/_symdata.py', f'parse table {notn}', f'no character for {nd}')
        extra = [v for v in vals if v not in items and not (isinstance(v[0], Sym) and v[0].path[0] == 'Marking')]
        ok = not extra
        rep.instance(R1, ok=ok, nontrivial=(notn, 'extra'))
        for v in extra:
            rep.finding(R1, f'C12.R1/{notn}/unknown-item/{v}', 'pytableaux/lang/_symdata.py', f'parse table {notn}', f'maps a character to the unknown item {v}')
    # Polish round trip
    pol = [t for t in st if str(t['notation']).endswith('polish') and t['format'] == 'text' and t['dialect'] == 'ascii']
    if len(pol) != 1:
        raise AnalysisError('Polish text/ascii string table not found')
    n = 0
    for k, s in pol[0]['strings'].items():
        it = symtab.string_key_to_item(k)
        if it is None or s is NotImplemented:
            continue
        n += 1
        got = ptab['polish'].get(s)
        ok = got == it
        rep.instance(R1, ok=ok, sample=dict(key=str(k), string=s, parses_to=str(got)), nontrivial=('polish-roundtrip', str(k)))
        if not ok:
            rep.finding(R1, f'C12.R1/polish-roundtrip/{k}', 'pytableaux/lang/_symdata.py', 'Polish ASCII string table vs Polish parse table',
                        f'{k} is written {s!r}, which the Polish parser reads as {got}')
    rep.floor('C12.R1', 'Polish lexical keys', n, 31)
    ws = pol[0]['strings'].get((M.whitespace, 0))
    ok = ws is not NotImplemented and ptab['polish'].get(ws) == (M.whitespace, 0)
    rep.instance(R1, ok=ok, nontrivial='polish-whitespace')
    if not ok:
        rep.finding(R1, 'C12.R1/polish-roundtrip/whitespace', 'pytableaux/lang/_symdata.py', 'Polish tables', 'written whitespace is not whitespace to the parser')

    R2 = rep.rule('C12.R2', 'injectivity of every string table on lexical keys; no lexical string starts with a digit; subscript delimiters paired')
    for t in st:
        name = f"{str(t['notation']).split('.')[-1]}/{t['format']}/{t['dialect']}"
        seen = {}
        for k, s in t['strings'].items():
            if symtab.string_key_to_item(k) is None or s is NotImplemented:
                continue
            dup = s in seen
            rep.instance(R2, ok=not dup, nontrivial=(name, str(k)))
            if dup:
                rep.finding(R2, f'C12.R2/{name}/duplicate/{s!r}', 'pytableaux/lang/_symdata.py', f'string table {name}',
                            f'{k} and {seen[s]} are both written {s!r}: distinct sentences render to the same string')
            seen.setdefault(s, k)
            ok = isinstance(s, str) and s != '' and not s[0].isdigit() and not s[-1:].isdigit()
            if not ok:
                rep.instance(R2, ok=False, nontrivial=(name, str(k), 'digit'))
                rep.finding(R2, f'C12.R2/{name}/digit-edge/{k}', 'pytableaux/lang/_symdata.py', f'string table {name}',
                            f'{k} is written {s!r}: empty or beginning/ending with a digit, so it merges with a subscript')
        so, sc = t['strings'].get((M.subscript_open, 0)), t['strings'].get((M.subscript_close, 0))
        ok = isinstance(so, str) and isinstance(sc, str) and (so == '') == (sc == '') and not so[-1:].isdigit() and not sc[:1].isdigit()
        rep.instance(R2, ok=ok, nontrivial=(name, 'subscript'))
        if not ok:
            rep.finding(R2, f'C12.R2/{name}/subscript-delimiters', 'pytableaux/lang/_symdata.py', f'string table {name}', f'subscript delimiters {so!r} / {sc!r} are unpaired or digit-like')
    rep.floor('C12.R2', 'string tables', len(st), 10)

    R3 = rep.rule('C12.R3', 'grammar agreement (Polish): writer emission order = parser consumption order; argument string uses the Polish ASCII writer and ":" both ways')
    for ok, what, detail, where in grammar_roundtrip(m):
        rep.instance(R3, ok=ok, sample=dict(construct=what, detail=detail), nontrivial=('roundtrip', what))
        rep.consult(where)
        if not ok:
            rep.finding(R3, f'C12.R3/roundtrip/{what}', where.split(' ')[0], what, f'token-level write/parse round trip fails: {detail}')
    # argument strings folded: argstr() / from_argstr() with the class attributes lang.init() installs (evaluated from init's own statements)
    from ..minieval import Interp as _I, Obj as _O, Raised as _Rd, Raises as _Rs

    class ParseErrorM(Exception):
        pass

    class ParserM:
        "a parser whose predicate store lives as long as the instance does (as the real one): symbol -> arity on first use"
        made = []

        def __init__(self, *a, **kw):
            self.kw, self.store = kw, {}
            ParserM.made.append(self)

        def argument(self, conclusion, premises=None, *, title=None):
            # the real Parser.argument, folded with this parser as `self` (so what it does with the premises is the code's doing)
            return _argfold.call(f_parg, [self, conclusion, premises], dict(title=title))

        def __call__(self, s_):
            sym, arity = s_[0], len(s_) - 1
            if self.store.setdefault(sym, arity) != arity:
                raise ParseErrorM(f'{sym} used with arity {arity} after {self.store[sym]}')
            return s_
    f_parg = m.func(PAR, 'Parser.argument')
    rep.consult(m.loc(PAR, f_parg) + ' Parser.argument')

    class _Dedup(tuple):
        "tools.qsetf stand-in: an ordered set"
        def __new__(cls, it_=()):
            return super().__new__(cls, dict.fromkeys(it_))
    _argfold = _I(dict(Argument=lambda c_, p_=None, title=None: ('ARGUMENT', c_, tuple(p_ or ()), title), qsetf=_Dedup, qset=_Dedup, map=map, tuple=tuple, list=list),
                  where='lang/parsing.py Parser.argument')
    initfn = next((st for st in m.trees[LANG].body if isinstance(st, ast.FunctionDef) and st.name == 'init'), None)
    astq.need(initfn is not None, 'lang.init() not found')
    ArgMeta = _O('ArgumentMeta')
    writer_args = {}

    def LexWriterM(*a, **kw):
        writer_args.update(kw)
        w_ = _O('argstr-writer', notation=_O('notation', Parser=ParserM))
        w_.__class__ = type('LW', (_O,), {'__call__': lambda s_, item: str(item)})
        return w_
    iti = _I(dict(LexWriter=LexWriterM, ArgumentMeta=ArgMeta, Notation=_O('Notation', polish='polish', standard='standard'),
                  Predicates=_O('Predicates', EMPTY='EMPTY-STORE')), where='lang/__init__.py init()')
    env = {}
    for st in initfn.body:
        txt = astq.u(st)
        if isinstance(st, ast.Assign) and ('argstr' in txt or 'ArgumentMeta' in txt):
            try:
                iti.run([st], env)
            except (_Rd, AnalysisError, TypeError, AttributeError) as e:
                raise AnalysisError(f'lang.init(): cannot evaluate `{txt[:70]}`: {e}')
    ok = writer_args.get('notation') == 'polish' and writer_args.get('format') == 'text' and writer_args.get('dialect') == 'ascii' and \
        hasattr(ArgMeta, '_argstr_lw')
    rep.instance(R3, ok=ok, nontrivial='argstr-writer')
    rep.consult(m.loc(LANG, initfn) + ' lang.init')
    if not ok:
        rep.finding(R3, 'C12.R3/argstr-writer', m.relfile(LANG), 'lang.__init__ init()',
                    f'the canonical argument string is not written with the Polish text/ascii writer (LexWriter called with {writer_args})')
    f_as = m.func(COL, 'Argument.argstr')
    f_fa = m.func(COL, 'Argument.from_argstr')
    rep.consult(m.loc(COL, f_as) + ' Argument.argstr', m.loc(COL, f_fa) + ' Argument.from_argstr')
    ita = _I(dict(__class__=ArgMeta, ParseError=ParseErrorM), where='lang/collect.py Argument.argstr / from_argstr')

    class ArgSeq(tuple):
        pass
    arg = ArgSeq(('Fm', 'KFmGmn', 'a'))
    r = ita.safe(f_as, [arg])
    ok = r == 'Fm:KFmGmn:a'
    rep.instance(R3, ok=ok, nontrivial='argstr')
    if not ok:
        rep.finding(R3, 'C12.R3/Argument.argstr', m.loc(COL, f_as), 'Argument.argstr', f'renders {r!r} for (conclusion Fm; premises KFmGmn, a), expected the ":"-joined writer output, conclusion first')
    # round trip + history independence: the same symbol with another arity in the next argument must still parse
    outs = []
    for text, title in (('Fm:KFmGmn:a', 'T1'), ('Fmn:Hm', None), ('Gm', None), ('Fm', 'T2'), ('a:b:b:Fm:b', None)):
        before = len(ParserM.made)
        try:
            outs.append(ita.call(f_fa, [text], dict(title=title)))
        except ParseErrorM as e:
            outs.append(_Rs(f'ParseError: {e}'))
        except (_Rd, TypeError, AttributeError, KeyError, ValueError) as e:
            outs.append(_Rs(f'{type(e).__name__}: {getattr(e, "text", e)}'))
    want = [('ARGUMENT', 'Fm', ('KFmGmn', 'a'), 'T1'), ('ARGUMENT', 'Fmn', ('Hm',), None), ('ARGUMENT', 'Gm', (), None), ('ARGUMENT', 'Fm', (), 'T2'),
            ('ARGUMENT', 'a', ('b', 'b', 'Fm', 'b'), None)]
    ok = outs == want
    rep.instance(R3, ok=ok, nontrivial='from_argstr')
    if not ok:
        rep.finding(R3, 'C12.R3/Argument.from_argstr', m.loc(COL, f_fa), 'Argument.from_argstr',
                    f'five argument strings in a row (a predicate symbol used with different arities in different arguments; a premise repeated) give {outs!r}; expected {want!r}: '
                    f'each string is split on ":" conclusion first, parsed independently of earlier ones, every premise kept')

    from .. import parsefold
    R6 = rep.rule('C12.R6', 'round trip through the folded parser: the Polish string of every sentence of a structure corpus (all operator shapes, nested '
                            'quantifiers, the same variable re-used in disjoint scopes, subscripts) is read back by PolishParser / ParseContext '
                            '(MRO-bound, real parse table) as the structure written')
    res, cons = parsefold.fold_roundtrip(m, ctx.lgs.lex, deep=rep.tier == 'thorough')
    rep.consult(*cons)
    nbad = 0
    for ok, text, detail in res:
        rep.instance(R6, ok=ok, nontrivial=text)
        if not ok:
            nbad += 1
            if nbad <= 3:
                rep.finding(R6, f'C12.R6/{text}', 'pytableaux/lang/parsing.py', 'PolishParser', detail)
    rep.floor('C12.R6', 'well-formed Polish strings', len(res), 150)
    R5 = rep.rule('C12.R5', 'local injectivity of the standard writer (folded): distinct (operator, operands) shapes render to distinct strings under every writer option set')
    for ok, what, detail, where in writer_injectivity(m):
        rep.instance(R5, ok=ok, sample=dict(case=what, detail=detail), nontrivial=('inj', what))
        rep.consult(where)
        if not ok:
            rep.finding(R5, f'C12.R5/{what}', where.split(' ')[0], 'StandardLexWriter', f'{what}: {detail}')

    R4 = rep.rule('C12.R4', 'dispatch coverage: writer handles all nine lexical types; parser dispatches every sentence-starting symbol type')
    wm = m.getattr(ClassRefW('LexWriter'), '_methodmap')
    need = {'Operator', 'Quantifier', 'Predicate', 'Constant', 'Variable', 'Atomic', 'Predicated', 'Quantified', 'Operated'}
    have = {k.qualname for k in (wm or {}) if hasattr(k, 'qualname')}
    ok = need <= have
    rep.instance(R4, ok=ok, nontrivial='LexWriter._methodmap')
    if not ok:
        rep.finding(R4, 'C12.R4/LexWriter._methodmap', m.relfile(WR), 'LexWriter._methodmap', f'no writer method for {sorted(need - have)}')
    for k, meth in (wm or {}).items():
        f, _ = m.method(ClassRefW('PolishLexWriter'), meth)
        ok = f is not None
        rep.instance(R4, ok=ok, nontrivial=('writer-method', meth))
        if not ok:
            rep.finding(R4, f'C12.R4/LexWriter/{meth}', m.relfile(WR), 'LexWriter', f'method {meth} named in _methodmap does not exist')
    # (the parsers' dispatch maps are exercised by R6: both parsers are folded over their evaluated _methodmap)
    # loaders folded: the table an instance holds is the mapping / strings of the data it was loaded from (+ the documented defaults)
    from ..minieval import Interp as _IL, Obj as _OL

    class Enumish(tuple):
        "an iterable class mock (hashable, usable in a key pair)"
        def __new__(cls, name, items):
            o = super().__new__(cls, items)
            o.name_ = name
            return o

        def __repr__(self):
            return self.name_

        def __hash__(self):
            return hash(self.name_)

        def __eq__(self, o):
            return self is o
    OperatorM, QuantM, SystemM = Enumish('Operator', ('Neg', 'Conj')), Enumish('Quantifier', ('All',)), Enumish('Predicate.System', ('Ident',))
    VarT, WS = _OL('Variable'), _OL('Marking.whitespace')
    mapping = {'N': (OperatorM, 'Neg'), 'K': (OperatorM, 'Conj'), 'V': (QuantM, 'All'), 'I': (SystemM, 'Ident'), 'x': (VarT, 0), ' ': (WS, 0)}
    data = {'notation': 'polish', 'mapping': tuple(mapping.items())}
    captured = []
    sup = _OL('super', __init__=lambda x=None: captured.append(x))
    pi = m.func(PAR, 'ParseTable.__init__')
    rep.consult(m.loc(PAR, pi) + ' ParseTable.__init__')
    itl = _IL(dict(Notation={'polish': 'NOTATION-POLISH'}, Operator=OperatorM, Quantifier=QuantM, Predicate=_OL('Predicate', System=SystemM), MapProxy=dict,
                   super=lambda *a: sup), where='lang/parsing.py ParseTable.__init__')
    tab = _OL('table', __srcclass__=(m, ClassRef(PAR, 'ParseTable')), _keydefaults={WS: (WS, 0), 'absent-key': ('absent', 0)})
    r = itl.safe(pi, [tab, data])
    rev = getattr(tab, 'reversed', None) or {}
    ok = r is None and captured == [mapping] and getattr(tab, 'notation', None) == 'NOTATION-POLISH' and getattr(tab, 'dialect', None) == 'default' and \
        all(rev.get(v) == k for k, v in mapping.items()) and rev.get('Neg') == 'N' and rev.get('Ident') == 'I' and rev.get(WS) == ' ' and 'absent-key' not in rev
    rep.instance(R4, ok=ok, nontrivial='ParseTable.__init__')
    if not ok:
        rep.finding(R4, 'C12.R4/ParseTable.__init__', m.loc(PAR, pi), 'ParseTable.__init__',
                    f'loaded from a 6-entry mapping the table holds {captured!r} / reversed {rev!r} ({r!r}): not the mapping given, with the reverse index of every entry and the bare-item / marking defaults')
    si = m.func(WR, 'StringTable.__init__')
    rep.consult(m.loc(WR, si) + ' StringTable.__init__')
    captured = []
    sup = _OL('super', __init__=lambda x=None: captured.append(x))
    itl = _IL(dict(Notation={'polish': 'NOTATION-POLISH'}, super=lambda *a: sup, MapProxy=dict), where='lang/writing.py StringTable.__init__')
    strings = {'k1': 'one', 'k2': 'two', ('d', 0): 'dflt', 'given': 'explicit', ('g', 0): 'not-used'}
    st = _OL('strings', __srcclass__=(m, ClassRef(WR, 'StringTable')), _keydefaults={'alias': ('d', 0), 'given': ('g', 0)}, _compute_hash=lambda: 'HASH')
    r = itl.safe(si, [st, {'format': 'text', 'notation': 'polish', 'strings': tuple(strings.items())}])
    want = dict(strings, alias='dflt')
    ok = r is None and captured == [want] and getattr(st, 'format', None) == 'text' and getattr(st, 'notation', None) == 'NOTATION-POLISH' and getattr(st, 'dialect', None) == 'text'
    rep.instance(R4, ok=ok, nontrivial='StringTable.__init__')
    if not ok:
        rep.finding(R4, 'C12.R4/StringTable.__init__', m.loc(WR, si), 'StringTable.__init__',
                    f'loaded from 5 strings the table holds {captured!r} ({r!r}); expected the strings given plus the defaults for absent keys only: {want!r}')


class Tok:
    def __init__(self, kind, name, **kw):
        self.kind, self.name = kind, name
        self.__dict__.update(kw)

    def __repr__(self):
        return f'{self.kind}:{self.name}'


class MockCtx:
    """token-stream context for folding the parser's _read_* methods"""

    def __init__(self, toks, Variable, digit):
        self.toks, self.pos, self.Variable, self.digit = list(toks), 0, Variable, digit

    def current(self):
        return self.toks[self.pos] if self.pos < len(self.toks) else None

    def value(self, t):
        return t.value

    def type(self, t, default=None):
        return t.ctype if t is not None else default

    def advance(self, n=1):
        self.pos += n
        return self

    def assert_current_is(self, ctype):
        t = self.current()
        if t is None or t.ctype is not ctype:
            from ..minieval import Raised
            raise Raised(f'ParseError unexpected {t}')

    def bind(self, v):
        return v

    def unbind(self, v, s):
        return v, s


def grammar_roundtrip(m):
    """Fold the Polish writer methods into a token sequence and the Polish parser methods back
    over that sequence; the structure read must be the structure written."""
    from ..minieval import Interp, Obj, Raises
    out = []
    it = Interp({}, where='lang writing/parsing grammar fold')
    class _VarType:
        def __call__(self, coords):
            return ('VAR', coords)
    VarT, DigitT, OtherT = _VarType(), Obj('Marking.digit'), Obj('other')
    it.g.update(Variable=VarT, Marking=Obj('Marking', digit=DigitT, subscript_open='SO', subscript_close='SC'),
                BiCoords=lambda i, s: (i, s), deque=list, Operator=lambda v: v)
    wo = m.func(WR, 'PolishLexWriter._write_operated')
    wq = m.func(WR, 'LexWriter._write_quantified')
    wp = m.func(WR, 'LexWriter._write_predicated')
    wc = m.func(WR, 'LexWriter._write_coordsitem')
    ws_ = m.func(WR, 'LexWriter._write_subscript')
    ro = m.func(PAR, 'PolishParser._read_operated')
    rq = m.func(PAR, 'DefaultParser._read_quantified')
    rp = m.func(PAR, 'DefaultParser._read_predicated')
    rc = m.func(PAR, 'DefaultParser._read_coords')
    rs = m.func(PAR, 'DefaultParser._read_subscript')
    loc = lambda mod, fn, name: f'{m.loc(mod, fn)} {name}'

    def written(text):
        import re
        return re.findall(r'<([^<>]*)>', text)
    writer = Obj('writer', __srcclass__=(m, ClassRef(WR, 'PolishLexWriter')))
    writer._write = lambda x: f'<{x.name}>'
    # ---- operated (arity 2 and 1)
    for arity in (2, 1):
        operands = [Tok('S', f's{i}') for i in range(arity)]

        class Oper:
            name = 'OP'
            def __init__(self):
                self.arity = arity
            def __call__(self, args):
                return ('OPERATED', 'OP', tuple(args))
        oper = Oper()

        class Item(tuple):
            operator = oper
        text = it.safe(wo, [writer, Item(operands)])
        toks = written(text) if isinstance(text, str) else None
        exp = ['OP'] + [o.name for o in operands]
        ok1 = toks == exp
        out.append((ok1, f'write operated/{arity}', f'writer emits {toks}, expected {exp}', loc(WR, wo, 'PolishLexWriter._write_operated')))
        stream = [Tok('T', 'OP', value=oper, ctype=OtherT)] + [Tok('T', o.name, value=o, ctype=OtherT) for o in operands]
        ctx = MockCtx(stream, VarT, DigitT)
        parser = Obj('parser', __srcclass__=(m, ClassRef(PAR, 'PolishParser')))
        parser._read = lambda c: (c.toks[c.pos].value, c.advance())[0]
        r = it.safe(ro, [parser, ctx])
        ok2 = r == ('OPERATED', 'OP', tuple(operands)) and ctx.pos == len(stream)
        out.append((ok2, f'read operated/{arity}', f'parser builds {r!r} from [OP, operands...] leaving pos={ctx.pos}', loc(PAR, ro, 'PolishParser._read_operated')))
    # ---- quantified
    q, v, body = Tok('Q', 'QUANT'), Tok('V', 'VARTOK'), Tok('S', 'BODY')
    item = Obj('quantified', items=(q, v, body))
    text = it.safe(wq, [writer, item])
    toks = written(text) if isinstance(text, str) else None
    out.append((toks == ['QUANT', 'VARTOK', 'BODY'], 'write quantified', f'writer emits {toks}', loc(WR, wq, 'LexWriter._write_quantified')))
    quant = lambda vv, ss: ('QUANTIFIED', vv, ss)
    stream = [Tok('T', 'QUANT', value=quant, ctype=OtherT), Tok('T', 'VARTOK', value=7, ctype=VarT), Tok('T', 'BODY', value=body, ctype=OtherT)]
    ctx = MockCtx(stream, VarT, DigitT)
    parser = Obj('parser', __srcclass__=(m, ClassRef(PAR, 'PolishParser')))
    parser._read = lambda c: (c.toks[c.pos].value, c.advance())[0]
    parser._read_coords = lambda c: ((c.toks[c.pos].value, 0), c.advance())[0]
    r = it.safe(rq, [parser, ctx])
    ok = r == ('QUANTIFIED', ('VAR', (7, 0)), body) and ctx.pos == 3
    out.append((ok, 'read quantified', f'parser builds {r!r}', loc(PAR, rq, 'DefaultParser._read_quantified')))
    # ---- predicated
    params = [Tok('P', 'p0'), Tok('P', 'p1')]

    class Pred:
        name = 'PRED'
        arity = 2
        def __call__(self, ps):
            return ('PREDICATED', tuple(ps))
    pred = Pred()

    class PItem(tuple):
        predicate = pred
    text = it.safe(wp, [writer, PItem(params)])
    toks = written(text) if isinstance(text, str) else None
    out.append((toks == ['PRED', 'p0', 'p1'], 'write predicated', f'writer emits {toks}', loc(WR, wp, 'LexWriter._write_predicated')))
    stream = [Tok('T', 'PRED', value=pred, ctype=OtherT)] + [Tok('T', p.name, value=p, ctype=OtherT) for p in params]
    ctx = MockCtx(stream, VarT, DigitT)
    parser = Obj('parser', __srcclass__=(m, ClassRef(PAR, 'PolishParser')), opts={'auto_preds': True}, predicates=None)
    parser._read_predicate = lambda c: (c.toks[c.pos].value, c.advance())[0]
    parser._read_params = lambda c, n: tuple((c.toks[c.pos].value, c.advance())[0] for _ in range(n))
    it.g['UndefinedPredicateError'] = 'UndefinedPredicateError'
    r = it.safe(rp, [parser, ctx])
    ok = r == ('PREDICATED', tuple(params)) and ctx.pos == 3
    out.append((ok, 'read predicated', f'parser builds {r!r}', loc(PAR, rp, 'DefaultParser._read_predicated')))
    # ---- coords item with subscript: writer emits symbol, [open] decimal digits [close]; parser reads symbol then digits
    for sub in (0, 7, 12):
        strings = {}
        T_ = Obj('AtomicType')

        class Strings(dict):
            def __missing__(self, k):
                return ''
        st = Strings({(T_, 3): '<SYM>', 'SO': '', 'SC': ''})
        w = Obj('writer', __srcclass__=(m, ClassRef(WR, 'PolishLexWriter')), strings=st)
        w._write_subscript = lambda s_: it.call(ws_, [w, s_])
        coordsitem = Obj('atomic', typ=T_, index=3, subscript=sub)
        text = it.safe(wc, [w, coordsitem])
        exp = '<SYM>' + (str(sub) if sub else '')
        ok = text == exp
        out.append((ok, f'write coords item subscript={sub}', f'writer emits {text!r}, expected {exp!r}', loc(WR, wc, 'LexWriter._write_coordsitem')))
        stream = [Tok('T', 'SYM', value=3, ctype=OtherT)] + [Tok('T', ch, value=int(ch), ctype=DigitT) for ch in (str(sub) if sub else '')] + [Tok('T', 'NEXT', value='x', ctype=OtherT)]
        ctx = MockCtx(stream, VarT, DigitT)
        parser = Obj('parser', __srcclass__=(m, ClassRef(PAR, 'PolishParser')))
        parser._read_subscript = lambda c: it.call(rs, [parser, c])
        r = it.safe(rc, [parser, ctx])
        ok = r == (3, sub) and ctx.pos == len(stream) - 1
        out.append((ok, f'read coords subscript={sub}', f'parser reads {r!r} leaving pos={ctx.pos} of {len(stream)}', loc(PAR, rc, 'DefaultParser._read_coords')))
    return out


def writer_injectivity(m):
    from ..minieval import Interp, Obj, Raises
    import itertools
    out = []
    wo = m.func(WR, 'StandardLexWriter._write_operated')
    wp = m.func(WR, 'StandardLexWriter._write_predicated')
    bp = m.func(WR, 'LexWriter._write_predicated')
    where = f'{m.loc(WR, wo)} StandardLexWriter._write_operated'
    PredicatedT, AtomicT, OperatedT = Obj('Predicated'), Obj('Atomic'), Obj('Operated')
    ops = {n: Obj(f'Operator.{n}', arity=a, name=n) for n, a in (('Negation', 1), ('Assertion', 1), ('Possibility', 1), ('Conjunction', 2), ('Disjunction', 2))}
    Operator = Obj('Operator', **ops)
    Identity = Obj('Predicate.Identity', arity=2, name='=')
    Fpred = Obj('Predicate.F', arity=2, name='F')
    G1 = Obj('Predicate.G', arity=1, name='G')
    Predicate = Obj('Predicate', Identity=Identity)
    Marking = Obj('Marking', whitespace='WS', paren_open='PO', paren_close='PC')

    class Strings(dict):
        def __missing__(self, k):
            if isinstance(k, tuple):
                return '<' + '|'.join(getattr(x, 'name', str(x)) for x in k) + '>'
            return f'<{getattr(k, "name", k)}>'
    strings = Strings({'WS': ' ', 'PO': '(', 'PC': ')'})
    it = Interp(dict(Operator=Operator, Predicate=Predicate, Predicated=PredicatedT, Marking=Marking, NotImplementedError='NotImplementedError',
                     ValueError=lambda *a: 'ValueError'), where='lang/writing.py StandardLexWriter')

    class Seq(tuple):
        pass

    def predicated(pred, *params):
        s_ = Seq(params)
        s_._typ, s_.predicate, s_.name = PredicatedT, pred, f'{pred.name}({",".join(p.name for p in params)})'
        return s_
    a, b = Obj('a', name='a'), Obj('b', name='b')
    A, B = Obj('A', typ=AtomicT, name='A'), Obj('B', typ=AtomicT, name='B')
    ident, fab, ga = predicated(Identity, a, b), predicated(Fpred, a, b), predicated(G1, a)

    def operated(op, *operands):
        s_ = Seq(operands)
        s_._typ, s_.operator = OperatedT, op
        s_.lhs = operands[0]
        s_.rhs = operands[-1]
        s_.name = f'{op.name}({",".join(o.name for o in operands)})'
        return s_
    for opts in (dict(identity_infix=True, max_infix=0, drop_parens=True), dict(identity_infix=False, max_infix=0, drop_parens=True),
                 dict(identity_infix=True, max_infix=3, drop_parens=False)):
        w = Obj('writer', __srcclass__=(m, ClassRef(WR, 'StandardLexWriter')), opts=opts, strings=strings)

        def write(x):
            if getattr(x, '_typ', None) is PredicatedT:
                return it.call(wp, [w, x])
            if getattr(x, '_typ', None) is OperatedT:
                return it.call(wo, [w, x])
            return f'<{x.name}>'
        w._write = write
        sup = Obj('super')
        sup._write_predicated = lambda s_: it.call(bp, [w, s_])
        it.g['super'] = lambda: sup
        shapes = [operated(ops[o], x) for o in ('Negation', 'Assertion', 'Possibility') for x in (ident, fab, ga, A)]
        shapes += [operated(ops[o], x, y) for o in ('Conjunction', 'Disjunction') for x, y in ((A, B), (B, A), (ident, A))]
        shapes += [ident, fab, ga, predicated(Identity, b, a)]
        rendered = {}
        for sh in shapes:
            r = it.safe(wo if getattr(sh, '_typ', None) is OperatedT else wp, [w, sh])
            if isinstance(r, Raises):
                out.append((False, f'render {sh.name} {opts}', f'raises {r.text}', where))
                continue
            clash = rendered.get(r)
            ok = clash is None
            out.append((ok, f'{sh.name} opts={sorted(opts.items())}', f'renders {r!r}' + (f', the same string as the distinct sentence {clash}' if clash else ''), where))
            rendered.setdefault(r, sh.name)
    return out


def ClassRefW(n):
    from ..model import ClassRef
    return ClassRef(WR, n)


def ClassRefP(n):
    from ..model import ClassRef
    return ClassRef(PAR, n)
