"""C13 -- parsers accept only closed well-formed sentences and fail only with ParseError (structural clauses)."""
from __future__ import annotations

import ast
import itertools

from .. import astq
from ..core import AnalysisError
from ..minieval import Interp, Obj, Raised, Raises
from ..model import ClassRef

LEVEL = 'other'
EXPLANATION = (
    "Static analysis of lang/parsing.py. (R6) Both parsers are folded end to end: PolishParser / StandardParser / ParseContext are rebuilt as MRO-bound classes whose methods are the repository's own definitions interpreted by the checker (nothing is imported or run by CPython), over the real parse tables, mock lexical classes with the real construction contracts, and a mutable and a frozen predicate store; on every well-formed sentence up to a size bound, every one-character mutation of those and every short string the outcome is a ParseError or a closed sentence (no free, vacuous or re-bound variable; one arity per predicate symbol), never another exception; the Polish parser agrees with an independent reader of the grammar. (R1) every explicit raise in the parser classes is a ParseError subclass or reviewed; constructor calls are wrapped or have a reviewed shape. (R2) store-API compatibility with an interprocedural isinstance guard. (R3) bind/check_bound/unbind folded over all small states. (R4) every while loop advances or exits. (R5) effect confinement. Decided on a bounded input language; totality over all strings and RecursionError are declined. (R7) the lexical constructors the parsers call are folded (lexfold, shared with C14.R1): their comparison key, which is the key of the shared construction cache, distinguishes every two different specs -- otherwise a later parse gets an earlier, different sentence back. R2's gate fold also hands the constructor an immutable store: it is kept as it is (not replaced by a mutable copy that would accept undeclared predicates); the isinstance guard is recognised by implication (any boolean form).")
TRUSTED = ['CPython ast', 'sa.minieval', 'errors.py class hierarchy as parsed']
ASSUMPTIONS = ['lexical constructors raise ValueError for out-of-range coordinates (decided for Predicate.__init__ / CoordsItem.__new__ by R9) and TypeError only for ill-typed arguments, which the parsers never pass']

PAR = 'pytableaux.lang.parsing'
ERR = 'pytableaux.errors'
PARSER_CLASSES = ('DefaultParser', 'PolishParser', 'StandardParser')
# reviewed raises that are not ParseError: (function, exception) -> reason
REVIEWED_RAISES = {
    ('ParseContext.open', 'IllegalStateError'): 'a context is opened exactly once, by the `with` in DefaultParser.__call__ on a fresh object',
    ('Parser.__call__', 'NotImplementedError'): 'abstract method',
    ('DefaultParser._read_operated', 'NotImplementedError'): 'abstract method',
    ('ParseContext.type', None): 'KeyError is re-raised only when no default is passed; the single such caller passes a character whose type was just dispatched on (checked below)',
}
# constructor calls valid by construction: (function, call text prefix) -> reason
VALID_BY_CONSTRUCTION = {
    ('DefaultParser._read_atomic', 'Atomic('): 'index comes from the parse table (0..maxi), subscript is a non-negative int',
    ('DefaultParser._read_quantified', 'Variable('): 'index from the parse table, subscript non-negative',
    ('DefaultParser._read_parameter', 'ctype('): 'ctype is Constant or Variable (assert_current_in), coords from the table',
    ('DefaultParser._read_predicate', 'Predicate('): 'system predicate looked up by its table value',
    ('DefaultParser._read_coords', 'BiCoords('): 'plain tuple',
    ('PolishParser._read_operated', 'Operator('): 'table value of an Operator-typed character',
    ('StandardParser._read_operated', 'Operator('): 'table value of an Operator-typed character',
    ('StandardParser._read_from_paren_open', 'Operator('): 'table value of an Operator-typed character',
}


def valid_by_construction(c: ast.Call):
    """Constructor calls whose argument comes straight from the parse table (reviewed shapes, wherever they occur):
    K(self._read_coords(context)) -- index from the table (0..maxi), subscript a non-negative int;
    K(context.value(<char>)) -- the table value of a character whose type was just dispatched on;
    BiCoords(index, self._read_subscript(context)) -- a plain tuple."""
    name = astq.call_name(c)
    args = c.args
    if len(args) == 1 and isinstance(args[0], ast.Call):
        inner = astq.call_name(args[0])
        if inner.endswith('._read_coords') or inner.endswith('.value'):
            return True
    if name == 'BiCoords' and len(args) == 2:
        return True
    return False


def parse_error_classes(m):
    out = {'ParseError'}
    changed = True
    tree = m.trees[ERR]
    while changed:
        changed = False
        for st in tree.body:
            if isinstance(st, ast.ClassDef) and st.name not in out and any(astq.u(b) in out for b in st.bases):
                out.add(st.name)
                changed = True
    return out


def raised_name(r: ast.Raise):
    e = r.exc
    if e is None:
        return None
    if isinstance(e, ast.Call):
        e = e.func
    return astq.u(e)


def run(ctx, rep):
    m = ctx.m
    r6(ctx, rep)
    r1(ctx, rep)
    r2(ctx, rep)
    r3(ctx, rep)
    r4(ctx, rep)
    r5(ctx, rep)
    r7(ctx, rep)
    r8(ctx, rep)
    r9(ctx, rep)


def r8(ctx, rep):
    """'The same result for the same string and predicate declarations': the parser reads the declarations through
    `predicates.get(coords)`.  That a store with given contents answers that lookup the same way whatever its history (built
    directly, by add/remove, by index or slice re-declaration) is the black-box step of the predicate store (ordset; = C18.R9)."""
    from .. import ordset
    import re as _re
    m = ctx.m
    R8 = rep.rule('C13.R8', 'the predicate store the parsers resolve symbols in finds every declared predicate by its coordinates after every operation of its '
                            'mutator API on every small state (black-box step of lang/collect.Predicates, shared with C18.R9): equal declarations, equal lookups')
    res, cons = ordset.fold_predicates_blackbox(m, deep=rep.tier == 'thorough')
    rep.consult(*cons)
    seen = set()
    for ok, op, case, detail in res:
        rep.instance(R8, ok=ok, nontrivial=('Predicates', case))
        if not ok:
            kinds = _re.findall(r'\[([a-z-]+)\]', detail) or ['state']
            key = (op, kinds[0])
            if key in seen:
                continue
            seen.add(key)
            rep.finding(R8, f'C13.R8/Predicates/{op}/{kinds[0]}', m.relfile('pytableaux.lang.collect'), f'Predicates.{op}', f'{case}: {detail}')
    rep.floor('C13.R8', 'store operation x state cases', len(res), 600)


def r7(ctx, rep):
    """History independence below the parser: the items it builds go through the lexical construction cache, which is keyed by
    equality.  If a constructor's comparison key leaves out a spec field, two different sentences are one cache entry and a later
    parse gets the earlier sentence back (lexfold.fold_constructors, shared with C14.R1; cache folds are C14.R4/R5)."""
    from .. import lexfold
    m = ctx.m
    R7 = rep.rule('C13.R7', 'what a parser builds is what it asked for, whatever was built before: every lexical constructor the parsers call is folded '
                            'and its comparison key (the key of the shared construction cache) distinguishes every two different specs')
    res, cons = lexfold.fold_constructors(m)
    rep.consult(*cons)
    seen = set()
    n = 0
    for ok, case, detail in res:
        n += 1
        rep.instance(R7, ok=ok, nontrivial=case)
        if not ok:
            k = case.split(' on ')[0].split(':')[0]
            if k in seen:
                continue
            seen.add(k)
            rep.finding(R7, f'C13.R7/constructors/{k}', cons[0].split(' ')[0] if cons else 'pytableaux/lang/lex.py', 'lexical constructors', f'{case}: {detail}')
    rep.floor('C13.R7', 'constructor cases', n, 100)


def r6(ctx, rep):
    """Both parsers folded end to end over a dense bounded input language (sa.parsefold)."""
    from .. import parsefold
    m = ctx.m
    R6 = rep.rule('C13.R6', 'parsers folded end to end (MRO-bound PolishParser / StandardParser / ParseContext over the real parse tables) on every '
                            'well-formed sentence up to a size bound, their single-character mutations and all short strings, with a mutable and a '
                            'frozen predicate store: the outcome is a ParseError or a closed sentence (no free, vacuous or re-bound variable, one arity '
                            'per predicate symbol) -- never another exception; the Polish parser agrees with an independent reader of the grammar')
    for notation in ('polish', 'standard'):
        res, cons, ninputs = parsefold.fold_parser(m, ctx.lgs.lex, notation, deep=rep.tier == 'thorough')
        rep.consult(*cons)
        seen = set()
        for ok, kind, case, detail in res:
            rep.instance(R6, ok=ok, nontrivial=case)
            if not ok:
                # one finding per (kind, failing construct): the first input that shows it
                sig = (kind, detail.split(':')[0][:60])
                if sig in seen:
                    continue
                seen.add(sig)
                rep.finding(R6, f'C13.R6/{notation}/{kind}/' + case.split("'")[1] if "'" in case else f'C13.R6/{notation}/{kind}/{len(seen)}', 'pytableaux/lang/parsing.py', f'{notation} parser', f'{case}: {detail}')
        rep.floor('C13.R6', f'{notation} inputs', ninputs, 1200)


def parser_functions(m):
    out = []
    for qn, fn in astq.all_functions(m.trees[PAR]):
        cls = qn.split('.')[0]
        if cls in PARSER_CLASSES + ('ParseContext', 'Parser'):
            out.append((qn, fn))
    return out


def r1(ctx, rep):
    m = ctx.m
    R1 = rep.rule('C13.R1', 'exception escape: only ParseError subclasses leave the parser')
    pe = parse_error_classes(m)
    if not {'UnboundVariableError', 'BoundVariableError', 'UndefinedPredicateError'} <= pe:
        raise AnalysisError(f'errors.py: documented parse errors are no longer ParseError subclasses: {sorted(pe)}')
    n = 0
    for qn, fn in parser_functions(m):
        pm = astq.parent_map(fn)
        for r in astq.walk_no_nested(fn):
            if not isinstance(r, ast.Raise):
                continue
            n += 1
            nm = raised_name(r)
            if nm is None:
                h = astq.enclosing(pm, r, ast.ExceptHandler)
                ok = (h is not None and h.type is not None and all(astq.u(t) in pe for t in (h.type.elts if isinstance(h.type, ast.Tuple) else [h.type]))) \
                    or (qn, None) in REVIEWED_RAISES
                why = 'bare re-raise outside a ParseError handler'
            else:
                base = nm.split('.')[-1]
                ok = base in pe or (qn, base) in REVIEWED_RAISES
                why = f'raises {nm}, which is not a ParseError'
            rep.instance(R1, ok=ok, sample=dict(function=qn, raises=nm or 're-raise'), nontrivial=(qn, nm, r.lineno - fn.lineno))
            if not ok:
                rep.finding(R1, f'C13.R1/raise/{qn}/{nm}', m.loc(PAR, r), qn, why)
        # constructor calls that can raise ValueError
        for c in astq.calls(fn, nested=False):
            name = astq.call_name(c)
            if name in ('Atomic', 'Variable', 'Constant', 'Predicate', 'ctype', 'BiCoords', 'Operator', 'Quantifier', 'Predicated', 'Operated', 'Quantified'):
                n += 1
                tr = astq.enclosing(pm, c, ast.Try)
                wrapped = False
                while tr is not None and not wrapped:
                    inbody = any(c in list(ast.walk(s)) for s in tr.body)
                    if inbody:
                        for h in tr.handlers:
                            types = [] if h.type is None else [astq.u(t) for t in (h.type.elts if isinstance(h.type, ast.Tuple) else [h.type])]
                            if ('ValueError' in types or 'Exception' in types) and any(isinstance(x, ast.Raise) and (raised_name(x) or '').split('.')[-1] in pe for x in ast.walk(h)):
                                wrapped = True
                    tr = astq.enclosing(pm, tr, ast.Try)
                ok = wrapped or valid_by_construction(c)
                rep.instance(R1, ok=ok, nontrivial=(qn, name))
                if not ok:
                    rep.finding(R1, f'C13.R1/constructor/{qn}/{name}', m.loc(PAR, c), qn,
                                f'`{astq.u(c)[:50]}` can raise ValueError and is neither converted to ParseError nor in the reviewed valid-by-construction table')
    rep.floor('C13.R1', 'raise / constructor sites', n, 25)
    # (end-of-input, unknown-symbol and retry behaviour are decided by the end-to-end fold C13.R6, not by statement shapes)


def _implies(test, polarity, atom):
    "does `test` evaluating to `polarity` imply that the expression with text `atom` is true?"
    if astq.u(test) == atom:
        return polarity
    if isinstance(test, ast.UnaryOp) and isinstance(test.op, ast.Not):
        return _implies(test.operand, not polarity, atom)
    if isinstance(test, ast.BoolOp):
        if isinstance(test.op, ast.And) and polarity:
            return any(_implies(v, True, atom) for v in test.values)
        if isinstance(test.op, ast.Or) and not polarity:
            return any(_implies(v, False, atom) for v in test.values)
    return False


def _is_store_guard(g):
    out = False
    for t, p in g:
        try:
            e = ast.parse(t, mode='eval').body
        except SyntaxError:
            continue
        out = out or _implies(e, p, 'isinstance(self.predicates, Predicates)')
    return out


def store_guarded(m, qn, fn, node, seen):
    """`node` (in parser function qn) is dominated by the isinstance(self.predicates, Predicates) guard -- in this function,
    or, when qn is a private helper, at every one of its call sites (recursively)."""
    pm = astq.parent_map(fn)
    if _is_store_guard(astq.guards_of(fn, astq.stmt_of(pm, node), pm)):
        return True
    name = qn.rsplit('.', 1)[-1]
    if not name.startswith('_') or name.startswith('__') or qn in seen:
        return False
    seen = seen | {qn}
    sites = [(q, f, c) for q, f in parser_functions(m) for c in astq.calls(f, nested=False)
             if isinstance(c.func, ast.Attribute) and c.func.attr == name and astq.u(c.func.value) in ('self', 'super()')]
    return bool(sites) and all(store_guarded(m, q, f, c, seen) for q, f, c in sites)


def r2(ctx, rep):
    m = ctx.m
    R2 = rep.rule('C13.R2', 'every method the parser calls on its predicate store exists on every admitted store class, or is guarded by isinstance')
    COL = 'pytableaux.lang.collect'
    admitted = [ClassRef(COL, 'Predicates'), ClassRef(COL, 'Predicates.Frozen')]
    init = m.func(PAR, 'Parser.__init__')
    rep.consult(m.loc(PAR, init) + ' Parser.__init__')
    # the gate folded: whatever the constructor is given, the store the parser keeps is a PredicatesBase (so `admitted` is complete)
    from ..minieval import Interp as _Ig, Obj as _Og

    class PBase:
        pass

    class PredsM(PBase):
        def __init__(self, *a):
            self.given = a
    given = PredsM()
    frozen = PBase()   # an immutable store (Predicates.Frozen): a PredicatesBase that is not a Predicates
    itg = _Ig(dict(Predicates=PredsM, PredicatesBase=PBase, ParseTable=_Og('ParseTable', fetch=lambda *a: 'TABLE'), check=_Og('check', inst=lambda o, t: o),
                   for_defaults=lambda d, o: dict(d)), where='lang/parsing.py Parser.__init__')
    kept = []
    for arg in (None, given, ('P1', 'P2'), [], frozen):
        ps = _Og('parser', notation='N', defaults={})
        r = itg.safe(init, [ps], dict(predicates=arg))
        kept.append(getattr(ps, 'predicates', r))
    keptnames = [('the given store' if k is given else 'the given immutable store' if k is frozen else 'a new mutable store' if isinstance(k, PredsM) else repr(k)) for k in kept]
    ok = all(isinstance(k, PBase) for k in kept) and kept[1] is given and kept[4] is frozen
    rep.instance(R2, ok=ok, nontrivial='gate')
    if not ok:
        rep.finding(R2, 'C13.R2/Parser.__init__/gate', m.loc(PAR, init), 'Parser.__init__',
                    f'given None / a store / a tuple / a list / an immutable store the parser keeps {keptnames}: not always a predicate store (PredicatesBase); a given store, mutable or '
                    f'immutable, must be kept as it is (an immutable store replaced by a mutable copy gets predicates auto-declared into it)')
    known_external = {'get': None}
    n = 0
    for qn, fn in parser_functions(m):
        pm = None
        for c in astq.calls(fn, nested=False):
            f = c.func
            if isinstance(f, ast.Attribute) and astq.u(f.value) in ('self.predicates', 'context.predicates'):
                n += 1
                meth = f.attr
                missing = []
                for cls in admitted:
                    v, owner = m.method(cls, meth)
                    if v is None:
                        missing.append(cls.qualname)
                if not missing:
                    rep.instance(R2, ok=True, nontrivial=(qn, meth))
                    continue
                guarded = store_guarded(m, qn, fn, c, set())
                rep.instance(R2, ok=guarded, sample=dict(site=qn, method=meth, missing_on=missing), nontrivial=(qn, meth))
                if not guarded:
                    rep.finding(R2, f'C13.R2/{qn}/self.predicates.{meth}', m.loc(PAR, c), qn,
                                f'`{astq.u(c)}`: {missing} (admitted by the constructor) has no method {meth}: AttributeError instead of ParseError')
    rep.floor('C13.R2', 'store method calls', n, 2)


def r3(ctx, rep):
    m = ctx.m
    R3 = rep.rule('C13.R3', 'binding typestate (folded) and arity discipline')
    it = Interp(dict(BoundVariableError=lambda *a: 'E', UnboundVariableError=lambda *a: 'E'), where='lang/parsing.py ParseContext bind/unbind')
    f_bind, f_check, f_unbind = (m.func(PAR, f'ParseContext.{n}') for n in ('bind', 'check_bound', 'unbind'))
    rep.consult(*(m.loc(PAR, f) + f' ParseContext.{f.name}' for f in (f_bind, f_check, f_unbind)))
    V = [Obj('x', spec=(0, 0)), Obj('y', spec=(1, 0))]
    for bound in ([], [V[0]], [V[1]], V):
        for v in V:
            ctxo = Obj('ctx', bound=set(bound), pos=3)
            ctxo.check_bound = lambda vv, c=ctxo: it.call(f_check, [c, vv])
            r = it.safe(f_bind, [ctxo, v])
            want_raise = v in bound
            ok = (isinstance(r, Raises) and 'BoundVariableError' in r.text) if want_raise else (r is v and v in ctxo.bound)
            rep.instance(R3, ok=ok, nontrivial=('bind', len(bound), v._name))
            if not ok:
                rep.finding(R3, f'C13.R3/bind/{[b._name for b in bound]}/{v._name}', m.loc(PAR, f_bind), 'ParseContext.bind',
                            f'bind({v._name}) with bound={[b._name for b in bound]}: got {r!r}')
            ctxo = Obj('ctx', bound=set(bound), pos=3)
            r = it.safe(f_check, [ctxo, v])
            ok = (isinstance(r, Raises) and 'UnboundVariableError' in r.text) if v not in bound else r is v
            rep.instance(R3, ok=ok, nontrivial=('check', len(bound), v._name))
            if not ok:
                rep.finding(R3, f'C13.R3/check_bound/{[b._name for b in bound]}/{v._name}', m.loc(PAR, f_check), 'ParseContext.check_bound',
                            f'check_bound({v._name}) with bound={[b._name for b in bound]}: got {r!r}')
            for svars in ([], [V[0]], [V[1]], V):
                used = v in svars
                ctxo = Obj('ctx', bound=set(bound), pos=3)
                ctxo.check_bound = lambda vv, c=ctxo: it.call(f_check, [c, vv])
                s = Obj('sentence', variables=set(svars))
                r = it.safe(f_unbind, [ctxo, v, s])
                if v not in bound:
                    ok = isinstance(r, Raises) and 'UnboundVariableError' in r.text
                elif not used:
                    ok = isinstance(r, Raises) and 'BoundVariableError' in r.text
                else:
                    ok = r == (v, s) and v not in ctxo.bound and ctxo.bound == set(bound) - {v}
                rep.instance(R3, ok=ok, nontrivial=('unbind', len(bound), v._name, tuple(x._name for x in svars)))
                if not ok:
                    rep.finding(R3, f'C13.R3/unbind/{[b._name for b in bound]}/{v._name}/{[x._name for x in svars]}', m.loc(PAR, f_unbind), 'ParseContext.unbind',
                                f'unbind({v._name}) with bound={[b._name for b in bound]}, variables occurring in the body={[x._name for x in svars]}: got {r!r} '
                                f'(expected {"UnboundVariableError" if v not in bound else ("BoundVariableError: the variable does not occur in its scope" if not used else "the pair, with the variable unbound")})')
    # (where variables are built, bind/unbind bracketing and arity discipline are decided on the parsers' behaviour by C13.R6)


PROGRESS = ('context.advance', 'self.advance', 'read', 'self._read', 'self._read_parameter')


def r4(ctx, rep):
    m = ctx.m
    R4 = rep.rule('C13.R4', 'every while loop of the parser advances or exits on each iteration')
    n = 0
    for qn, fn in parser_functions(m):
        for loop in astq.walk_no_nested(fn):
            if not isinstance(loop, ast.While):
                continue
            n += 1
            progress = False
            for st in loop.body:         # unconditional top-level statements only
                if isinstance(st, ast.AugAssign) and isinstance(st.op, (ast.Add, ast.Sub)):
                    progress = True          # a position / length / depth counter moves on every iteration
                if isinstance(st, (ast.Break, ast.Return, ast.Raise)):
                    progress = True
                if isinstance(st, ast.Expr):
                    for c in astq.calls(st):
                        nm_ = astq.call_name(c)
                        if nm_ in PROGRESS or nm_.endswith('.advance') or 'read' in nm_.rsplit('.', 1)[-1]:
                            progress = True
            rep.instance(R4, ok=progress, sample=dict(function=qn, loop=astq.u(loop.test)), nontrivial=(qn, loop.lineno - fn.lineno))
            if not progress:
                rep.finding(R4, f'C13.R4/{qn}/while {astq.u(loop.test)[:30]}', m.loc(PAR, loop), qn,
                            'loop body has no unconditional progress statement (pos/length increment, advance(), parameter read) or exit: possible non-termination')
    rep.floor('C13.R4', 'while loops', n, 4)


def r5(ctx, rep):
    m = ctx.m
    R5 = rep.rule('C13.R5', 'effect confinement: parsing writes only the fresh ParseContext and predicates.add (history independence)')
    n = 0
    for qn, fn in parser_functions(m):
        cls, meth = qn.split('.')[0], qn.split('.')[-1]
        if meth in ('__init__', '__init_subclass__', '__setattr__') or cls == 'Parser':
            continue
        for t, st in astq.stores(fn, nested=False):
            if isinstance(t, ast.Name):
                continue
            n += 1
            txt = astq.u(t)
            if cls == 'ParseContext':
                ok = txt in ('self.pos', 'self.bound', 'self.is_open')
            else:
                ok = False
            rep.instance(R5, ok=ok, nontrivial=(qn, txt))
            if not ok:
                rep.finding(R5, f'C13.R5/{qn}/{txt}', m.loc(PAR, st), qn, f'`{astq.u(st)[:50]}` writes state that outlives one parse')
        for node in astq.walk_no_nested(fn):
            if isinstance(node, (ast.Global, ast.Nonlocal)):
                rep.instance(R5, ok=False, nontrivial=(qn, 'global'))
                rep.finding(R5, f'C13.R5/{qn}/global', m.loc(PAR, node), qn, 'uses global/nonlocal state')
        if cls in PARSER_CLASSES:
            for c in astq.calls(fn, nested=False):
                f = c.func
                if isinstance(f, ast.Attribute) and f.attr in ('append', 'add', 'update', 'pop', 'remove', 'clear', 'setdefault', 'extend', 'insert', 'discard') \
                        and astq.u(f.value).startswith('self.'):
                    n += 1
                    ok = astq.u(f) == 'self.predicates.add'
                    rep.instance(R5, ok=ok, nontrivial=(qn, astq.u(f)))
                    if not ok:
                        rep.finding(R5, f'C13.R5/{qn}/{astq.u(f)}', m.loc(PAR, c), qn, f'`{astq.u(c)[:50]}` mutates parser state other than the predicate store')
    rep.floor('C13.R5', 'stores / mutating calls', n, 6)
    # (a parse runs in a fresh context: decided by R6's history pass -- one parser instance re-used over the whole corpus)


def r9(ctx, rep):
    """The parser turns the constructors' ValueError into ParseError (R1 checks the handlers).  That an out-of-range *value* --
    arity 0 deduced from a predicate symbol without parameters, an index beyond the type's maximum, a negative subscript --
    is refused with ValueError and nothing else is decided on the constructors: Predicate.__init__ and CoordsItem.__new__ folded."""
    import collections as _c
    from ..minieval import Interp, Obj, Raised
    m = ctx.m
    LEXM = 'pytableaux.lang.lex'
    R9 = rep.rule('C13.R9', 'what the parser\'s handlers catch is what the constructors raise: Predicate.__init__ and CoordsItem.__new__ folded on well-typed but '
                            'out-of-range coordinates (arity 0, index beyond the maximum, negative subscript) raise ValueError, the exception the parser converts')
    pinit = m.func(LEXM, 'Predicate.__init__')
    cnew = m.func(LEXM, 'CoordsItem.__new__')
    rep.consult(m.loc(LEXM, pinit) + ' Predicate.__init__', m.loc(LEXM, cnew) + ' CoordsItem.__new__')
    cases = []
    # Predicate.__init__ runs after __new__ has set the coordinates
    for spec, why in (((0, 0, 0), 'arity 0'), ((1, 3, 0), 'arity 0 with a subscript'), ((0, 0, -1), 'negative arity')):
        itp = Interp(dict(BiCoords=lambda *a: a, ValueError=ValueError, TypeError=TypeError, len=len), where='lang/lex.py Predicate.__init__')
        me = Obj('predicate', index=spec[0], subscript=spec[1], arity=spec[2], spec=spec, System=True)
        try:
            itp.call(pinit, [me, *spec])
            got = 'accepted'
        except ValueError:
            got = 'ValueError'
        except TypeError:
            got = 'TypeError'
        except Raised as e:
            got = e.text
        cases.append((f'Predicate{spec} ({why})', got))
    BiC = _c.namedtuple('BiCoords', 'index subscript')
    BiC.sorting = lambda s_: (s_.subscript, s_.index)

    class InstErr(TypeError):
        pass

    def inst(v, t):
        if not isinstance(v, t):
            raise InstErr(v)
        return v
    for spec, why in (((4, 0), 'index beyond the maximum'), ((0, -1), 'negative subscript'), ((9, 9), 'index beyond the maximum')):
        itn = Interp(dict(object=Obj('object', __new__=lambda c: Obj('item', Coords=BiC, TYPE=Obj('TYPE', maxi=3, rank=20)), __setattr__=setattr),
                          check=Obj('check', inst=inst), ValueError=ValueError, TypeError=TypeError, AttributeError=AttributeError, zip=zip), where='lang/lex.py CoordsItem.__new__')
        try:
            itn.call(cnew, [Obj('cls'), *spec])
            got = 'accepted'
        except ValueError:
            got = 'ValueError'
        except TypeError:
            got = 'TypeError'
        except Raised as e:
            got = e.text
        cases.append((f'coordinates {spec} ({why})', got))
    for case, got in cases:
        ok = got == 'ValueError'
        rep.instance(R9, ok=ok, nontrivial=case)
        if not ok:
            rep.finding(R9, f'C13.R9/{case}', m.relfile(LEXM), 'lexical constructors',
                        f'{case}: the constructor answers with {got}; the parsers convert ValueError into ParseError, anything else escapes them '
                        f'(an undeclared predicate symbol without parameters makes the parser deduce arity 0)')
    rep.floor('C13.R9', 'out-of-range cases', len(cases), 6)
