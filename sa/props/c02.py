"""C02 -- an 'invalid' verdict comes with a genuine countermodel (local premises)."""
from __future__ import annotations

import ast
import itertools

from .. import astq
from ..closure import node_classes
from ..model import ClassRef
from ..core import AnalysisError, Report
from ..minieval import Interp, Obj, Raised
from . import common

LEVEL = 'other'
EXPLANATION = (
    'Static analysis. Decides the local premises of "the model read off an open saturated branch satisfies every node on it": (R1) every expansion rule is invertible -- some extension satisfiable => node satisfiable -- on every valuation / value set under the logic\'s own extracted semantics; (R2) the value _read_node assigns to every open literal set satisfies it (C05.R3) and open literal sets are satisfiable (C05.R2); (R3) the reader covers every node kind, read_branch visits every node and then finishes, Tableau.finish builds models only for an invalid tableau and only from open branches, and is_countermodel_to (folded) means premises designated and conclusion not. Saturation/fairness ("completed means no applicable rule instance is left") is declined: it depends on the interleaving of rule applications. Added since: (R4) fairness necessary condition on the counters, (R5) the evaluator clauses C08.R1-R4, (R6) the applicability bookkeeping folds of C04.R7 (no tracked node/constant/world is lost; the Serial rule offers every unserial world that carries sentences) -- necessary conditions of saturation that are visible in single definitions. (R8) no starvation behind the fairness gate: rules whose target producer is gated by NodeCount.isleast are folded over every small state of applied (node, world) pairs -- whenever some node still has an accessible world it was not applied to, the rule offers a target. (R9) the identity rule folded over branches with several worlds (C01.R9): a result present at another world does not switch a substitution off.')
TRUSTED = ['CPython ast', 'sa.model / sa.schema / sa.tables extractors', 'sa.minieval']
ASSUMPTIONS = ['saturation of completed tableaux is NOT decided (declined)']

MODELS = 'pytableaux.models'
TAB = 'pytableaux.proof.tableaux'


def run(ctx, rep):
    m = ctx.m
    common.check_floors(ctx, rep, 'C02')
    R1 = rep.rule('C02.R1', 'every expansion rule is invertible: some extension satisfiable => node satisfiable')
    counts = common.exactness(ctx, rep, 'C02.R1', ('incomplete',))
    rep.floor('C02.R1', 'rule slots', sum(counts.values()), common.FLOOR_OPERATOR_SLOTS + common.FLOOR_QUANTIFIER_SLOTS + common.FLOOR_MODAL_SLOTS)
    from . import c05
    R2 = rep.rule('C02.R2', 'literal reading: open literal sets are satisfiable and _read_node\'s value satisfies them (C05.R2 open half, C05.R3)')
    sub = Report('C05', rep.tier, rep.repo)
    c05.run(ctx, sub)
    n = sub.rules.get('C05.R3', {}).get('instances', 0) + sub.rules.get('C05.R2', {}).get('instances', 0)
    for _ in range(n):
        rep.instance(R2, ok=True)
    rep.consulted |= sub.consulted
    for f in sub.findings:
        if f.rule == 'C05.R3' or (f.rule == 'C05.R2' and 'open-but-unsatisfiable' in f.key):
            rep.rules[R2]['failed'] += 1
            rep.discharged -= 1
            rep.finding(R2, f.key.replace('C05.', 'C02.R2/C05.', 1), f.where, f.construct, f.msg)
    rep.floor('C02.R2', 'literal-set obligations', n, 1000)
    r3(ctx, rep)
    fairness_rule(ctx, rep)
    from . import c08
    R5 = rep.rule('C02.R5', 'the evaluator the countermodel test relies on is compositional and frame-correct (C08.R1-R4)')
    sub = Report('C08', rep.tier, rep.repo)
    c08.run(ctx, sub)
    # (C08.R5, identity completion, is C08's own clause: a countermodel here is one by the library's evaluator)
    for _ in range(sum(r['instances'] for rid, r in sub.rules.items() if rid != 'C08.R5')):
        rep.instance(R5, ok=True)
    rep.consulted |= sub.consulted
    for f in sub.findings:
        if f.rule == 'C08.R5' and not f.key.endswith('/locality'):
            continue        # (whether identity is an equivalence is C08's own clause; that it acts at its own world only is needed here:
                            #  the branch keeps identity per world, and a model that moves extensions across worlds contradicts the branch it reads)
        rep.rules[R5]['failed'] += 1
        rep.discharged -= 1
        rep.finding(R5, f.key.replace('C08.', 'C02.R5/C08.', 1), f.where, f.construct, f.msg)
    R6 = rep.rule('C02.R6', 'an open finished branch is saturated: the bookkeeping that decides which nodes / constants / worlds a rule is still '
                            'to be applied to never loses one (helper listeners folded as inductive steps; the C04.R7 folds)')
    n = common.bookkeeping(ctx, rep, R6, 'C02.R6')
    rep.floor('C02.R6', 'bookkeeping cases', n, 90)
    RL = rep.rule('C02.R7', 'a rule stops offering targets because of a world / constant limit only in states where a quit flag is put on the branch (limit predicates and guarded target producers folded below / at / above the limit): an open branch cut short by a limit is never limit-free')
    common.limit_guards(ctx, rep, RL, 'C02.R7')
    from .. import helpersfold
    R8 = rep.rule('C02.R8', 'no starvation behind the fairness gate: rules that postpone a node while another was applied fewer times (NodeCount.isleast) are folded '
                            'over every small state of applied (node, world) pairs -- whenever some node still has an accessible world it was not applied to, '
                            'the rule offers a target; so an open finished branch is saturated for the box-type modal rules')
    common.fair_gate(ctx, rep, R8, 'C02.R8')
    R9 = rep.rule('C02.R9', 'an open finished branch is saturated for identity: the identity rule (folded over mock branches with several worlds; = C01.R9) offers '
                            'the substitution at a world unless its result is on the branch at that world -- else the model read off the branch need not '
                            'respect an identity it contains')
    common.identity_rule(ctx, rep, R9, 'C02.R9')


def r3(ctx, rep):
    m = ctx.m
    R3 = rep.rule('C02.R3', 'reader coverage: _read_node handles access/world/sentence/designation nodes; read_branch reads every '
                            'node then finishes; models are generated only when invalid, from open branches; is_countermodel_to folded')
    classes = node_classes(m)
    f_read = m.func(MODELS, 'BaseModel._read_node')
    rep.consult(m.loc(MODELS, f_read) + ' BaseModel._read_node')
    # fold _read_node on non-literal node kinds
    from ..glue import builder_interp
    it, fns, keys = builder_interp(m)
    it.where = 'models/__init__.py BaseModel._read_node'
    for name, cls in classes.items():
        if name != 'Node':
            it.g[name] = cls
    it.g['Operated'] = Obj('Operated')
    it.g['Operator'] = Obj('Operator', Negation=Obj('Negation'))
    log = []

    class R:
        def add(self, pair):
            log.append(('R.add', tuple(pair)))

        def __getitem__(self, w):
            log.append(('R[w]', w))
            return set()
    model = Obj('model', __srcclass__=(m, ClassRef('pytableaux.models', 'BaseModel')), R=R(), sentences=set(), constants=set())
    model._check_not_finished = lambda: None
    model.is_sentence_literal = lambda s: False
    model.is_sentence_opaque = lambda s: False
    acc = classes['AccessNode']()
    acc.update(world1=1, world2=2)
    log.clear()
    it.safe(f_read, [model, acc, None])
    ok = ('R.add', (1, 2)) in log
    rep.instance(R3, ok=ok, nontrivial='access-node')
    if not ok:
        rep.finding(R3, 'C02.R3/_read_node/access', m.loc(MODELS, f_read), 'BaseModel._read_node', 'an access node does not add its pair to R')
    comp = classes['SentenceDesignationWorldNode']()
    comp.update(sentence=Obj('compound', constants=frozenset({'c'})), designated=True, world=4)
    log.clear()
    it.safe(f_read, [model, comp, None])
    ok = ('R[w]', 4) in log and 'c' in model.constants and len(model.sentences) == 1
    rep.instance(R3, ok=ok, nontrivial='compound-node')
    if not ok:
        rep.finding(R3, 'C02.R3/_read_node/compound', m.loc(MODELS, f_read), 'BaseModel._read_node',
                    'a compound sentence node does not register its world / constants / sentence')
    rb = m.func(MODELS, 'BaseModel.read_branch')
    rep.consult(m.loc(MODELS, rb) + ' BaseModel.read_branch')
    # read_branch folded: every node of the branch is read (in order), then the model is finished, then nothing else
    itr = Interp({}, where='BaseModel.read_branch')
    log = []
    mdl = Obj('model', __srcclass__=(m, ClassRef(MODELS, 'BaseModel')), _check_not_finished=lambda: None,
              _read_node=lambda node, branch: log.append(('read', node, branch)), finish=lambda: log.append('finish'))
    br = ['n1', 'n2', 'n3']
    r = itr.safe(rb, [mdl, br])
    ok = r is mdl and log == [('read', n, br) for n in br] + ['finish']
    rep.instance(R3, ok=ok, nontrivial='read_branch')
    if not ok:
        rep.finding(R3, 'C02.R3/read_branch', m.loc(MODELS, rb), 'BaseModel.read_branch', f'does not read every node and then finish(): calls {log}, returns {r!r}')
    # Tableau.finish builds models iff invalid and is_build_models (lifecycle fold); _gen_models folded: one model of the logic per open branch
    from .. import lifecycle
    res, cons = lifecycle.fold_finish(m)
    rep.consult(*cons)
    for ok, case, detail in res:
        rep.instance(R3, ok=ok, nontrivial=('finish', case))
        if not ok:
            rep.finding(R3, f'C02.R3/finish/{case}', cons[0].split(' ')[0], 'Tableau.finish', f'{case}: {detail}')
    gm = m.func(TAB, 'Tableau._gen_models')
    rep.consult(m.loc(TAB, gm) + ' Tableau._gen_models')
    made = []

    class ModelM:
        def __init__(self):
            made.append(self)
            self.read = []

        def read_branch(self, branch):
            self.read.append(branch)
            return self
    ob = [Obj('open-branch-1'), Obj('open-branch-2')]
    tabm = Obj('tableau', __srcclass__=(m, ClassRef(TAB, 'Tableau')), logic=Obj('logic', Model=ModelM), open=ob, _check_timeout=lambda: None)
    itg = Interp({}, where='Tableau._gen_models')
    try:
        got = itg.generate(gm, [tabm])
        err = None
    except Raised as e:
        got, err = [], e.text
    ok = err is None and got == made and len(made) == 2 and [x.read for x in made] == [[ob[0]], [ob[1]]] and all(getattr(b, 'model', None) is x for b, x in zip(ob, made))
    rep.instance(R3, ok=ok, nontrivial='_gen_models')
    if not ok:
        rep.finding(R3, 'C02.R3/_gen_models', m.loc(TAB, gm), 'Tableau._gen_models',
                    f'does not read one model of the tableau\'s logic per open branch (and attach it to the branch): {err or [x.read for x in made]}')
    # is_countermodel_to folded
    ic = m.func(MODELS, 'BaseModel.is_countermodel_to')
    rep.consult(m.loc(MODELS, ic) + ' BaseModel.is_countermodel_to')
    it2 = Interp({}, where='BaseModel.is_countermodel_to')
    D = frozenset({'T', 'B'})
    for pv in itertools.product(('T', 'B', 'N', 'F'), repeat=2):
        for cv in ('T', 'B', 'N', 'F'):
            vals = {'p1': pv[0], 'p2': pv[1], 'c': cv}
            mod = Obj('model', __srcclass__=(m, ClassRef('pytableaux.models', 'BaseModel')), Meta=Obj('Meta', designated_values=D))
            mod.value_of = lambda s: vals[s]
            a = Obj('arg', premises=('p1', 'p2'), conclusion='c')
            got = bool(it2.safe(ic, [mod, a]))
            want = all(v in D for v in pv) and cv not in D
            ok = got == want
            rep.instance(R3, ok=ok, nontrivial=('countermodel', pv, cv))
            if not ok:
                rep.finding(R3, f'C02.R3/is_countermodel_to/{"".join(pv)}/{cv}', m.loc(MODELS, ic), 'BaseModel.is_countermodel_to',
                            f'premises {pv}, conclusion {cv}: returns {got}, a countermodel designates all premises and not the conclusion ({want})')


def fairness_rule(ctx, rep):
    from .. import fairness
    m = ctx.m
    R = rep.rule('C02.R4', 'fair re-application: the least-applied test does not change the counts it aggregates (no inserting read of a defaultdict counter)')
    hits, ncls = fairness.inserting_reads(m)
    rep.floor('C02.R4', 'aggregated defaultdict counters', ncls, 1)
    for ref, cd, vt, aggs in fairness.counter_classes(m):
        rep.consult(f'{m.loc(ref.module, cd)} {ref.qualname}')
    if not hits:
        rep.instance(R, ok=True, nontrivial='no-inserting-read')
    for ref, fn, node in hits:
        rep.instance(R, ok=False, nontrivial=(ref.qualname, fn.name))
        rep.finding(R, f'C02.R4/{ref.qualname}.{fn.name}', m.loc(ref.module, node), f'{ref.qualname}.{fn.name}',
                    f'`{ast.unparse(node)}` subscripts the per-branch defaultdict: merely asking inserts a zero count, which {ref.qualname}\'s '
                    f'aggregate over .values() then sees -- nodes that can never be applied pin the minimum, applied nodes are never least again '
                    f'(unsaturated "invalid" verdicts that depend on premise order / options)')
