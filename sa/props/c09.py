"""C09 -- the verdict does not depend on how the proof is searched (structural clauses)."""
from __future__ import annotations

import ast

from .. import astq
from ..model import ClassRef
from ..core import AnalysisError
from . import common

LEVEL = 'other'
EXPLANATION = (
    'Static analysis (nullable-value flow + confinement). (R1) the target keys that Rule._extend_targets / Tableau._get_group_application set to None when an optimisation option is off (candidate_score, min/max_candidate_score, group_score, min_group_score) must not reach an ordering comparison or arithmetic anywhere in the package without a dominating None/option guard -- this is the "no option combination makes the build raise" clause; the None-assignments themselves are re-derived from the source on every run. (R2) the search options are read only in the three reviewed choice functions, each of which returns an element of its input collection; no rule, helper or model reads an option. (R3) build() is literally the step() loop. Independence from tie-break order and premise order/multiplicity is declined (schedule-quantified run-time behaviour). (R5) every closure rule\'s MRO-resolved scorers folded on the target its own hook builds return a number. (R6) the helper bookkeeping folds of C04.R7 imported: no constant, world or node is lost because of when it arrived (premise order / multiplicity). (R7) no starvation behind the fairness gate (C02.R8). (R8) branch lookup exactness on branches beyond the index cut-off (C05.R5): repeated premises cannot hide a node. (R9) limit guards (C02.R7). (R10) the identity rule folded over branches with several worlds (C01.R9): which world is opened first cannot switch a substitution off.')
TRUSTED = ['CPython ast', 'sa.astq.guards_of']
ASSUMPTIONS = ['targets are accessed by string-literal keys (as everywhere in the package)']

TAB = 'pytableaux.proof.tableaux'
OPTION_READERS = {
    (TAB, 'Rule._extend_targets'): 'is_rank_optim',
    (TAB, 'Rule._select_best_target'): 'is_rank_optim',
    (TAB, 'Tableau._get_group_application'): 'is_group_optim',
}


def nullable_keys(m):
    """Keys that are None under an option, derived by folding the two functions that annotate targets with the option off."""
    from .. import search
    return search.nullable_target_keys(m)


def key_of_access(n):
    "string key of target['k'] / target.get('k') / target.k-like accesses; else None"
    if isinstance(n, ast.Subscript) and isinstance(n.slice, ast.Constant) and isinstance(n.slice.value, str):
        return n.slice.value
    if isinstance(n, ast.Call) and isinstance(n.func, ast.Attribute) and n.func.attr == 'get' and n.args and \
            isinstance(n.args[0], ast.Constant) and isinstance(n.args[0].value, str):
        return n.args[0].value
    return None


def run(ctx, rep):
    m = ctx.m
    choice_folds(ctx, rep)
    R1 = rep.rule('C09.R1', 'option-dependent target keys (None when the option is off) never reach an ordering comparison or arithmetic unguarded')
    keys = nullable_keys(m)
    want = {'candidate_score', 'min_candidate_score', 'max_candidate_score', 'group_score', 'min_group_score'}
    if not want <= set(keys):
        raise AnalysisError(f'C09.R1: nullable keys derived from source {sorted(keys)} do not include {sorted(want - set(keys))}')
    rep.count('C09.R1:nullable-keys', len(keys))
    nuse = 0
    for mod, qn, fn in astq.iter_functions(m):
        pm = None
        for n in astq.walk_no_nested(fn):
            k = key_of_access(n)
            if k not in keys:
                continue
            if isinstance(n, ast.Subscript) and isinstance(n.ctx, ast.Store):
                continue
            pm = pm or astq.parent_map(fn)
            par = pm.get(n)
            risky = None
            if isinstance(par, ast.Compare):
                ops = par.ops
                if any(isinstance(o, (ast.Lt, ast.LtE, ast.Gt, ast.GtE)) for o in ops):
                    risky = f'ordering comparison `{astq.u(par)}`'
            elif isinstance(par, (ast.BinOp, ast.UnaryOp)) and not isinstance(getattr(par, 'op', None), ast.Not):
                risky = f'arithmetic `{astq.u(par)}`'
            elif isinstance(par, ast.Call) and astq.call_name(par) in ('max', 'min', 'sum', 'abs', 'float', 'int', 'round'):
                risky = f'numeric call `{astq.u(par)}`'
            nuse += 1
            if risky is None:
                rep.instance(R1, ok=True, nontrivial=(mod, qn, k))
                continue
            g = astq.guards_of(fn, astq.stmt_of(pm, n), pm)
            opt = keys[k]
            guarded = any((opt in t and p) or (f'not {opt}' in t and not p) or (f'not {opt}' == t.strip() and not p) or
                          ('is not None' in t and k in t and p) or ('is None' in t and k in t and not p) for t, p in g)
            rep.instance(R1, ok=guarded, sample=dict(site=f'{mod}:{qn}', key=k, use=risky), nontrivial=(mod, qn, k))
            if not guarded:
                rep.finding(R1, f'C09.R1/{mod}:{qn}/{k}', m.loc(mod, n), qn,
                            f"target['{k}'] is None when {opt} is off, yet it is used in {risky} with no guard: TypeError under that option")
    rep.floor('C09.R1', 'uses of nullable keys', nuse, 2)

    R5 = rep.rule('C09.R5', 'closure rules score their own targets: MRO-resolved score_candidate / group_score of every closure rule class, '
                            'folded on the target its _branch_target_hook builds, return a number')
    from .. import search as _search
    res, cons = _search.fold_closure_scoring(m, ctx.lgs)
    rep.consult(*cons)
    for ok, case, detail, where in res:
        rep.instance(R5, ok=ok, nontrivial=case)
        if not ok:
            rep.finding(R5, f'C09.R5/{case}', where, case, detail)
    rep.floor('C09.R5', 'closure rule scorers', len(res), 12)

    R2 = rep.rule('C09.R2', 'search options are read only in the reviewed choice functions, which return elements of their input')
    nread = 0
    for mod, qn, fn in astq.iter_functions(m):
        if mod.startswith('pytableaux.web') or mod.startswith('pytableaux.tools.doc'):
            continue
        for n in astq.walk_no_nested(fn):
            if isinstance(n, ast.Constant) and n.value in ('is_rank_optim', 'is_group_optim'):
                pm = astq.parent_map(fn)
                par = pm.get(n)
                if isinstance(par, ast.Subscript) and isinstance(par.ctx, ast.Load) and 'opts' in astq.u(par.value):
                    nread += 1
                    ok = OPTION_READERS.get((mod, qn)) == n.value
                    rep.instance(R2, ok=ok, nontrivial=(mod, qn, n.value))
                    if not ok:
                        rep.finding(R2, f'C09.R2/{mod}:{qn}/{n.value}', m.loc(mod, n), qn,
                                    f'reads the search option {n.value} outside the reviewed choice functions: the outcome could depend on it')
    rep.floor('C09.R2', 'option reads', nread, 3)
    # group_score / score_candidate implementations must not write to targets or branches
    nsc = 0
    for mod, qn, fn in astq.iter_functions(m):
        if qn.rsplit('.', 1)[-1] in ('group_score', 'score_candidate', 'closure_score'):
            nsc += 1
            bad = [astq.u(st)[:50] for t, st in astq.stores(fn, nested=False) if isinstance(t, (ast.Attribute, ast.Subscript))]
            bad += [astq.u(c)[:50] for c in astq.calls(fn, nested=False) if isinstance(c.func, ast.Attribute) and c.func.attr in ('update', 'append', 'extend', 'add', 'tick', 'close', 'setdefault', 'pop')]
            rep.instance(R2, ok=not bad, nontrivial=(mod, qn))
            for b in bad:
                rep.finding(R2, f'C09.R2/{mod}:{qn}/side-effect/{b}', m.loc(mod, fn), qn, f'scoring function has a side effect `{b}`')
    rep.floor('C09.R2', 'scoring functions', nsc, 12)

    fairness_rule(ctx, rep)
    R6 = rep.rule('C09.R6', 'premise order / multiplicity independence of what rules are applied to: the helper bookkeeping (tracked nodes, the constants '
                            'and worlds still to be applied) folded as inductive steps over every arrival order -- no constant, world or node is lost because of '
                            'when it arrived (the C04.R7 folds)')
    n6 = common.bookkeeping(ctx, rep, R6, 'C09.R6')
    rep.floor('C09.R6', 'bookkeeping cases', n6, 90)
    # premise multiplicity: many nodes sharing a sentence put the branch index on its cut-off paths
    R8 = rep.rule('C09.R8', 'repeating premises cannot hide a node: Branch.find / has / search and the branch index folded over branches with more nodes sharing a '
                            'sentence than the index cut-off, on the branch and on copies (C05.R5) -- a closing pair is found however often a premise is repeated')
    from .. import branchfold
    res8, cons8 = branchfold.fold_branch_lookup(m, deep=rep.tier == 'thorough')
    rep.consult(*cons8)
    for ok8, case8, detail8 in res8:
        rep.instance(R8, ok=ok8, nontrivial=case8)
        if not ok8:
            rep.finding(R8, f'C09.R8/{case8}', cons8[0].split(' ')[0], 'Branch.find', f'{case8}: {detail8}')
    rep.floor('C09.R8', 'lookup cases', len(res8), 800)
    RL9 = rep.rule('C09.R9', 'a rule stops offering targets because of a world / constant limit only in states where a quit flag is put on the branch (limit predicates and guarded '
                             'target producers folded below / at / above the limit; = C02.R7): the projected limits depend on the premises given, so a silent stop at the limit would make '
                             'the verdict depend on premise multiplicity')
    common.limit_guards(ctx, rep, RL9, 'C09.R9')
    RF = rep.rule('C09.R7', 'no starvation behind the fairness gate (the C02.R8 fold): whenever some node still has an accessible world it was not applied to, the box-type rules offer a target -- an unsaturated open branch would make the verdict depend on the order and multiplicity of premises')
    common.fair_gate(ctx, rep, RF, 'C09.R7')
    R10 = rep.rule('C09.R10', 'which world is opened first is a tie between equal targets: the identity rule (folded over mock branches with several worlds; = C01.R9) '
                              'offers the substitution at a world unless its result is on the branch at that world -- a result derived first at another world '
                              'must not switch it off')
    common.identity_rule(ctx, rep, R10, 'C09.R10')
    R3 = rep.rule('C09.R3', 'build() is the step() loop')
    b = m.func(TAB, 'Tableau.build')
    si = m.func(TAB, 'Tableau.stepiter')
    from ..minieval import Interp, Obj, Raises
    it = Interp({}, where='Tableau.build / stepiter')
    consumed = []

    def gen():
        for i in range(3):
            consumed.append(i)
            yield i
    tabm = Obj('tableau', __srcclass__=(m, ClassRef('pytableaux.proof.tableaux', 'Tableau')))
    tabm.stepiter = gen
    r = it.safe(b, [tabm])
    ok = r is tabm and consumed == [0, 1, 2]
    rep.instance(R3, ok=ok, nontrivial='build')
    if not ok:
        rep.finding(R3, 'C09.R3/build', m.loc(TAB, b), 'Tableau.build', f'does not exhaust stepiter() and return self (consumed {consumed}, returned {r!r})')
    steps = iter(['e1', 'e2', None, 'e3'])
    tabm2 = Obj('tableau', __srcclass__=(m, ClassRef('pytableaux.proof.tableaux', 'Tableau')))
    tabm2.step = lambda: next(steps)
    out = it.generate(si, [tabm2])
    ok = out == ['e1', 'e2']
    rep.instance(R3, ok=ok, nontrivial='stepiter-fold')
    if not ok:
        rep.finding(R3, 'C09.R3/stepiter/fold', m.loc(TAB, si), 'Tableau.stepiter', f'does not yield step() results until the first empty one: {out}')
    rep.consult(m.loc(TAB, b) + ' Tableau.build', m.loc(TAB, si) + ' Tableau.stepiter')


def choice_folds(ctx, rep):
    "the choice functions (Rule.target, group application), folded over mock rules/targets for every option value; run first: they are decisive on their own"
    from .. import search
    m = ctx.m
    R2 = rep.rule('C09.R2', 'search options are read only in the reviewed choice functions, which return elements of their input')
    for fold in (search.fold_rule_target, search.fold_group_application):
        res, cons = fold(m)
        rep.consult(*cons)
        for ok, case, detail in res:
            rep.instance(R2, ok=ok, sample=dict(fold=fold.__name__, case=case), nontrivial=(fold.__name__, case))
            if not ok:
                rep.finding(R2, f'C09.R2/{fold.__name__[5:]}/{case}', cons[0].split(' ')[0], fold.__name__[5:], f'{case}: {detail}')


def fairness_rule(ctx, rep):
    from .. import fairness
    m = ctx.m
    R = rep.rule('C09.R4', 'order independence: asking whether a node is least-applied does not change the counts (no inserting read of a defaultdict counter)')
    hits, ncls = fairness.inserting_reads(m)
    rep.floor('C09.R4', 'aggregated defaultdict counters', ncls, 1)
    for ref, cd, vt, aggs in fairness.counter_classes(m):
        rep.consult(f'{m.loc(ref.module, cd)} {ref.qualname}')
    if not hits:
        rep.instance(R, ok=True, nontrivial='no-inserting-read')
    for ref, fn, node in hits:
        rep.instance(R, ok=False, nontrivial=(ref.qualname, fn.name))
        rep.finding(R, f'C09.R4/{ref.qualname}.{fn.name}', m.loc(ref.module, node), f'{ref.qualname}.{fn.name}',
                    f'`{ast.unparse(node)}` subscripts the per-branch defaultdict: merely asking inserts a zero count, which {ref.qualname}\'s '
                    f'aggregate over .values() then sees -- nodes that can never be applied pin the minimum, applied nodes are never least again '
                    f'(unsaturated "invalid" verdicts that depend on premise order / options)')
