"""C06 -- new constants and new worlds are always fresh."""
from __future__ import annotations

import ast
import collections
import itertools

from .. import astq
from ..closure import node_classes
from ..core import AnalysisError
from ..bind import make_self
from ..minieval import Interp, Obj, Raised
from ..model import ClassRef
from ..schema import C_ANY, C_FRESH, W_EACH, W_FRESH, W_NODE, const_kinds
from . import common

LEVEL = 'other'
EXPLANATION = (
    'Static analysis (inductive invariant by folding one definition over all abstract pre-states). Branch.append is folded from source over every pre-state (set of constants/worlds on the branch, high-water mark) that satisfies the invariant "every constant/world on the branch is below the mark" and every arriving node over a small universe; the post-state must satisfy the invariant again, contain the arriving items, and do so before AFTER_ADD is emitted. Branch.copy is folded to show the copy owns its containers. Who-may-write for the marks and sets, new_constant/new_world returning the marks, CoordsItem.next being the successor in the sort order, and the def-use of every witness in every rule schema (fresh constant/world taken from the target branch) are checked. (R6) which slots are witness slots is decided semantically: a quantifier/modal slot that only instantiates existing items must be sound under that reading. new_constant / new_world / Branch.__init__ / the closed-branch guard are folded; who-may-write is closed under private helpers of the owners. (R7) Node.for_mapping folded over every node shape with falsy values included (world 0, designated False): the class picked carries the Modal / SentenceNode / Designation markers of exactly the keys present, so Branch.append records for a mapping what it records for the node. (R8) access.Serial._get_targets folded: the successor world offered is branch.new_world() of the target branch in every state.')
TRUSTED = ['CPython ast', 'sa.minieval', 'sa.schema extractor', 'Python set/max semantics']
ASSUMPTIONS = ['constants are modelled as integers ordered like (subscript, index) -- justified by the CoordsItem.next/sorting fold',
               'every node reaches a branch through Branch.append (C01.R3 who-may-call)']

COMMON = 'pytableaux.proof.common'
LEX = 'pytableaux.lang.lex'
LANG = 'pytableaux.lang'
PRIVATE = ('_nextconst', '_nextworld', '_constants', '_worlds')
OWNERS = {'Branch.__init__', 'Branch.copy', 'Branch.append'}


class K(int):
    """mock constant: the n-th item of the (subscript, index) sort order over two indexes (R0 ties next() to that
    order); it also carries the coordinates, so a maximum taken by another key (index first) shows"""

    def next(self):
        return K(int(self) + 1)

    index = property(lambda s: int(s) % 2)
    subscript = property(lambda s: int(s) // 2)
    spec = property(lambda s: (int(s) % 2, int(s) // 2))
    coords = spec
    sort_tuple = property(lambda s: (int(s) // 2, int(s) % 2))

    def __repr__(self):
        return f'c{int(self)}'


class MockSentence:
    def __init__(self, consts):
        self.constants = frozenset(consts)


class Events(list):
    pass


def run(ctx, rep):
    m = ctx.m
    r0(ctx, rep)
    r1(ctx, rep)
    r2(ctx, rep)
    r3(ctx, rep)
    r8(ctx, rep)
    r9(ctx, rep)
    r5(ctx, rep)
    r6(ctx, rep)
    r7(ctx, rep)


def r0(ctx, rep):
    m = ctx.m
    R0 = rep.rule('C06.R0', 'CoordsItem.next() is the immediate successor in the (subscript, index) sort order')
    fn = m.func(LEX, 'CoordsItem.next')
    srt = m.func(LANG, 'BiCoords.sorting')
    rep.consult(m.loc(LEX, fn) + ' CoordsItem.next', m.loc(LANG, srt) + ' BiCoords.sorting')
    Spec = collections.namedtuple('Spec', 'index subscript')
    maxi = 3
    it = Interp({}, where='lang/lex.py CoordsItem.next')
    # the sort order itself, folded: sorting() of (index, subscript) is (subscript, index)
    from ..lexfold import coords_mirror
    BC, _ = coords_mirror(m, 'BiCoords')
    for i_, s_ in ((0, 0), (1, 0), (0, 2), (3, 1)):
        got = tuple(BC(i_, s_).sorting())
        ok = got == (s_, i_)
        rep.instance(R0, ok=ok, nontrivial=('sorting', i_, s_))
        if not ok:
            rep.finding(R0, f'C06.R0/sorting/{(i_, s_)}', m.loc(LANG, srt), 'BiCoords.sorting', f'sorting() of (index={i_}, subscript={s_}) is {got}, expected (subscript, index)')

    def mk(spec):
        o = Obj('const', spec=spec)
        o._typ = cls
        return o
    cls = Obj('Constant-class', TYPE=Obj('TYPE', maxi=maxi))
    cls.__class__ = type('C', (Obj,), {'__call__': lambda self, spec: mk(spec)})
    key = lambda s: (s.subscript, s.index)
    allspecs = sorted((Spec(i, s) for i in range(maxi + 1) for s in range(3)), key=key)
    for a, b in zip(allspecs, allspecs[1:]):
        got = it.call(fn, [mk(a)]).spec
        ok = got == b
        rep.instance(R0, ok=ok, nontrivial=tuple(a))
        if not ok:
            rep.finding(R0, f'C06.R0/next/{tuple(a)}', m.loc(LEX, fn), 'CoordsItem.next',
                        f'next of {tuple(a)} is {tuple(got)}, the successor in sort order is {tuple(b)}')


def fold_append(ctx, rep, R):
    """Inductive step: for every pre-state satisfying Inv and every arriving node."""
    m = ctx.m
    fn = m.func(COMMON, 'Branch.append')
    rep.consult(m.loc(COMMON, fn) + ' Branch.append')
    classes = node_classes(m)
    keys = Obj('Key', sentence='sentence', world='world', world1='world1', world2='world2')
    NodeC = classes['Node']
    NodeC.Key = keys
    NodeC.for_mapping = staticmethod(lambda mp: mp)
    g = dict(classes)
    g['Node'] = NodeC
    g['Emsg'] = Obj('Emsg', IllegalState=lambda *a: Exception('IllegalState'))
    BranchNS = Obj('Branch', Events=Obj('Events', AFTER_ADD='AFTER_ADD', AFTER_CLOSE='AFTER_CLOSE'))
    g['Branch'] = BranchNS
    it = Interp(g, where='proof/common.py Branch.append', modtree=m.trees[COMMON])
    U = range(5 if rep.tier == 'thorough' else 4)       # thorough: a 5-element universe of constants/worlds
    n = 0
    problems = collections.OrderedDict()

    def states(universe, first):
        for r in range(len(universe) + 1):
            for have in itertools.combinations(universe, r):
                lo = (max(have) + 1) if have else first
                for mark in range(lo, len(universe) + 1):
                    yield frozenset(have), mark

    def mknode(consts, worlds):
        if consts is not None:
            nd = classes['SentenceWorldNode' if worlds else 'SentenceNode']()
            nd['sentence'] = MockSentence(K(c) for c in consts)
            if worlds:
                nd['world'] = worlds[0]
        elif len(worlds) == 2:
            nd = classes['AccessNode']()
            nd['world1'], nd['world2'] = worlds
        else:
            nd = classes['WorldNode']()
            nd['world'] = worlds[0]
        return nd
    arriving = []
    for r in range(0, 3):
        for cs in itertools.combinations(U, r):
            arriving.append((cs, ()))
    for w in U:
        arriving.append(((), (w,)))
        arriving.append((None, (w,)))
    for w1, w2 in itertools.product(U, repeat=2):
        arriving.append((None, (w1, w2)))
    for (chave, cmark), (whave, wmark) in itertools.product(list(states(U, 0)), [(frozenset(), 0), (frozenset({0}), 1), (frozenset({0, 2}), 3), (frozenset({1}), 3)]):
        for consts, worlds in arriving:
            n += 1
            events = []
            br = make_self(m, it, ClassRef(COMMON, 'Branch'), closed=False, _nodes=[], _constants={K(c) for c in chave}, _worlds=set(whave),
                           _nextconst=K(cmark), _nextworld=wmark, emit=None, at_emit=None,
                           _index=Obj('index', add=lambda node: events.append('index')))

            def emit(ev, *a, br=br):
                events.append(ev)
                if ev == 'AFTER_ADD':
                    br.at_emit = (set(br._constants), br._nextconst, set(br._worlds), br._nextworld, list(br._nodes))
            br.emit = emit
            nd = mknode(consts, worlds)
            try:
                it.call(fn, [br, nd])
            except Raised as e:
                problems.setdefault(f'raises {e.text}', (chave, cmark, consts, worlds))
                continue
            cs = set(consts or ())
            ws = set(worlds)
            post_ok = (all(c < br._nextconst for c in br._constants) and all(w < br._nextworld for w in br._worlds))
            if not post_ok:
                what = 'constant' if not all(c < br._nextconst for c in br._constants) else 'world'
                problems.setdefault(f'{what} mark not above everything on the branch',
                                    dict(constants=sorted(chave), nextconst=cmark, worlds=sorted(whave), nextworld=wmark,
                                         arriving_constants=sorted(cs), arriving_worlds=sorted(ws),
                                         post_nextconst=int(br._nextconst), post_nextworld=br._nextworld))
            if not ({K(c) for c in chave} | {K(c) for c in cs} <= br._constants and set(whave) | ws <= br._worlds):
                problems.setdefault('arriving constants/worlds not recorded on the branch', (sorted(cs), sorted(ws)))
            if br._nodes != [nd]:
                problems.setdefault('node not appended exactly once', None)
            if 'AFTER_ADD' not in events or events.index('index') > events.index('AFTER_ADD'):
                problems.setdefault('AFTER_ADD emitted before the index is updated (or not at all)', events)
            elif getattr(br, 'at_emit', None) != (set(br._constants), br._nextconst, set(br._worlds), br._nextworld, list(br._nodes)):
                problems.setdefault('marks/sets updated after AFTER_ADD was emitted', None)
    return n, problems, fn


def r1(ctx, rep):
    m = ctx.m
    R1 = rep.rule('C06.R1', 'inductive invariant of Branch.append (folded): all constants/worlds on the branch stay below '
                            'the marks, arriving items are recorded, all before AFTER_ADD')
    n, problems, fn = fold_append(ctx, rep, R1)
    for i in range(n - len(problems)):
        rep.instance(R1, ok=True, nontrivial=('pre-state', i) if i < 50 else None)
    for p, ex in problems.items():
        rep.instance(R1, ok=False, nontrivial=p)
        rep.finding(R1, f'C06.R1/Branch.append/{p}', m.loc(COMMON, fn), 'Branch.append',
                    f'{p}; example pre-state/arrival: {ex}')
    rep.floor('C06.R1', 'pre-state x arrival cases', n, 4000)
    ok = closed_guard_ok(ctx)
    rep.instance(R1, ok=ok, nontrivial='closed-guard')
    if not ok:
        rep.finding(R1, 'C06.R1/Branch.append/closed-guard', m.loc(COMMON, fn), 'Branch.append', 'does not refuse a closed branch before changing anything')


def closed_guard_ok(ctx):
    "Branch.append folded on a closed branch: it raises and leaves every container as it was (shared with C16.R3)"
    m = ctx.m
    fn = m.func(COMMON, 'Branch.append')
    it = Interp(dict(Emsg=Obj('Emsg', IllegalState=lambda *a: Exception('IllegalState')), Node=Obj('Node', Key=Obj('Key', sentence='sentence', world='world', world1='world1', world2='world2'),
                                                                                           for_mapping=lambda mp: mp),
                     Branch=Obj('Branch', Events=Obj('Events', AFTER_ADD='AFTER_ADD'))), where='proof/common.py Branch.append', modtree=m.trees[COMMON])
    log = []
    br = make_self(m, it, ClassRef(COMMON, 'Branch'), closed=True, _nodes=[], _constants=set(), _worlds=set(), _nextconst=K(0), _nextworld=0,
                   emit=lambda *a: log.append('emit'), _index=Obj('index', add=lambda node: log.append('index')))
    try:
        it.call(fn, [br, {'sentence': MockSentence([K(0)]), 'world': 0}])
        raised = False
    except (Raised, Exception):
        raised = True
    return raised and not log and br._nodes == [] and not br._constants and not br._worlds and br._nextworld == 0


def r2(ctx, rep):
    m = ctx.m
    R2 = rep.rule('C06.R2', 'marks and sets are written only in Branch.__init__/copy/append; new_constant/new_world return the marks')
    n = 0
    # (private helper methods of Branch called only from the owners count as part of them)
    OWN = astq.helper_closure(m, COMMON, 'Branch', OWNERS)
    for attr in PRIVATE:
        for mod, qn, fn, t, st in astq.attr_stores(m, attr):
            n += 1
            ok = mod == COMMON and qn in OWN
            rep.instance(R2, ok=ok, nontrivial=(attr, qn))
            if not ok:
                rep.finding(R2, f'C06.R2/write/{attr}/{mod}:{qn}', m.loc(mod, st), qn, f'`{astq.u(st)}` writes Branch.{attr} outside __init__/copy/append')
        for mod, qn, fn, c in astq.method_calls_on_attr(m, attr, ('add', 'update', 'discard', 'remove', 'clear', 'pop', 'difference_update', 'intersection_update')):
            n += 1
            ok = mod == COMMON and qn in OWN
            rep.instance(R2, ok=ok, nontrivial=(attr, qn, 'call'))
            if not ok:
                rep.finding(R2, f'C06.R2/mutate/{attr}/{mod}:{qn}', m.loc(mod, c), qn, f'`{astq.u(c)}` mutates Branch.{attr} outside __init__/copy/append')
    rep.floor('C06.R2', 'writes to marks/sets', n, 10)
    itn = Interp({}, where='proof/common.py Branch accessors')
    for name, attr in (('new_constant', '_nextconst'), ('new_world', '_nextworld')):
        fn = m.func(COMMON, f'Branch.{name}')
        rep.consult(m.loc(COMMON, fn) + f' Branch.{name}')
        markc = K(3)
        b_ = Obj('branch', _nextconst=markc, _nextworld=7)
        r = itn.safe(fn, [b_])
        ok = (r is markc if attr == '_nextconst' else r == 7) and b_._nextconst is markc and b_._nextworld == 7
        rep.instance(R2, ok=ok, nontrivial=name)
        if not ok:
            rep.finding(R2, f'C06.R2/{name}', m.loc(COMMON, fn), f'Branch.{name}', f'returns {r!r}, not the mark self.{attr} unmodified')
    # Branch.__init__ folded: first constant, world 0, empty own sets
    init = m.func(COMMON, 'Branch.__init__')
    rep.consult(m.loc(COMMON, init) + ' Branch.__init__')
    FIRST = Obj('FIRST-CONSTANT')
    iti = Interp(dict(EventEmitter=Obj('EventEmitter', __init__=lambda *a: None), Branch=Obj('Branch', Events=()), qset=list, SetView=lambda b_: ('view', id(b_)),
                      Constant=Obj('Constant', first=lambda: FIRST)), where='proof/common.py Branch.__init__', modtree=m.trees[COMMON])
    b0 = Obj('branch', INDEX_KEYS=(), Index=lambda keys: {})
    r = iti.safe(init, [b0])
    ok = getattr(b0, '_nextworld', None) == 0 and getattr(b0, '_nextconst', None) is FIRST and getattr(b0, '_constants', None) == set() and getattr(b0, '_worlds', None) == set() \
        and getattr(b0, '_constants', 1) is not getattr(b0, '_worlds', 2)
    rep.instance(R2, ok=ok, nontrivial='init')
    if not ok:
        rep.finding(R2, 'C06.R2/Branch.__init__', m.loc(COMMON, init), 'Branch.__init__',
                    f'initial marks/sets are {getattr(b0, "_nextconst", None)!r}, {getattr(b0, "_nextworld", None)!r}, {getattr(b0, "_constants", None)!r}, {getattr(b0, "_worlds", None)!r} '
                    f'(expected the first constant, world 0, two empty sets); {r!r}')


class Copyable:
    def __init__(self, name, data):
        self.name, self.data, self.copied_from = name, data, None

    def copy(self, **kw):
        c = Copyable(self.name, type(self.data)(self.data) if self.data is not None else None)
        c.copied_from = self
        return c


def r3(ctx, rep):
    m = ctx.m
    R3 = rep.rule('C06.R3', 'Branch.copy (folded) gives the copy its own containers, equal scalars and views over its own sets')
    fn = m.func(COMMON, 'Branch.copy')
    rep.consult(m.loc(COMMON, fn) + ' Branch.copy')
    views = []

    def SetView(base):
        v = Obj('SetView', base=base)
        views.append(v)
        return v
    it = Interp(dict(SetView=SetView), where='proof/common.py Branch.copy')
    src = Obj('branch')
    fields = ('_nodes', '_ticked', '_index', '_worlds', '_constants')
    for f in fields:
        setattr(src, f, Copyable(f, [1, 2]))
    src.events = Copyable('events', None)
    src._nextworld, src._nextconst = 3, K(2)
    src._model = 'MODEL'
    made = []
    clsobj = Obj('Branch-class')
    clsobj.__dict__['__new__'] = lambda c: (made.append(Obj('copy')) or made[-1])
    src._typ = clsobj
    try:
        out = it.call(fn, [src], dict(parent=src))
    except Raised as e:
        raise AnalysisError(f'Branch.copy fold: {e.text}')
    probs = []
    for f in fields:
        v = getattr(out, f, None)
        if not isinstance(v, Copyable) or v is getattr(src, f) or v.copied_from is not getattr(src, f):
            probs.append(f'{f} is shared with (or not copied from) the original')
    if getattr(out, '_nextworld', None) != 3 or getattr(out, '_nextconst', None) != K(2):
        probs.append('marks not carried over by value')
    if getattr(out, 'parent', None) is not src:
        probs.append('parent not set')
    w, c = getattr(out, 'worlds', None), getattr(out, 'constants', None)
    if not (isinstance(w, Obj) and getattr(w, 'base', None) is getattr(out, '_worlds', 0)):
        probs.append('`worlds` view is not over the copy\'s own set')
    if not (isinstance(c, Obj) and getattr(c, 'base', None) is getattr(out, '_constants', 0)):
        probs.append('`constants` view is not over the copy\'s own set')
    rep.instance(R3, ok=not probs, nontrivial='copy')
    for p in probs:
        rep.finding(R3, f'C06.R3/Branch.copy/{p}', m.loc(COMMON, fn), 'Branch.copy', p)
    # every slot of Branch that is a mutable container is handled by copy()
    slots = m.getattr(ClassRef(COMMON, 'Branch'), '__slots__')
    # (what the folded copy() actually set on the new object -- whatever the local is called)
    handled = set(vars(out)) if hasattr(out, '__dict__') else set()
    missing = [s for s in (slots or ()) if s not in handled and s not in ('_origin', '_parent', '_model')]
    rep.instance(R3, ok=not missing, nontrivial='slots')
    for s in missing:
        rep.finding(R3, f'C06.R3/Branch.copy/slot/{s}', m.loc(COMMON, fn), 'Branch.copy', f'slot {s} is not set on the copy')


def r5(ctx, rep):
    m = ctx.m
    R5 = rep.rule('C06.R5', 'every witness in every rule schema is branch.new_constant()/new_world() of the target branch; '
                            'instances over existing items range over every constant / every visible world')
    n = 0
    seen = set()
    for s in common.slots(ctx):
        if s.sch is None or s.rc in seen:
            continue
        seen.add(s.rc)
        kinds = set()
        worlds = set()
        for br in s.sch.branches:
            for it in br:
                if it.kind == 'sent':
                    kinds |= const_kinds(it.s)
                    worlds.add(it.w)
                else:
                    worlds |= {it.w1, it.w2}
        if not kinds and worlds <= {W_NODE, None}:
            continue
        n += 1
        bad = [k for k in kinds if k not in (C_FRESH, C_ANY)] + [w for w in worlds if w not in (W_NODE, W_FRESH, W_EACH, None)]
        rep.instance(R5, ok=not bad, sample=dict(rule=s.rc.short, schema=s.sch.show()), nontrivial=s.rc.short)
        rep.consult(m.floc(s.sch.fn))
        for k in bad:
            rep.finding(R5, f'C06.R5/{s.rc.short}/{k}', m.floc(s.sch.fn), s.rc.short,
                        f'rule instantiates with {k}, which is neither a fresh item of the target branch nor "every existing item"')
    # the serial rule
    for lg in ctx.lgs:
        for gi, rc in lg.all_group_rules():
            if rc in seen:
                continue
            from .. import frames
            if frames.access_base(m, rc) == 'access.Serial':
                seen.add(rc)
                sch = ctx.ex.extract(rc)
                it = sch.branches[0][0]
                ok = it.kind == 'access' and it.w2 == W_FRESH
                n += 1
                rep.instance(R5, ok=ok, nontrivial=rc.short)
                if not ok:
                    rep.finding(R5, f'C06.R5/{rc.short}/serial', m.floc(sch.fn), rc.short, 'serial successor is not branch.new_world()')
    rep.floor('C06.R5', 'witness/instance rule classes', n, 35)


def r6(ctx, rep):
    """Which rules *are* witness rules is a semantic matter: a quantifier / modal slot whose schema only instantiates
    existing items must be sound under that reading; where it is not, the node's truth condition needs a witness and
    the rule has to take branch.new_constant() / new_world()."""
    m = ctx.m
    R6 = rep.rule('C06.R6', 'every quantifier / modal slot whose truth condition calls for a witness (instantiating existing items alone '
                            'is unsound over the logic\'s extracted semantics) has a fresh item in its schema')
    n = nw = 0
    for s in common.slots(ctx):
        if s.kind not in ('quantifier', 'modal') or s.sch is None:
            continue
        kinds, worlds = set(), set()
        for br in s.sch.branches:
            for it in br:
                if it.kind == 'sent':
                    kinds |= const_kinds(it.s)
                    worlds.add(it.w)
                else:
                    worlds |= {it.w1, it.w2}
        fresh = C_FRESH in kinds or W_FRESH in worlds
        existing = C_ANY in kinds or W_EACH in worlds
        n += 1
        nw += fresh
        # valuations holding both N and B are left to C01/C03/C04: there the FDE-family rules fail for another
        # reason (finding F6, the value order on N/B), which says nothing about witnesses
        unsound = [v for d, v in s.fails if d == 'unsound' and not ('N' in str(v) and 'B' in str(v))]
        ok = fresh or not (existing and unsound)
        rep.instance(R6, ok=ok, nontrivial=(s.lg.name, s.rc.name, 'fresh' if fresh else 'existing' if existing else 'plain'))
        if not ok:
            rep.finding(R6, f'C06.R6/{s.lg.name}/{s.rc.name}', m.floc(s.sch.fn), f'{s.lg.name}:{s.rc.short}',
                        f'rule {s.rc.name} of {s.lg.name} instantiates only items already on the branch [{s.sch.show()}], but the node can be '
                        f'satisfied with no existing instance satisfying the extension (e.g. valuation {unsound[0]}): it is a witness rule and '
                        f'must use a fresh item')
    rep.floor('C06.R6', 'quantifier/modal slots', n, 700)
    rep.floor('C06.R6', 'witness slots (fresh item in schema)', nw, 350)


def r7(ctx, rep):
    """Branch.append takes mappings as well as nodes: Node.for_mapping picks the node class, and append records constants
    for SentenceNode instances and worlds for Modal instances.  Folded over every well-formed node mapping with falsy values
    included (world 0, designated False): the class picked carries the markers of exactly the keys present."""
    from ..closure import node_classes
    from ..minieval import Interp, Obj, Raised
    m = ctx.m
    R7 = rep.rule('C06.R7', 'node class dispatch (Node.for_mapping folded): a mapping with a sentence becomes a SentenceNode, with a world or a world pair a Modal '
                            'node, with a designation a Designation node -- for every value of those keys, world 0 and designated False included; so what '
                            'Branch.append records for a mapping is what it records for the node')
    fn = m.func(COMMON, 'Node.for_mapping')
    rep.consult(m.loc(COMMON, fn) + ' Node.for_mapping')
    NC = node_classes(m)
    for extra in ('UnknownNode', 'EllipsisNode'):
        NC.setdefault(extra, type(extra, (NC['Node'],), {}))
    keys = Obj('Key', flag='flag', world='world', world1='world1', world2='world2', sentence='sentence', designation='designated', designated='designated', ellipsis='ellipsis')
    NodeM = Obj('Node', Key=keys, PropMap=Obj('PropMap', Closure={'flag': 'closure', 'is_flag': True}, QuitFlag={'flag': 'quit', 'is_flag': True}))

    def ctor(cls):
        def make(mapping):
            n_ = cls()
            n_.update(mapping)
            return n_
        return make
    g = {name: ctor(c) for name, c in NC.items() if name not in ('Node', 'Modal', 'Designation')}
    g['Node'] = NodeM
    it = Interp(g, where='proof/common.py Node.for_mapping')
    cases = []
    for s_ in (None, 'S'):
        for d_ in (None, True, False):
            for w_ in (None, 0, 2):
                mp = {k: v for k, v in (('sentence', s_), ('designated', d_), ('world', w_)) if v is not None}
                if s_ is None and d_ is not None and w_ is not None:
                    continue        # no node class of the library has a designation and a world without a sentence
                cases.append(mp)
    cases += [{'world1': a, 'world2': b} for a in (0, 1) for b in (0, 1)]
    cases += [{'flag': 'closure', 'is_flag': True}, {'flag': 'quit', 'is_flag': True}, {'flag': 'other', 'is_flag': True}, {'ellipsis': True}]
    n = 0
    for mp in cases:
        n += 1
        try:
            r = it.call(fn, [dict(mp)])
            err = None
        except Raised as e:
            r, err = None, e.text
        except (TypeError, KeyError, AttributeError) as e:
            r, err = None, f'{type(e).__name__}: {e}'
        want = dict(SentenceNode='sentence' in mp, Modal='world' in mp or 'world1' in mp, Designation='designated' in mp,
                    FlagNode='flag' in mp, ClosureNode=mp.get('flag') == 'closure', QuitFlagNode=mp.get('flag') == 'quit', AccessNode='world1' in mp)
        got = {k: isinstance(r, NC[k]) for k in want} if r is not None else None
        ok = err is None and got == want and dict(r) == mp
        rep.instance(R7, ok=ok, nontrivial=str(mp))
        if not ok:
            diff = {k: (got[k], want[k]) for k in want if got and got[k] != want[k]}
            rep.finding(R7, f'C06.R7/for_mapping/{sorted(mp.items())}', m.loc(COMMON, fn), 'Node.for_mapping',
                        f'the mapping {mp} becomes a {type(r).__name__ if r is not None else err}: markers (got, expected) {diff} -- Branch.append then does not '
                        f'record its {"world" if "Modal" in diff else "sentence constants" if "SentenceNode" in diff else "kind"}, and the branch offers it again as new')
    rep.floor('C06.R7', 'mappings', n, 20)


def r8(ctx, rep):
    """The serial rule's witness, decided on the code: access.Serial._get_targets folded over every (unserial, populated, history,
    limit) state -- the successor it offers is branch.new_world() of the target branch (helpersfold.fold_serial_rule, shared with
    C04.R7).  Runs before the schema rules: it is decisive on its own."""
    R8 = rep.rule('C06.R8', 'the serial rule takes its successor world from branch.new_world() of the branch it extends, in every state of the branch '
                            '(access.Serial._get_targets folded)')
    n = common.bookkeeping(ctx, rep, R8, 'C06.R8', only=('fold_serial_rule',))
    rep.floor('C06.R8', 'serial rule states', n, 50)


def r9(ctx, rep):
    """Branch.append learns a sentence's constants from `Sentence.constants`.  That this is exactly the set of constants
    occurring in the sentence -- for every sentence class, operands without any constant included -- is the derived-attribute
    matrix of C15.R2, imported for the `constants` attribute."""
    from ..core import Report
    from . import c15
    R9 = rep.rule('C06.R9', 'what the branch records is what occurs: `constants` of every sentence class is the union of its parts\' constants (the C15.R2 folds, '
                            'operands without parameters included) -- a constant hidden from this attribute is offered again as new')
    sub = Report('C15', rep.tier, rep.repo)
    c15.run(ctx, sub)
    n = 0
    for f in sub.findings:
        if f.rule == 'C15.R2' and '.constants' in f.key:
            n += 1
            rep.instance(R9, ok=False, nontrivial=f.key)
            rep.finding(R9, f.key.replace('C15.', 'C06.R9/C15.', 1), f.where, f.construct, f.msg)
    for _ in range(max(0, sub.rules.get('C15.R2', {}).get('instances', 0) // 6 - n)):
        rep.instance(R9, ok=True)
    rep.consulted |= sub.consulted
