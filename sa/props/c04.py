"""C04 -- every single expansion step preserves satisfiability exactly."""
from __future__ import annotations

import ast

from .. import astq, frames, glue, trunk
from ..core import AnalysisError
from ..schema import W_EACH, W_FRESH, W_NODE
from . import common

LEVEL = 'other'
EXPLANATION = (
    'Static analysis (table extraction + table agreement). For every logic and every rule slot of Rules.groups the rule\'s schema is extracted from the source by partial evaluation over a symbolic node and checked, under the logic\'s own extracted truth tables / designated set / quantifier and modal generalisers, for "node satisfiable <=> some extension satisfiable" on every valuation (V^arity for operators, every non-empty set of instance values for quantifiers, every set of accessible-world values incl. the empty one for modal rules). Also: the glue the extraction relies on (node builders, node filters), shape exhaustiveness, world discipline and agreement of frame rules, Access.enforce and the frame named by the logic. Decides these clauses, not the behaviour of any particular proof run. (R7) the helper listeners and the Serial rule\'s target set that decide what a rule is still to be applied to are folded as inductive steps. (R8) the witness clause: fresh-mark invariants and witness slots of C06 (R0-R3, R6) imported. Skip guards of the form branch.has(x) are validated (x must be a node the rule goes on to add); a slot with another kind of skip is reported as skipped. R6 also folds the access rules on concrete relations over three worlds: each yields exactly the missing instances of its clause.')
TRUSTED = ['CPython ast', 'sa.model C3/MRO resolver', 'sa.logics re-implementation of RuleNameAttrInducer (guarded)',
           'sa.tables Mval arithmetic/comparison model', 'contracts of maxceil/minfloor/reduce',
           'set-of-values abstraction of quantifier/modal semantics (re-proved per run by the ACI check)']
ASSUMPTIONS = ['rule classes are not rewired dynamically beyond the two declared closures in logics/__init__.py',
               'FilterHelper.node_targets iterates exactly the nodes that pass the merged NodeFilters (checked: filters; '
               'not checked: the event plumbing that fills the cache)']


def run(ctx, rep):
    m, lgs = ctx.m, ctx.lgs
    common.check_floors(ctx, rep, 'C04')
    r0(ctx, rep)
    R1 = rep.rule('C04.R1', 'operator rules exact on every valuation in V^arity under the logic\'s own tables')
    R2 = rep.rule('C04.R2', 'quantifier rules exact on every non-empty set of instance values')
    R3 = rep.rule('C04.R3', 'modal rules exact on every set of accessible-world values (empty included)')
    counts = common.exactness(ctx, rep, 'C04', ('unsound', 'incomplete'),
                              rids=dict(operator=R1, quantifier=R2, modal=R3))
    rep.floor('C04.R1', 'operator rule slots', counts['operator'], common.FLOOR_OPERATOR_SLOTS)
    rep.floor('C04.R2', 'quantifier rule slots', counts['quantifier'], common.FLOOR_QUANTIFIER_SLOTS)
    rep.floor('C04.R3', 'modal rule slots', counts['modal'], common.FLOOR_MODAL_SLOTS)
    for lg in lgs:
        for x in ctx.sem(lg).consulted:
            rep.consult(x)
    r4(ctx, rep)
    r5(ctx, rep)
    r6(ctx, rep)
    r7(ctx, rep)
    r8(ctx, rep)


# ---------------------------------------------------------------------------
def r0(ctx, rep):
    m = ctx.m
    R = rep.rule('C04.R0', 'the glue is what the extractor assumes: builders, sentence/designation filters, '
                           'filter presence per rule class, delegation of the decorated _get_targets')
    for fn, label in ((glue.check_builders, 'builder'), (glue.check_sentence_filter, 'NodeSentence'),
                      (glue.check_designation_filter, 'NodeDesignation')):
        res, consulted = fn(m)
        rep.consult(*consulted)
        for ok, case, got, want in res:
            rep.instance(R, ok=ok, sample=dict(case=case, got=str(got)), nontrivial=('glue', case))
            if not ok:
                rep.finding(R, f'C04.R0/{label}/{case}', consulted[0], label,
                            f'{case}: folded definition gives {got}, the rule schemas assume {want}')
    ok, where = glue.sentence_delegation_ok(m)
    rep.instance(R, ok=ok, nontrivial=('glue', 'BaseSentenceRule.sentence'))
    if not ok:
        rep.finding(R, 'C04.R0/BaseSentenceRule.sentence', where, 'BaseSentenceRule.sentence',
                    'does not delegate to the NodeSentence filter\'s sentence(node)')
    # every operator/quantifier rule class carries NodeSentence + NodeDesignation (+ NodeType)
    need = {'NodeSentence', 'NodeDesignation'}
    seen = set()
    for s in common.slots(ctx):
        if s.kind is None or s.rc in seen:
            continue
        seen.add(s.rc)
        have = {f.name for f in glue.merged_filters(m, s.rc)}
        ok = need <= have
        rep.instance(R, ok=ok, nontrivial=('filters', s.rc.short))
        if not ok:
            rep.finding(R, f'C04.R0/filters/{s.rc.short}', m.loc(s.rc.module, m.clsdef(s.rc)), s.rc.short,
                        f'rule class lacks node filters {sorted(need - have)}: it would be applied to nodes of another shape')
        # ignore_ticked must be on for ticking rules (a ticked node is never expanded twice)
    rep.floor('C04.R0', 'rule classes with filters', len(seen), 210)
    # the plumbing wrappers the extractor skips only delegate (folded with a stub delegate; the fat-quantifier loop is C04.R7)
    from .. import helpersfold
    res, cons = helpersfold.fold_delegation(m)
    rep.consult(*cons)
    for ok, case, detail in res:
        rep.instance(R, ok=ok, nontrivial=('delegation', case))
        if not ok:
            rep.finding(R, f'C04.R0/delegation/{case}', cons[0].split(' ')[0] if cons else 'pytableaux/proof/rules.py', case, detail)


# ---------------------------------------------------------------------------
def designation_family(ctx, lg):
    owner, fn, nodes = trunk.trunk_of(ctx.m, lg.systemcls, lg.modal)
    fam = trunk.classify(nodes, lg.modal)
    if fam is None:
        # malformed trunk: reported by C01.R2; here only the node kind matters
        fam = 'designation' if any(d is not None for _, d, _ in nodes) else 'negation'
    return fam


def r4(ctx, rep):
    R = rep.rule('C04.R4', 'every compound shape (operator|quantifier|modal x negated x designation) the logic '
                           'interprets is matched by a rule in Rules.groups')
    lex = ctx.lgs.lex
    n = 0
    for lg in ctx.lgs:
        des = [True, False] if designation_family(ctx, lg) == 'designation' else [None]
        have = {}
        for gi, rc in lg.all_group_rules():
            a = ctx.lgs.rule_attrs(rc)
            have.setdefault(a.shape(), []).append(rc)
        needshapes = []
        for op in lex.truth_functional:
            if op == 'Negation':
                needshapes += [('Negation', True, d) for d in des]
            else:
                needshapes += [(op, ng, d) for ng in (False, True) for d in des]
        if lg.quantified:
            needshapes += [(q, ng, d) for q in lex.quantifiers for ng in (False, True) for d in des]
        if lg.modal:
            needshapes += [(o, ng, d) for o in lex.modal_operators for ng in (False, True) for d in des]
        for sh in needshapes:
            ok = bool(have.get(sh))
            n += 1
            rep.instance(R, ok=ok, sample=dict(logic=lg.name, shape=list(sh)), nontrivial=(lg.name, sh))
            if not ok:
                rep.finding(R, f'C04.R4/{lg.name}/{sh[0]}/{"negated" if sh[1] else "plain"}/{sh[2]}',
                            ctx.m.relfile(lg.module), f'{lg.name}.Rules.groups',
                            f'no rule in {lg.name}.Rules.groups expands nodes of shape '
                            f'{"~" if sh[1] else ""}{sh[0]} designation={sh[2]}')
        # a rule whose designation does not fit the system can never fire / fires on the wrong nodes
        for sh, rcs in have.items():
            if sh[0] is None:
                continue
            if sh[2] not in des:
                for rc in rcs:
                    rep.finding(R, f'C04.R4/{lg.name}/{rc.name}/designation-mismatch',
                                ctx.m.loc(rc.module, ctx.m.clsdef(rc)), f'{lg.name}:{rc.short}',
                                f'rule designation {sh[2]} does not fit the {lg.name} system (expects {des})')
    rep.floor('C04.R4', 'shapes', n, 1500)


def r5(ctx, rep):
    R = rep.rule('C04.R5', 'expansions stay at the node\'s own world unless the operator is modal; witness worlds '
                           'come with their access pair')
    n = 0
    for s in common.slots(ctx):
        if s.kind is None:
            continue
        n += 1
        probs = []
        for br in s.sch.branches:
            sent = [it for it in br if it.kind == 'sent']
            acc = [it for it in br if it.kind == 'access']
            for it in sent:
                if s.kind != 'modal':
                    if it.w != W_NODE and not (it.w is None and not s.lg.modal):
                        probs.append(f'item {it} of a non-modal rule is not at the node\'s world')
                else:
                    if it.w not in (W_NODE, W_FRESH, W_EACH):
                        probs.append(f'item {it} at an unrecognised world')
            if s.kind != 'modal' and acc:
                probs.append('a non-modal rule adds an access pair')
            if s.kind == 'modal':
                fresh = [it for it in sent if it.w == W_FRESH]
                if fresh and not any(a.w1 == W_NODE and a.w2 == W_FRESH for a in acc):
                    probs.append('witness world introduced without the access pair <w, w*>')
                for a in acc:
                    if (a.w1, a.w2) != (W_NODE, W_FRESH):
                        probs.append(f'unexpected access pair {a}')
        rep.instance(R, ok=not probs, nontrivial=(s.lg.name, s.rc.name))
        for p in probs:
            rep.finding(R, f'C04.R5/{s.lg.name}/{s.rc.name}', ctx.m.floc(s.sch.fn), f'{s.lg.name}:{s.rc.short}', p)
    rep.floor('C04.R5', 'slots', n, 2300)


def r6(ctx, rep):
    R = rep.rule('C04.R6', 'frame rules in Rules.groups, Horn clauses of Model.Access.enforce and the frame named '
                           'by the logic are the same frame condition')
    m = ctx.m
    for ok, what, where in frames.helper_semantics_ok(m):
        rep.instance(R, ok=ok, nontrivial=('helper', what))
        rep.consult(f'{where} {what}')
        if not ok:
            rep.finding(R, f'C04.R6/helper/{what}', where, what,
                        'helper no longer computes what the frame-rule schemas rely on')
    # the access rules folded on concrete branches: each yields exactly the missing instances of its clause, for every node
    res, cons = frames.fold_access_rules(m, deep=rep.tier == 'thorough')
    rep.consult(*cons)
    seen = set()
    for ok, base, case, detail in res:
        rep.instance(R, ok=ok, nontrivial=case)
        if not ok and base not in seen:
            seen.add(base)
            rep.finding(R, f'C04.R6/access.{base}/instances', m.relfile('pytableaux.proof.rules'), f'access.{base}', f'{case}: {detail}')
    rep.floor('C04.R6', 'concrete access-rule cases', len(res), 900)
    n = 0
    for lg in ctx.lgs:
        rs = {}
        for gi, rc in lg.all_group_rules():
            b = frames.access_base(m, rc)
            if b:
                sch = ctx.ex.extract(rc)
                rep.consult(m.floc(sch.fn))
                rs[frames.rule_clause(sch, b)] = rc
                for p_ in sch.problems:
                    key_, msg_ = p_.split('|', 1)
                    rep.instance(R, ok=False, nontrivial=(lg.name, rc.name, key_))
                    rep.finding(R, f'C04.R6/{lg.name}/{rc.name}/skipped/{key_}', m.floc(sch.fn), f'{lg.name}:{rc.short}', f'frame rule {rc.name} of {lg.name}: {msg_}')
        if not lg.modal:
            ok = not rs
            rep.instance(R, ok=ok, nontrivial=(lg.name, 'nonmodal'))
            if not ok:
                rep.finding(R, f'C04.R6/{lg.name}/frame-rule-in-nonmodal', m.relfile(lg.module), lg.name,
                            'non-modal logic has frame rules')
            continue
        n += 1
        exp = frames.expected_frame(lg, ctx.lgs)
        want = frames.FRAME_OF[exp]
        mc, info = frames.enforce_clauses(m, lg.accesscls)
        rep.consult(*info['where'])
        for pr in dict.fromkeys(info['problems']):
            rep.finding(R, f'C04.R6/{lg.name}/model/{pr[:60]}', info['where'][0].split(' ')[0], f'{lg.name}.Model.Access', pr)
        got_r = frozenset(rs)
        ok = got_r == want and mc == want
        rep.instance(R, ok=ok, sample=dict(logic=lg.name, frame=exp, rules=sorted(c[0] for c in got_r),
                                           model=sorted(c[0] for c in mc)), nontrivial=(lg.name, exp))
        if got_r != want:
            rep.finding(R, f'C04.R6/{lg.name}/rules', m.relfile(lg.module), f'{lg.name}.Rules.groups',
                        f'frame rules {sorted(c[0] for c in got_r)} differ from the {exp} frame condition '
                        f'{sorted(c[0] for c in want)}')
        if mc != want:
            rep.finding(R, f'C04.R6/{lg.name}/model', info['where'][0], f'{lg.name}.Model.Access',
                        f'Access.enforce yields {sorted(c[0] for c in mc)}, the {exp} frame condition is '
                        f'{sorted(c[0] for c in want)}')
    rep.floor('C04.R6', 'modal logics', n, 42)


def r7(ctx, rep):
    """The helpers that decide *which* nodes / constants / worlds a rule is applied to, folded as inductive steps."""
    from .. import helpersfold
    m = ctx.m
    R = rep.rule('C04.R7', 'applicability bookkeeping folded: candidate set = filter-passing unticked nodes; every tracked universal node '
                           'gets every constant on the branch (its own included), one target per unapplied constant; visible-world index, '
                           'unserial worlds and per-node/world counters record exactly what happened')
    common.bookkeeping(ctx, rep, R, 'C04.R7')


def r8(ctx, rep):
    """The witness clause: an expansion that introduces a constant or a world is exact only with a *fresh* one.  The schemas of
    R2/R3 take the witness from Branch.new_constant() / new_world(); that these are fresh is C06 (marks above everything on the
    branch for every arrival order; witness slots filled from the fresh marks), imported here."""
    from ..core import Report
    from . import c06
    R8 = rep.rule('C04.R8', 'the witness of an existential-type / possibility-type expansion is fresh: Branch.append keeps the constant and world marks above '
                            'everything on the branch for every arrival order and fork, and every witness slot of a rule schema is filled from them (C06.R0-R3, R6)')
    sub = Report('C06', rep.tier, rep.repo)
    c06.run(ctx, sub)
    rules = ('C06.R0', 'C06.R1', 'C06.R2', 'C06.R3', 'C06.R6')
    for rid in rules:
        for _ in range(sub.rules.get(rid, {}).get('instances', 0)):
            rep.instance(R8, ok=True)
    rep.consulted |= sub.consulted
    for f in sub.findings:
        if f.rule in rules:
            rep.rules[R8]['failed'] += 1
            rep.discharged -= 1
            rep.finding(R8, f.key.replace('C06.', 'C04.R8/C06.', 1), f.where, f.construct, f.msg)
