"""C03 -- propositional arguments are decided exactly, without limits."""
from __future__ import annotations

import ast

from .. import astq
from ..core import AnalysisError, Report
from ..schema import Op
from . import common
from .c04 import designation_family

LEVEL = 'other'
EXPLANATION = (
    "Static analysis. On the truth-functional fragment: (R1) every operator rule is exact on all of V^arity under the logic's own tables (C04.R1, both directions) and every operator shape has a rule (C04.R4); (R2) closure is exact on literal sets (C05); (R3) local-expansion termination: for every logic and every shape op(A,B) (negated or not, each designation) the abstract expansion with opaque operands, using the extracted schemas, reaches only A, ~A, B, ~B in bounded depth without repeating a (term, designation) on a path, and every operator rule ticks its node -- by induction on sentence size this is termination of the fragment; (R4) quit flags are produced only by the quantifier and modal templates, never by operator rules. The step count of a particular proof is not decided. (R5) FilterNodeCache folded: an unticked filter-passing node stays a candidate. (R6) Rule.target and the group application folded for every value of the search options: a rule with a target is never passed over.")
TRUSTED = ['CPython ast', 'sa.schema / sa.tables extractors']
ASSUMPTIONS = ['FilterHelper drops ticked nodes from the candidate set (ignore_ticked, checked per rule class)']

RULES = 'pytableaux.proof.rules'
HELPERS = 'pytableaux.proof.helpers'
MAXDEPTH = 12


def subst(t, env):
    if t[0] == 'leaf':
        return env[t[1]]
    if t[0] == 'op':
        return ('op', t[1], tuple(subst(x, env) for x in t[2]))
    if t[0] == 'negative':          # Sentence.negative(): strip one negation if present, else negate
        v = subst(t[1], env)
        if v[0] == 'op' and v[1] == 'Negation':
            return v[2][0]
        return ('op', 'Negation', (v,))
    raise AnalysisError(f'term {t!r} in a propositional expansion')


def shape_of(t):
    "(operator, negated, operands) of a compound node sentence; None for literal-level terms"
    if t[0] == 'leaf':
        return None
    op, args = t[1], t[2]
    if op == 'Negation':
        u = args[0]
        if u[0] == 'leaf':
            return None
        if u[1] == 'Negation':
            return ('Negation', True, (u[2][0],))
        return (u[1], True, u[2])
    return (op, False, args)


def run(ctx, rep):
    m, lgs = ctx.m, ctx.lgs
    common.check_floors(ctx, rep, 'C03')
    lex = lgs.lex
    R1 = rep.rule('C03.R1', 'operator rules exact on V^arity (both directions); every truth-functional shape has a rule')
    n = 0
    for s in common.slots(ctx):
        if s.kind != 'operator':
            continue
        n += 1
        rep.instance(R1, ok=not s.fails, nontrivial=(s.lg.name, s.rc.name))
        rep.consult(m.floc(s.sch.fn))
        for d, v in s.fails:
            rep.finding(R1, f'C03.R1/{s.lg.name}/{s.rc.name}/{d}/{v}', m.floc(s.sch.fn), f'{s.lg.name}:{s.rc.short}',
                        f'operator rule {s.rc.name} of {s.lg.name} is {d} at valuation {v} [schema {s.sch.show()}]',
                        logic=s.lg.name, rule=s.rc.name, direction=d, valuation=v)
    rep.floor('C03.R1', 'operator rule slots', n, common.FLOOR_OPERATOR_SLOTS)
    from . import c05
    R2 = rep.rule('C03.R2', 'closure exact on literal sets and literal reading (all of C05)')
    sub = Report('C05', rep.tier, rep.repo)
    c05.run(ctx, sub)
    for _ in range(sum(r['instances'] for r in sub.rules.values())):
        rep.instance(R2, ok=True)
    rep.consulted |= sub.consulted
    for f in sub.findings:
        rep.rules[R2]['failed'] += 1
        rep.discharged -= 1
        rep.finding(R2, f.key.replace('C05.', 'C03.R2/C05.', 1), f.where, f.construct, f.msg)

    R5 = rep.rule('C03.R5', 'every unticked node passing a rule\'s filters stays a candidate of that rule until ticked (FilterNodeCache folded)')
    n = common.bookkeeping(ctx, rep, R5, 'C03.R5', only=('fold_filter_cache',))
    rep.floor('C03.R5', 'filter cache cases', n, 9)
    r6(ctx, rep)

    R3 = rep.rule('C03.R3', 'local-expansion termination of every truth-functional shape with opaque operands; operator rules tick')
    nshape = 0
    for lg in lgs:
        des = [True, False] if designation_family(ctx, lg) == 'designation' else [None]
        byshape = {}
        for gi, rc in lg.all_group_rules():
            a = lgs.rule_attrs(rc)
            if a.operator and a.operator in lex.truth_functional:
                byshape.setdefault(a.shape(), rc)
                sch = ctx.ex.extract(rc)
                if not sch.ticking:
                    rep.finding(R3, f'C03.R3/{lg.name}/{rc.name}/not-ticking', m.relfile(rc.module), f'{lg.name}:{rc.short}',
                                'operator rule does not tick its node: the node stays a candidate forever')
                if m.getattr(rc, 'ignore_ticked') is not True:
                    rep.finding(R3, f'C03.R3/{lg.name}/{rc.name}/ignore_ticked', m.relfile(rc.module), f'{lg.name}:{rc.short}',
                                'operator rule does not ignore ticked nodes')

        def expand(term, d, path, depth):
            sh = shape_of(term)
            if sh is None:
                return None
            key = (term, d)
            if key in path:
                return f'expansion revisits {fmt_t(term)} ({d}) -- a cycle'
            if depth > MAXDEPTH:
                return f'expansion deeper than {MAXDEPTH}'
            op, neg, args = sh
            rc = byshape.get((op, neg, d))
            if rc is None:
                return f'no rule for shape {"~" if neg else ""}{op} designation={d} reached from the expansion'
            sch = ctx.ex.extract(rc)
            leaves = [x[1] for x in sch.subject[2]]
            if len(leaves) != len(args):
                return f'arity mismatch expanding {fmt_t(term)} with {rc.name}'
            env = dict(zip(leaves, args))
            for br in sch.branches:
                for it in br:
                    if it.kind != 'sent':
                        continue
                    r = expand(subst(it.s, env), it.d, path | {key}, depth + 1)
                    if r:
                        return r
            return None
        for op in lex.truth_functional:
            ar = lex.arity[op]
            A, B = ('leaf', 'A'), ('leaf', 'B')
            base = Op(op, *(A, B)[:ar])
            starts = [(Op('Negation', base), True)] if op == 'Negation' else [(base, False), (Op('Negation', base), True)]
            for term, neg in starts:
                for d in des:
                    nshape += 1
                    r = expand(term, d, frozenset(), 0)
                    rep.instance(R3, ok=r is None, sample=dict(logic=lg.name, start=fmt_t(term), designation=d), nontrivial=(lg.name, op, neg, d))
                    if r:
                        rep.finding(R3, f'C03.R3/{lg.name}/{op}/{"negated" if neg else "plain"}/{d}', m.relfile(lg.module),
                                    f'{lg.name}.Rules', f'{fmt_t(term)} designation={d}: {r}')
    rep.floor('C03.R3', 'shapes', nshape, 1400)

    R4 = rep.rule('C03.R4', 'quit-flag nodes are produced only by the quantifier and modal templates')
    allowed = {(RULES, 'NarrowQuantifierRule._get_targets'), (RULES, 'ModalOperatorRule._check_maxworlds'),
               (HELPERS, 'MaxConsts.quit_flag'), (HELPERS, 'MaxWorlds.quit_flag'),
               # generic node factory: builds the node kind its *input mapping* already names
               ('pytableaux.proof.common', 'Node.for_mapping')}
    nq = 0
    for (amod, aqn) in list(allowed):
        # private helpers called only from reviewed sites (of the same module) belong to them
        owners = {q for mo, q in allowed if mo == amod}
        allowed |= {(amod, q) for q in astq.helper_closure(m, amod, aqn.rsplit('.', 1)[0], owners)}
    for mod, qn, fn in astq.iter_functions(m):
        for c in astq.calls(fn, nested=False):
            nm = astq.call_name(c)
            if nm.endswith('.quit_flag') or nm == 'QuitFlagNode' or 'PropMap.QuitFlag' in astq.u(c):
                nq += 1
                ok = (mod, qn) in allowed
                rep.instance(R4, ok=ok, nontrivial=(mod, qn))
                if not ok:
                    rep.finding(R4, f'C03.R4/{mod}:{qn}', m.loc(mod, c), qn, f'`{astq.u(c)[:60]}` produces a quit flag outside the quantifier/modal templates')
    rep.floor('C03.R4', 'quit-flag sites', nq, 4)
    # operator rules resolve _get_targets to the plain filter wrapper (no MaxWorlds/MaxConsts check)
    for lg in lgs:
        for gi, rc in lg.all_group_rules():
            a = lgs.rule_attrs(rc)
            if a.operator and a.operator in lex.truth_functional:
                f, owner = m.method(rc, '_get_targets')
                ok = owner is not None and owner.qualname == 'GetNodeTargetsRule'
                if not ok:
                    rep.instance(R4, ok=False, nontrivial=(lg.name, rc.name))
                    rep.finding(R4, f'C03.R4/{lg.name}/{rc.name}/_get_targets', m.relfile(rc.module), f'{lg.name}:{rc.short}',
                                f'operator rule takes its targets through {owner.short if owner else None}, which may emit limit flags')
    rep.instance(R4, ok=True, nontrivial='operator-_get_targets')


def fmt_t(t):
    from ..schema import fmt
    return fmt(t)


def r6(ctx, rep):
    """The step loop decides only if it finds an applicable rule whenever one exists: Rule.target and the group application
    (Tableau._get_group_application / _select_optim_group_application) folded for every value of the search options (sa.search,
    shared with C09.R2)."""
    from .. import search
    m = ctx.m
    R6 = rep.rule('C03.R6', 'the step loop finds an applicable rule whenever one exists: Rule.target and the group application folded over mock rules/targets '
                            'for every value of is_group_optim / is_rank_optim -- a rule with a target is never passed over, whatever the options')
    n = 0
    for fold in (search.fold_rule_target, search.fold_group_application):
        res, cons = fold(m)
        rep.consult(*cons)
        for ok, case, detail in res:
            n += 1
            rep.instance(R6, ok=ok, nontrivial=(fold.__name__, case))
            if not ok:
                rep.finding(R6, f'C03.R6/{fold.__name__[5:]}/{case}', cons[0].split(' ')[0], fold.__name__[5:], f'{case}: {detail}')
    rep.floor('C03.R6', 'choice cases', n, 15)
