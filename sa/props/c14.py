"""C14 -- lexical items have value semantics (structural clauses)."""
from __future__ import annotations

import ast
import collections
import itertools
import operator as _opr

from .. import astq
from ..core import AnalysisError
from ..minieval import Interp, Obj, Raised, Raises
from ..model import ClassRef

LEVEL = 'other'
EXPLANATION = (
    'Static analysis by folding the definitions that give lexical items their value semantics. (R1) orderitems over all small key pairs; the constructors of Predicated / Quantified / Operated / CoordsItem folded over families of mock components: spec equal <=> sort_tuple equal, key starts with the type rank; the five comparison operators folded from the one wrapper; hashitem depends on the key only; Argument ordering and hash (title excluded). (R2) eq/hash pairing. (R3) immutability decided on the setters: the __setattr__ each lexical class resolves to (tools.NoSetAttr folded) applied in the state after lang.init(). (R4) the construction cache folded over every reachable small state for sizes 0-2. (R5) cache invisibility: metacall.call folded with the spec cached / never cached / evicted, system predicates included. Injectivity of the key on real items and pickling are declined. R3 also drives the setters with underscore names (_value_, _readonly, a private name) and folds the metaclass setters (LangCommonMeta / LangCommonEnumMeta.__setattr__) on the classes themselves: once init() ran, assigning the read-only flag, an existing class attribute or a new one on a lexical class is refused. R5 also drives specs that merely equal a cached int spec (1.0, 1+0j): the outcome must be the same cold and warm (known finding F18). (R6) pickle by reference: a class built inside a function and published as an attribute of another class (Predicate.System) has its __qualname__ folded and compared with the path it is published under; __getnewargs__ returns the spec.')
TRUSTED = ['CPython ast', 'sa.minieval', 'itertools.zip_longest / starmap semantics']
ASSUMPTIONS = ['sort tuples consist of integers (as every constructor in lang/lex.py builds them)']

LEX = 'pytableaux.lang.lex'
LANG = 'pytableaux.lang'
COL = 'pytableaux.lang.collect'


def run(ctx, rep):
    m = ctx.m
    r1(ctx, rep)
    r2(ctx, rep)
    r3(ctx, rep)
    r4(ctx, rep)
    r6(ctx, rep)


def r6(ctx, rep):
    """Pickling stores a class by `module.qualname` and finds it again by attribute lookup.  A class statement at module or class
    level gets the right qualname from the compiler; a class built inside a function and then *published* as an attribute of
    another class (`Predicate.System = SystemPredicate`) is found again only if its `__qualname__` is set to the path it is
    published under.  System predicates carry that class in a slot, so every item containing one pickles through it.
    Also folded: `__getnewargs__` hands `__new__` the item's own spec."""
    m = ctx.m
    R6 = rep.rule('C14.R6', 'pickle by reference: a class defined inside a function and published as an attribute of another class has its __qualname__ '
                            '(and __module__, if assigned) set to the path it is published under; __getnewargs__ returns the spec')
    n = 0
    for mod in (LEX, COL, LANG):
        tree = m.trees[mod]
        toplevel = {st.name for st in ast.walk(tree) if isinstance(st, ast.ClassDef)}
        for qn, fn in astq.all_functions(tree):
            local = [c for st in astq.walk_no_nested(fn) for c in ast.iter_child_nodes(st) if isinstance(c, ast.ClassDef)]
            if not local:
                continue
            encl = qn.split('.<locals>')[0].rsplit('.', 1)[0] if '.' in qn.split('.<locals>')[0] else None
            for lc in local:
                pubs, sets = [], []
                for st in astq.walk_no_nested(fn):
                    if isinstance(st, ast.Assign) and isinstance(st.value, ast.Name) and st.value.id == lc.name:
                        for t in st.targets:
                            if isinstance(t, ast.Attribute) and isinstance(t.value, ast.Name):
                                pubs.append((t.value.id, t.attr, st))
                    if isinstance(st, ast.Call) and isinstance(st.func, ast.Name) and st.func.id == 'setattr' and len(st.args) == 3 and \
                            isinstance(st.args[2], ast.Name) and st.args[2].id == lc.name and isinstance(st.args[0], ast.Name) and \
                            isinstance(st.args[1], ast.Constant):
                        pubs.append((st.args[0].id, st.args[1].value, st))
                    if isinstance(st, ast.Assign) and len(st.targets) == 1 and isinstance(st.targets[0], ast.Attribute) and \
                            isinstance(st.targets[0].value, ast.Name) and st.targets[0].value.id == lc.name and \
                            st.targets[0].attr in ('__qualname__', '__module__', '__name__'):
                        sets.append(st)
                if not pubs:
                    continue
                n += 1
                rep.consult(f'{m.loc(mod, lc)} {qn} class {lc.name}')
                env = {c: Obj(c, __name__=c.rsplit('.', 1)[-1], __qualname__=c, __module__=mod) for c in toplevel}
                if encl:
                    env['cls'] = Obj(encl, __name__=encl.rsplit('.', 1)[-1], __qualname__=encl, __module__=mod)
                env['__name__'] = mod
                # the local class as the compiler leaves it; the assignments to its name attributes are then folded in source order
                me = env[lc.name] = Obj(lc.name, __name__=lc.name, __qualname__=f'{qn}.<locals>.{lc.name}', __module__=mod)
                it = Interp(dict(env), where=f'{mod} {qn}')
                want = set()
                for owner, attr, _st in pubs:
                    o = env.get(owner)
                    if o is not None and o is not me:
                        want.add(f'{o.__qualname__}.{attr}')
                if not want:
                    raise AnalysisError(f'{mod} {qn}: class {lc.name} is published under {[(o_, a_) for o_, a_, _ in pubs]}, owner not resolved')
                last = {}
                for st in sorted(sets, key=lambda x: (x.lineno, x.col_offset)):
                    try:
                        setattr(me, st.targets[0].attr, it.ev(st.value, dict(env)))
                    except Exception as e:
                        raise AnalysisError(f'{mod} {qn}: `{astq.u(st)}` does not fold: {e}')
                    last[st.targets[0].attr] = st
                got = me.__qualname__
                ok = got in want
                rep.instance(R6, ok=ok, nontrivial=(mod, qn, lc.name))
                if not ok:
                    rep.finding(R6, f'C14.R6/{mod}:{qn}/{lc.name}/qualname', m.loc(mod, last.get('__qualname__', lc)), qn,
                                f'class {lc.name} is published as {sorted(want)} but its __qualname__ is {got!r}: pickle looks the class up by that path and '
                                f'fails, so every item that carries the class (a system predicate and any sentence or argument containing one) cannot be pickled')
                okm = me.__module__ == mod
                rep.instance(R6, ok=okm, nontrivial=(mod, qn, lc.name, '__module__'))
                if not okm:
                    rep.finding(R6, f'C14.R6/{mod}:{qn}/{lc.name}/module', m.loc(mod, last.get('__module__', lc)), qn,
                                f'class {lc.name} lives in {mod} but its __module__ is set to {me.__module__!r}')
    gna, owner = m.method(ClassRef(LEX, 'Predicated'), '__getnewargs__')
    if gna is None or not hasattr(gna, 'node'):
        raise AnalysisError('lex.py: no __getnewargs__ reachable from Predicated')
    rep.consult(m.floc(gna) + f' {gna.qualname}')
    itg = Interp({}, where='__getnewargs__')
    spec = ('SPEC', 1)
    r = itg.safe(gna.node, [Obj('item', spec=spec, ident=('Cls', spec), sort_tuple=(9, 9))])
    ok = r == spec
    rep.instance(R6, ok=ok, nontrivial='__getnewargs__')
    if not ok:
        rep.finding(R6, 'C14.R6/__getnewargs__', m.floc(gna), gna.qualname, f'returns {r!r}, not the item\'s spec: unpickling / copying rebuilds another item')
    rep.floor('C14.R6', 'published local classes', n, 1)


def r1(ctx, rep):
    m = ctx.m
    R1 = rep.rule('C14.R1', 'one comparison key drives ==, <, hash; key fields = spec fields; rank first')
    fn = m.func(LEX, 'Lexical.orderitems')
    rep.consult(m.loc(LEX, fn) + ' Lexical.orderitems')
    it = Interp(dict(zip_longest=itertools.zip_longest, starmap=lambda f, x: tuple(itertools.starmap(f, x)), opr=_opr,
                     check=Obj('check', inst=lambda *a: None)), where='lang/lex.py Lexical.orderitems')
    it.g['filter'] = lambda f, x: tuple(filter(f, x))
    tuples = [t for n in range(0, 5 if rep.tier == 'thorough' else 4) for t in itertools.product((0, 1, 2), repeat=n)]
    sign = lambda x: (x > 0) - (x < 0)
    bad = 0
    for a, b in itertools.product(tuples, repeat=2):
        A, B = Obj('a', sort_tuple=a), Obj('b', sort_tuple=b)
        r = it.safe(fn, [A, B])
        n = max(len(a), len(b))
        pa, pb = a + (0,) * (n - len(a)), b + (0,) * (n - len(b))
        want = next((x - y for x, y in zip(pa, pb) if x != y), 0)
        ok = isinstance(r, int) and sign(r) == sign(want)
        rep.instance(R1, ok=ok, nontrivial=('orderitems', a, b) if len(a) + len(b) < 4 else None)
        if not ok:
            bad += 1
            if bad <= 3:
                rep.finding(R1, f'C14.R1/orderitems/{a}/{b}', m.loc(LEX, fn), 'Lexical.orderitems', f'orderitems of keys {a}, {b} is {r!r}; the sign of the first padded difference is {sign(want)}')
    same = Obj('s', sort_tuple=(1, 2))
    ok = it.safe(fn, [same, same]) == 0
    rep.instance(R1, ok=ok, nontrivial='orderitems-identity')
    # constructors, comparison operators, hash and ident folded (sa.lexfold) -- replaces the former text-fragment rules
    from .. import lexfold
    for fold in (lexfold.fold_constructors, lexfold.fold_compare_ops, lexfold.fold_eq_overrides, lexfold.fold_argument):
        res, cons = fold(m)
        rep.consult(*cons)
        seen = set()
        for ok, case, detail in res:
            rep.instance(R1, ok=ok, nontrivial=(fold.__name__, case))
            if not ok:
                k = case.split(' on ')[0].split(':')[0]
                if k in seen:
                    continue
                seen.add(k)
                rep.finding(R1, f'C14.R1/{fold.__name__[5:]}/{k}', cons[0].split(' ')[0] if cons else m.relfile(LEX), fold.__name__[5:], f'{case}: {detail}')
    # Lexical.__hash__ returns the cached key hash
    hh = m.func(LEX, 'Lexical.__hash__')
    ith = Interp({}, where='Lexical.__hash__')
    r = ith.safe(hh, [Obj('item', hash='CACHED')])
    ok = r == 'CACHED'
    rep.instance(R1, ok=ok, nontrivial='__hash__')
    if not ok:
        rep.finding(R1, 'C14.R1/Lexical.__hash__', m.loc(LEX, hh), 'Lexical.__hash__', f'returns {r!r}, not the cached key hash')


def r2(ctx, rep):
    m = ctx.m
    R2 = rep.rule('C14.R2', 'a class that defines __eq__ defines __hash__ in the same body')
    n = 0
    for mod in sorted(m.trees):
        if not (mod.startswith('pytableaux.lang') or mod in ('pytableaux.tools.linked', 'pytableaux.models', 'pytableaux.proof.filters')):
            continue
        for node in ast.walk(m.trees[mod]):
            if not isinstance(node, ast.ClassDef):
                continue
            if mod == 'pytableaux.models' and node.name != 'Mval':
                continue        # Frame / PredicateInterpretation are mutable containers: unhashable on purpose
            names = set()
            for st in node.body:
                if isinstance(st, ast.FunctionDef):
                    names.add(st.name)
                elif isinstance(st, ast.Assign):
                    names |= {t.id for t in st.targets if isinstance(t, ast.Name)}
            if '__eq__' in names:
                n += 1
                ok = '__hash__' in names
                rep.instance(R2, ok=ok, nontrivial=(mod, node.name))
                if not ok:
                    rep.finding(R2, f'C14.R2/{mod}:{node.name}', m.loc(mod, node), node.name, 'defines __eq__ without __hash__: instances become unhashable / hash no longer follows equality')
    rep.floor('C14.R2', 'classes with __eq__', n, 5)


def r3(ctx, rep):
    m = ctx.m
    R3 = rep.rule('C14.R3', 'immutability: stores on lexical instances only during construction; guards installed and switched on')
    allowed_fn = ('__init__', '__new__', '__init_subclass__', '_on_init', '_after_init', '__setattr__', 'wrapper', 'wrapped')
    n = 0
    for qn, fn in astq.all_functions(m.trees[LEX]):
        short = qn.rsplit('.', 1)[-1]
        if '<locals>' in qn and not qn.startswith('metacall'):
            continue
        for t, st in astq.stores(fn, nested=False):
            if isinstance(t, ast.Attribute) and isinstance(t.value, ast.Name) and t.value.id in ('self', 'item', 'inst', 'member', 'a', 'b'):
                n += 1
                ok = short in allowed_fn
                rep.instance(R3, ok=ok, nontrivial=(qn, t.attr))
                if not ok:
                    rep.finding(R3, f'C14.R3/store/{qn}/{t.attr}', m.loc(LEX, st), qn, f'`{astq.u(st)[:50]}` writes an attribute of a lexical item after construction')
    rep.floor('C14.R3', 'attribute stores in lex.py', n, 20)
    # the guards themselves, folded in the state the package is in after lang.init() (sa.lexfold.fold_readonly)
    from .. import lexfold
    res, cons = lexfold.fold_readonly(m)
    rep.consult(*cons)
    for ok, case, detail in res:
        rep.instance(R3, ok=ok, nontrivial=('readonly', case))
        if not ok:
            rep.finding(R3, f'C14.R3/readonly/{case}', m.relfile(LEX), case.split(':')[0], f'{case}: {detail}')
    # Argument: an attribute can be set once
    asa = m.func(COL, 'Argument.__setattr__')
    rep.consult(m.loc(COL, asa) + ' Argument.__setattr__')
    ita = Interp(dict(AttributeError=AttributeError, hasattr=hasattr, super=lambda *a: Obj('super', __setattr__=lambda n_, v_: None)), where='Argument.__setattr__')
    a1 = Obj('argument', title='T')
    r1_ = ita.safe(asa, [a1, 'title', 'OTHER'])
    r2_ = ita.safe(asa, [Obj('argument'), 'title', 'T'])
    ok = isinstance(r1_, Raises) and not isinstance(r2_, Raises)
    rep.instance(R3, ok=ok, nontrivial='Argument.__setattr__')
    if not ok:
        rep.finding(R3, 'C14.R3/Argument.__setattr__', m.loc(COL, asa), 'Argument.__setattr__', f'reassigning an attribute gives {r1_!r}, the first assignment {r2_!r}; expected AttributeError / accepted')
    itc = Interp(dict(id=id), where='Lexical.__copy__')
    cp, dc = m.func(LEX, 'Lexical.__copy__'), m.func(LEX, 'Lexical.__deepcopy__')
    item = Obj('item')
    memo = {}
    ok = itc.safe(cp, [item]) is item and itc.safe(dc, [item, memo]) is item
    rep.instance(R3, ok=ok, nontrivial='copy-is-identity')
    if not ok:
        rep.finding(R3, 'C14.R3/Lexical.__copy__', m.loc(LEX, cp), 'Lexical.__copy__/__deepcopy__', 'copying an (immutable) item no longer returns the item itself')


def r4(ctx, rep):
    m = ctx.m
    R4 = rep.rule('C14.R4', 'construction cache (folded): index and reverse index stay paired, eviction removes every key of the evicted item, bound respected, never raises')
    fns = dict(astq.all_functions(m.trees[LEX]))
    fn = fns.get('metacall.<locals>.DequeCache.__setitem__')
    if fn is None:
        raise AnalysisError('DequeCache.__setitem__ not found in lex.py')
    rep.consult(m.loc(LEX, fn) + ' DequeCache.__setitem__')
    it = Interp({}, where='lang/lex.py DequeCache.__setitem__')
    cache_fns = {qn.rsplit('.', 1)[1]: f for qn, f in fns.items() if qn.startswith('metacall.<locals>.DequeCache.')}
    values = ('A', 'B', 'C')
    keys = {v: [('k1', v), ('k2', v)] for v in values}
    n = 0
    probs = collections.OrderedDict()
    for maxlen in ((0, 1, 2, 3) if rep.tier == 'thorough' else (0, 1, 2)):
        def fresh():
            return Obj('cache', __srcfuncs__=cache_fns, queue=collections.deque(maxlen=maxlen), idx={}, rev={})

        def snapshot(c):
            return (tuple(c.queue), tuple(sorted((repr(k), v) for k, v in c.idx.items())), tuple(sorted((v, tuple(sorted(map(repr, ks)))) for v, ks in c.rev.items())))

        def clone(c):
            d = Obj('cache', __srcfuncs__=cache_fns, queue=collections.deque(c.queue, maxlen=maxlen), idx=dict(c.idx), rev={v: set(ks) for v, ks in c.rev.items()})
            return d
        frontier = [fresh()]
        seen = {snapshot(frontier[0])}
        for depth in range(5 if rep.tier == 'thorough' else 4):
            nxt = []
            for c in frontier:
                for v in values:
                    for k in keys[v] + [v]:
                        d = clone(c)
                        n += 1
                        r = it.safe(fn, [d, k, v])
                        case = f'maxlen={maxlen} state queue={list(c.queue)} set [{k!r}] = {v}'
                        if isinstance(r, Raises):
                            probs.setdefault(f'raises {r.text}', case)
                            continue
                        q, idx, rev = d.queue, d.idx, d.rev
                        if set(q) != set(rev):
                            probs.setdefault('queue and reverse index hold different items', case)
                        if len(rev) > maxlen:
                            probs.setdefault('more items retained than the cache size', case)
                        for kk, vv in idx.items():
                            if vv not in rev or kk not in rev[vv]:
                                probs.setdefault('an index key survives without its reverse entry (stale key after eviction)', case)
                        for vv, ks in rev.items():
                            for kk in ks:
                                if idx.get(kk) != vv:
                                    probs.setdefault('reverse index lists a key the index does not map to the item', case)
                        if maxlen and (idx.get(k) != v or v not in rev):
                            probs.setdefault('the stored key does not map to the stored item', case)
                        s_ = snapshot(d)
                        if s_ not in seen:
                            seen.add(s_)
                            nxt.append(d)
            frontier = nxt
    for i in range(n - len(probs)):
        rep.instance(R4, ok=True, nontrivial=('cache-step', i) if i < 40 else None)
    for p, case in probs.items():
        rep.instance(R4, ok=False, nontrivial=p)
        rep.finding(R4, f'C14.R4/DequeCache.__setitem__/{p}', m.loc(LEX, fn), 'DequeCache.__setitem__', f'{p}; e.g. {case}')
    rep.floor('C14.R4', 'cache steps', n, 300)
    r5(ctx, rep, fns)


def r5(ctx, rep, fns):
    """The construction routine (metacall.call) folded over an empty, a warm and an unrelated cache: what a call returns must not
    depend on the cache.  Constructors are mocks that build an item carrying (class, spec) -- except that, as in the source
    (Predicate.__init__, checked here by folding it), a Predicate with a negative index cannot be constructed: the system
    predicates exist once, in Predicate.System."""
    m = ctx.m
    R5 = rep.rule('C14.R5', 'cache invisibility (metacall.call folded): the same item comes back whether its spec is cached, was never cached or was evicted -- '
                            'system predicates (not constructible) included; a constructed item is stored under (class name, spec) and its ident')
    call = fns.get('metacall.<locals>.call')
    if call is None:
        raise AnalysisError('metacall.call not found in lex.py')
    rep.consult(m.loc(LEX, call) + ' metacall.call')
    # structural fact used by the mock constructor: Predicate.__init__ refuses a negative index once System exists
    pinit = m.func(LEX, 'Predicate.__init__')
    itp = Interp(dict(BiCoords=lambda *a: a, ValueError=lambda *a: 'ValueError', TypeError=lambda *a: 'TypeError'), where='lang/lex.py Predicate.__init__')
    r = itp.safe(pinit, [Obj('pred', arity=2, index=-1, subscript=0, System=True, spec=(-1, 0, 2)), (-1, 0, 2)])
    refuses = isinstance(r, Raises)
    rep.instance(R5, ok=True, nontrivial=('Predicate.__init__ negative index', refuses))
    rep.consult(m.loc(LEX, pinit) + ' Predicate.__init__')

    class Item:
        def __init__(self, clsname, spec):
            self.clsname, self.spec = clsname, spec
            self.ident = (clsname, spec if len(spec) != 1 or not isinstance(spec[0], tuple) else spec[0])

        def __eq__(self, o):
            return isinstance(o, Item) and o.ident == self.ident

        def __hash__(self):
            return hash(self.ident)

        def __repr__(self):
            return f'<{self.clsname}{self.ident[1]}>'

    class Cls:
        def __init__(self, name, abstract=False):
            self.__name__, self.abstract = name, abstract

        def __repr__(self):
            return self.__name__

        def __call__(self, *spec):
            return current['call'](self, *spec)      # constructing through the class goes through metacall.call again
    current = {}
    IDENTITY = Item('Predicate', ((-1, 0, 2),))

    def system(key):
        if key in ('Identity', (-1, 0, 2), (-1, 0), ('Predicate', (-1, 0, 2))):
            return IDENTITY
        raise KeyError(key)
    PredicateC, ConstantC, LexicalAbcC = Cls('Predicate'), Cls('Constant'), Cls('LexicalAbc', abstract=True)
    PredicateC.System = system
    built = []

    def construct(cls, *spec):
        coords = spec[0] if len(spec) == 1 and isinstance(spec[0], tuple) else spec
        if cls.abstract:
            raise TypeError('abstract')
        if cls is PredicateC and refuses and isinstance(coords[0], int) and coords[0] < 0:
            raise ValueError('`index` must be >= 0')
        it_ = Item(cls.__name__, spec)
        built.append(it_)
        return it_

    class LexTypeM:
        def __contains__(self, c):
            return c in (PredicateC, ConstantC)

        def __call__(self, name):
            return Obj('LexType', cls={'Predicate': PredicateC, 'Constant': ConstantC}[name])
    n = 0
    for cls, spec, want in ((ConstantC, (1, 2), Item('Constant', (1, 2))), (ConstantC, ((1, 2),), Item('Constant', ((1, 2),))),
                            (PredicateC, ((0, 0, 1),), Item('Predicate', ((0, 0, 1),))), (PredicateC, ((-1, 0, 2),), IDENTITY),
                            (PredicateC, (-1, 0, 2), IDENTITY), (PredicateC, ('Identity',), IDENTITY),
                            (LexicalAbcC, (('Predicate', (-1, 0, 2)),), IDENTITY), (LexicalAbcC, (('Constant', (1, 2)),), Item('Constant', (1, 2)))):
        outcomes = {}
        for state in ('never cached', 'cached', 'other items cached'):
            cache = {}
            if state == 'cached':
                cache[cls.__name__, spec] = want
                cache[want.ident] = want
                if want is IDENTITY:
                    for k in (('Predicate', ((-1, 0, 2),)), ('Predicate', (-1, 0, 2))):
                        cache[k] = IDENTITY
            elif state == 'other items cached':
                cache['Constant', (3, 3)] = Item('Constant', (3, 3))
            del built[:]
            it = Interp(dict(cache=cache, supercall=lambda c, *sp: construct(c, *sp), Predicate=PredicateC, LexType=LexTypeM(), LexicalAbc=LexicalAbcC,
                             abcs=Obj('abcs', isabstract=lambda c: c.abstract), isinstance=lambda o, t: (isinstance(o, Item) and t in (PredicateC, ConstantC, LexicalAbcC) and (t is LexicalAbcC or o.clsname == t.__name__)) if isinstance(t, Cls) else isinstance(o, t),
                             issubclass=lambda a, b: b is LexicalAbcC or a is b, TypeError=TypeError, KeyError=KeyError, ValueError=ValueError, tuple=tuple, int=int, str=str, len=len),
                        where='lang/lex.py metacall.call')
            current['call'] = lambda c, *sp, it=it: it.call(call, [c, *sp])
            try:
                r = it.call(call, [cls, *spec])
            except Raised as e:
                r = Raises(e.text)
            except (TypeError, KeyError, ValueError, AttributeError) as e:
                r = Raises(f'{type(e).__name__}: {e}')
            outcomes[state] = r
            n += 1
            stored_ok = True
            if built and not isinstance(r, Raises):
                stored_ok = cache.get(r.ident) is r and cache.get((r.clsname, r.spec)) is r
            ok = (not isinstance(r, Raises)) and r == want and stored_ok
            case = f'{cls}{spec} with the spec {state}'
            rep.instance(R5, ok=ok, nontrivial=case)
            if not ok:
                rep.finding(R5, f'C14.R5/{case}', m.loc(LEX, call), 'metacall.call',
                            f'{case}: returns {r!r}, expected {want!r}' + ('' if stored_ok else '; the new item is not stored under its spec key and its ident')
                            + (f' (while it returns {outcomes.get("cached")!r} when cached)' if state != 'cached' and 'cached' in outcomes else ''))
    # rebuilding from idents through an abstract class, one after the other with one cache: items of different concrete types
    # that share their coordinates must each come back as themselves
    VariableC = Cls('Variable')

    class LexTypeSeq:
        def __contains__(self, c):
            return c in (PredicateC, ConstantC, VariableC)

        def __call__(self, name):
            return Obj('LexType', cls={'Predicate': PredicateC, 'Constant': ConstantC, 'Variable': VariableC}[name])
    ParameterC = Cls('Parameter', abstract=True)
    for abstract_cls in (LexicalAbcC, ParameterC):
        cache = {}
        del built[:]
        it = Interp(dict(cache=cache, supercall=lambda c, *sp: construct(c, *sp), Predicate=PredicateC, LexType=LexTypeSeq(), LexicalAbc=LexicalAbcC,
                         abcs=Obj('abcs', isabstract=lambda c: c.abstract),
                         isinstance=lambda o, t: (isinstance(o, Item) and (t.abstract or o.clsname == t.__name__)) if isinstance(t, Cls) else isinstance(o, t),
                         issubclass=lambda a, b: b.abstract or a is b, TypeError=TypeError, KeyError=KeyError, ValueError=ValueError, tuple=tuple, int=int, str=str, len=len),
                    where='lang/lex.py metacall.call')
        current['call'] = lambda c, *sp, it=it: it.call(call, [c, *sp])
        outs = []
        seq = [('Constant', (2, 7)), ('Variable', (2, 7)), ('Constant', (2, 7)), ('Variable', (1, 9)), ('Constant', (1, 9))]
        for ident in seq:
            try:
                r = it.call(call, [abstract_cls, ident])
                outs.append(getattr(r, 'ident', r))
            except Raised as e:
                outs.append(f'raises {e.text}')
            except (TypeError, KeyError, ValueError, AttributeError) as e:
                outs.append(f'raises {type(e).__name__}: {e}')
        n += 1
        ok = outs == seq
        rep.instance(R5, ok=ok, nontrivial=('ident sequence', abstract_cls.__name__))
        if not ok:
            rep.finding(R5, f'C14.R5/ident sequence/{abstract_cls.__name__}', m.loc(LEX, call), 'metacall.call',
                        f'{abstract_cls.__name__}(ident) for the idents {seq} in a row (one cache) gives {outs}: an item rebuilt from its ident is that item, '
                        f'whatever was rebuilt before')
    # specs that are merely *equal* to a cached spec (1.0 == 1, same hash): the constructor refuses a non-int coordinate
    # (CoordsItem.__new__ folded below), so the outcome must be that refusal whether or not the int spec is cached
    cnew = m.func(LEX, 'CoordsItem.__new__')
    rep.consult(m.loc(LEX, cnew) + ' CoordsItem.__new__')

    class InstCheckError(TypeError):
        pass

    def inst_check(v, t):
        if not isinstance(v, t):
            raise InstCheckError(f'expected {t.__name__}, got {type(v).__name__}')
        return v
    import collections as _c
    BiC = _c.namedtuple('BiCoords', 'index subscript')
    BiC.sorting = lambda s_: (s_.subscript, s_.index)
    itn = Interp(dict(object=Obj('object', __new__=lambda c: Obj('item', Coords=BiC, TYPE=Obj('TYPE', maxi=3, rank=20)), __setattr__=setattr),
                      check=Obj('check', inst=inst_check), ValueError=ValueError, TypeError=TypeError, AttributeError=AttributeError, zip=zip),
                 where='lang/lex.py CoordsItem.__new__')
    refuses_nonint = {}
    for bad in (1.0, 2 + 0j):
        try:
            itn.call(cnew, [Obj('cls'), bad, 2])
            refuses_nonint[bad] = False
        except TypeError:
            refuses_nonint[bad] = True
        except (Raised, ValueError, AttributeError) as e:
            raise AnalysisError(f'CoordsItem.__new__ does not fold on a non-int coordinate: {getattr(e, "text", e)}')
    try:
        okint = itn.call(cnew, [Obj('cls'), 1, 2])
    except (Raised, TypeError, ValueError, AttributeError) as e:
        raise AnalysisError(f'CoordsItem.__new__ does not fold on int coordinates: {getattr(e, "text", e)}')
    if all(refuses_nonint.values()):
        for cls, spec, canon in ((ConstantC, (1.0, 2), (1, 2)), (ConstantC, ((1.0, 2),), ((1, 2),)), (PredicateC, ((0.0, 0, 1),), ((0, 0, 1),)), (ConstantC, (1 + 0j, 2), (1, 2))):
            outcomes = {}
            for state in ('never cached', 'the equal int spec cached'):
                cache = {}
                if state != 'never cached':
                    w_ = Item(cls.__name__, canon)
                    cache[cls.__name__, canon] = w_
                    cache[w_.ident] = w_

                def construct2(c, *sp):
                    leaves = sp[0] if len(sp) == 1 and isinstance(sp[0], tuple) else sp
                    if any(not isinstance(x, int) for x in leaves):
                        raise TypeError('non-int coordinate')
                    return construct(c, *sp)
                it = Interp(dict(cache=cache, supercall=construct2, Predicate=PredicateC, LexType=LexTypeM(), LexicalAbc=LexicalAbcC,
                                 abcs=Obj('abcs', isabstract=lambda c: c.abstract), isinstance=lambda o, t: (isinstance(o, Item) and t in (PredicateC, ConstantC, LexicalAbcC) and (t is LexicalAbcC or o.clsname == t.__name__)) if isinstance(t, Cls) else isinstance(o, t),
                                 issubclass=lambda a, b: b is LexicalAbcC or a is b, TypeError=TypeError, KeyError=KeyError, ValueError=ValueError, tuple=tuple, int=int, str=str, len=len),
                            where='lang/lex.py metacall.call')
                try:
                    r = it.call(call, [cls, *spec])
                    outcomes[state] = f'returns {r!r}'
                except TypeError:
                    outcomes[state] = 'raises TypeError'
                except Raised as e:
                    outcomes[state] = f'raises {e.text}'
                except (KeyError, ValueError, AttributeError) as e:
                    outcomes[state] = f'raises {type(e).__name__}'
            n += 1
            ok = len(set(outcomes.values())) == 1
            case = f'{cls}{spec} (equal to the int spec {canon})'
            rep.instance(R5, ok=ok, nontrivial=case)
            if not ok:
                rep.finding(R5, f'C14.R5/non-int spec/{cls}{spec}', m.loc(LEX, call), 'metacall.call',
                            f'{case}: ' + '; '.join(f'{k}: {v}' for k, v in outcomes.items()) + ' -- whether the call is refused depends on what was constructed earlier')
    rep.floor('C14.R5', 'construction calls', n, 24)
