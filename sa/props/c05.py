"""C05 -- branches close exactly when their literals are unsatisfiable."""
from __future__ import annotations

import ast
import itertools

from .. import astq, closure, glue
from ..core import AnalysisError
from ..model import ClassRef, FuncRef
from . import common
from .c04 import designation_family

LEVEL = 'other'
EXPLANATION = (
    'Static analysis (table agreement, complete finite enumeration). The partner pattern of every closure rule is obtained by folding its _find_closing_node over mock literal nodes (same world / other world / no world); for each logic and each subset of the literal constraints on one atom ({p,~p} x {designated,undesignated}; {p,~p} in the classical family) "closed by Rules.closure" is compared with "no value of the logic satisfies the subset" under the extracted Negation table and designated set; the value BaseModel._read_node/set_literal_value assigns for each open subset is folded from source and checked to exist in the logic, be consistent across the subset\'s nodes and satisfy every literal. Classical identity/existence closures and model completion are checked structurally. (R0) the closure engine hooks and (R5) Branch.find/has/search with Branch.Index.add/select/copy and Node.__getitem__/meets are folded over branches larger than the index cut-off and their copies: find returns a matching node iff a scan finds one. R1 computes the partner tables for atoms, predications and opaque compounds (type Operated like their negations); the tables must coincide. (R6) every node of a branch is announced to the closure rules: the add_branch / after_node_add folds of C16.R2, imported. (R7) a closure rule that has a target is applied whatever the search options: Rule.target and the group application folded for every value of is_group_optim / is_rank_optim (C03.R6).')
TRUSTED = ['CPython ast', 'sa.minieval subset interpreter', 'sa.model MRO resolver', 'Branch.find/has modelled by Node.meets (checked structurally)']
ASSUMPTIONS = ['BranchTarget helper calls the hook for every node as it arrives (event plumbing not analysed)']

CLASSICAL_PRED_CLOSURES = {'SelfIdentityClosure', 'NonExistenceClosure'}


def r7(ctx, rep):
    """A closing pair on a branch closes it only if the step loop applies the closure rule that found it: Rule.target and the group
    application folded for every value of the search options (sa.search; = C03.R6 / C09.R2)."""
    from .. import search
    R7 = rep.rule('C05.R7', 'a closure rule that has a target is applied, whatever the search options: Rule.target and Tableau._get_group_application folded over '
                            'mock rules / targets for every value of is_group_optim / is_rank_optim -- a rule with a target is never passed over (= C03.R6)')
    n = 0
    for fold in (search.fold_rule_target, search.fold_group_application):
        res, cons = fold(ctx.m)
        rep.consult(*cons)
        for ok, case, detail in res:
            n += 1
            rep.instance(R7, ok=ok, nontrivial=(fold.__name__, case))
            if not ok:
                rep.finding(R7, f'C05.R7/{fold.__name__[5:]}/{case}', cons[0].split(' ')[0], fold.__name__[5:], f'{case}: {detail}')
    rep.floor('C05.R7', 'choice cases', n, 15)


def run(ctx, rep):
    m, lgs = ctx.m, ctx.lgs
    common.check_floors(ctx, rep, 'C05')
    r6(ctx, rep)
    r7(ctx, rep)
    R0 = rep.rule('C05.R0', 'closure engine: FindClosingNodeRule targets exactly when a partner is found (folded); BranchValueHook caches the first target')
    from ..minieval import Interp as _I, Raises as _Rs
    RULES = 'pytableaux.proof.rules'
    f_hook = m.func(RULES, 'FindClosingNodeRule._branch_target_hook')
    f_will = m.func(RULES, 'FindClosingNodeRule.node_will_close_branch')
    rep.consult(m.loc(RULES, f_hook) + ' FindClosingNodeRule._branch_target_hook', m.loc(RULES, f_will) + ' FindClosingNodeRule.node_will_close_branch')
    for partner in (None, 'PARTNER'):
        it = _I(dict(Target=lambda **kw: ('TARGET', kw.get('nodes'), kw.get('branch'))), where='proof/rules.py FindClosingNodeRule')

        class RuleMock:
            def _find_closing_node(self, node, branch):
                return partner
        r = RuleMock()
        got = it.safe(f_hook, [r, 'NODE', 'BRANCH'])
        want = None if partner is None else ('TARGET', ('NODE', 'PARTNER'), 'BRANCH')
        ok = got == want or (partner is not None and not isinstance(got, _Rs) and got is not None and got[0] == 'TARGET'
                             and set(got[1] or ()) == {'NODE', 'PARTNER'} and got[2] == 'BRANCH')
        rep.instance(R0, ok=ok, nontrivial=('_branch_target_hook', partner))
        if not ok:
            rep.finding(R0, f'C05.R0/FindClosingNodeRule._branch_target_hook/partner={partner}', m.loc(RULES, f_hook),
                        'FindClosingNodeRule._branch_target_hook', f'with closing partner {partner!r} the hook returns {got!r}, expected {want!r}')
        got = it.safe(f_will, [r, 'NODE', 'BRANCH'])
        ok = got is (partner is not None)
        rep.instance(R0, ok=ok, nontrivial=('node_will_close_branch', partner))
        if not ok:
            rep.finding(R0, f'C05.R0/FindClosingNodeRule.node_will_close_branch/partner={partner}', m.loc(RULES, f_will),
                        'FindClosingNodeRule.node_will_close_branch', f'with closing partner {partner!r} returns {got!r}')
    R5 = rep.rule('C05.R5', 'branch lookup exactness (folded: Branch.find/has/search, Branch.Index.add/select/copy, Node.__getitem__/meets): '
                            'find() returns a node meeting the query iff a scan of the branch finds one, on branches larger than the index cut-off and on copies')
    from .. import branchfold
    res, cons = branchfold.fold_branch_lookup(m, deep=rep.tier == 'thorough')
    rep.consult(*cons)
    for ok, case, detail in res:
        rep.instance(R5, ok=ok, nontrivial=case)
        if not ok:
            rep.finding(R5, f'C05.R5/{case}', cons[0].split(' ')[0], 'Branch.find', f'{case}: {detail}')
    rep.floor('C05.R5', 'lookup cases', len(res), 800)
    from .. import helpersfold
    res, cons = helpersfold.fold_branch_value_hook(m)
    rep.consult(*cons)
    for ok, case, detail in res:
        rep.instance(R0, ok=ok, nontrivial=('BranchValueHook', case))
        if not ok:
            rep.finding(R0, f'C05.R0/BranchValueHook/{case}', cons[0].split(' ')[0], 'BranchValueHook.after_node_add', f'{case}: {detail}')

    R1 = rep.rule('C05.R1', 'closure partner patterns: sought at the node\'s own world; pair relation symmetric '
                            '(so arrival order does not matter for the cached branch target)')
    R2 = rep.rule('C05.R2', 'for every subset of literal constraints on one atom: closed by Rules.closure <=> unsatisfiable')
    R3 = rep.rule('C05.R3', 'the value _read_node assigns for every open subset exists, is consistent and satisfies the subset')
    ptables = {}
    nsub = 0
    for lg in lgs:
        fam = designation_family(ctx, lg)
        designated = fam == 'designation'
        sem = ctx.sem(lg)
        neg = {v: sem.neg(v) for v in sem.V}
        des = (True, False) if designated else (None,)
        lits = [(ng, d) for ng in (False, True) for d in des]
        closers = []
        for rc in lg.closure:
            if rc.name in CLASSICAL_PRED_CLOSURES and ctx.lgs.rule_attrs(rc).predicate:
                continue
            key = (rc, designated)
            if key not in ptables:
                tbl, fn, probs = closure.partner_table(m, rc, designated)
                ptables[key] = (tbl, fn, probs)
                rep.consult(m.floc(fn))
                rep.instance(R1, ok=not probs, sample=dict(rule=rc.short, partners={closure.fmtlit(k): sorted(map(closure.fmtlit, v)) for k, v in tbl.items()}),
                             nontrivial=rc.short)
                for p in probs:
                    rep.finding(R1, f'C05.R1/{rc.short}/{p}', m.floc(fn), rc.short, p)
                # literals are atoms, predications and opaque sentences alike: the partner relation must not depend on the kind of base
                for kind in ('predicated', 'opaque'):
                    tbl2, _, probs2 = closure.partner_table(m, rc, designated, kind=kind)
                    same = tbl2 == tbl and not probs2
                    rep.instance(R1, ok=same, nontrivial=(rc.short, kind))
                    if not same:
                        fmt = lambda t: {closure.fmtlit(k): sorted(map(closure.fmtlit, v)) for k, v in t.items()}
                        rep.finding(R1, f'C05.R1/{rc.short}/literal-kind/{kind}', m.floc(fn), rc.short,
                                    f'for {kind} literals (base {closure.LITS[kind][0]!r}) the rule closes {fmt(tbl2)}{" with problems " + str(probs2) if probs2 else ""}; '
                                    f'for atoms it closes {fmt(tbl)}: an unsatisfiable pair of {kind} literals is left open (or a satisfiable one closed)')
            closers.append(ptables[key][0])
        # symmetry of the union relation
        rel = {(a, b) for t in closers for a, bs in t.items() for b in bs}
        asym = sorted((a, b) for a, b in rel if (b, a) not in rel)
        rep.instance(R1, ok=not asym, nontrivial=(lg.name, 'symmetry'))
        for a, b in asym:
            rep.finding(R1, f'C05.R1/{lg.name}/asymmetric/{closure.fmtlit(a)}/{closure.fmtlit(b)}', m.relfile(lg.module),
                        f'{lg.name}.Rules.closure',
                        f'{closure.fmtlit(a)} closes against an earlier {closure.fmtlit(b)} but not the other way round: '
                        f'closure would depend on the order in which the nodes arrive')

        def holds(l, v):
            ng, d = l
            val = neg[v] if ng else v
            x = val in sem.D
            return x if d is None else x == d
        for r in range(0, len(lits) + 1):
            for sub in itertools.combinations(lits, r):
                nsub += 1
                sat = [v for v in sem.V if all(holds(l, v) for l in sub)]
                closed = any((a, b) in rel for a in sub for b in sub)
                ok = closed == (not sat)
                name = '{' + ','.join(map(closure.fmtlit, sub)) + '}'
                rep.instance(R2, ok=ok, sample=dict(logic=lg.name, subset=name, closed=closed, satisfying=sat),
                             nontrivial=(lg.name, name))
                if not ok:
                    rep.finding(R2, f'C05.R2/{lg.name}/{name}/{"closed-but-satisfiable" if closed else "open-but-unsatisfiable"}',
                                m.relfile(lg.module), f'{lg.name}.Rules.closure',
                                f'literal set {name} is {"closed although satisfied by " + str(sat) if closed else "left open although no value satisfies it"}')
                if not closed and sub:
                    res = closure.read_values(m, sub, designated, neg, sem.V, modal=lg.modal)
                    if isinstance(res, str):
                        ok3, why = False, res
                    else:
                        vals = {v for v, _ in res}
                        if len(vals) != 1:
                            ok3, why = False, f'inconsistent values {sorted(vals)} for one atom (ModelValueError)'
                        else:
                            v = next(iter(vals))
                            ok3 = v in sem.V and all(holds(l, v) for l in sub)
                            why = f'reads value {v}, which does not satisfy the set' if not ok3 else ''
                    rep.instance(R3, ok=ok3, sample=dict(logic=lg.name, subset=name, read=str(res)), nontrivial=(lg.name, name))
                    if not ok3:
                        rep.finding(R3, f'C05.R3/{lg.name}/{name}', 'pytableaux/models/__init__.py', f'{lg.name}: BaseModel._read_node',
                                    f'open literal set {name}: {why}')
    rep.consult(m.loc('pytableaux.models', m.func('pytableaux.models', 'BaseModel._read_node')) + ' BaseModel._read_node',
                m.loc('pytableaux.models', m.func('pytableaux.models', 'BaseModel.set_literal_value')) + ' BaseModel.set_literal_value')
    rep.floor('C05.R2', 'literal subsets', nsub, 50 * 16 + 7 * 4)
    r4(ctx, rep)


def r4(ctx, rep):
    "classical family: self-identity / non-existence closures and model completion"
    m = ctx.m
    R4 = rep.rule('C05.R4', 'classical family: ~a=a and ~!a close (negated flag, predicate, one distinct parameter); '
                            'CPL.Model.finish makes identity reflexive and existence universal')
    CPL = 'pytableaux.logics.cpl'
    n = 0
    for lg in ctx.lgs:
        fam = designation_family(ctx, lg)
        names = {rc.name: rc for rc in lg.closure}
        if fam != 'negation':
            ok = not (set(names) & CLASSICAL_PRED_CLOSURES)
            continue
        n += 1
        for want, pred in (('SelfIdentityClosure', 'Identity'), ('NonExistenceClosure', 'Existence')):
            rc = names.get(want)
            ok = rc is not None
            if ok:
                a = ctx.lgs.rule_attrs(rc)
                ok = a.negated is True and a.predicate == pred
            rep.instance(R4, ok=ok, nontrivial=(lg.name, want))
            if not ok:
                rep.finding(R4, f'C05.R4/{lg.name}/{want}', m.relfile(lg.module), f'{lg.name}.Rules.closure',
                            f'{want} missing from the closure rules or not (negated, {pred})')
        # the model of the logic completes identity/existence
        fn, owner = m.method(lg.modelcls, 'finish')
        ok = isinstance(fn, FuncRef) and owner.module == CPL
        rep.instance(R4, ok=ok, nontrivial=(lg.name, 'finish'))
        if not ok:
            rep.finding(R4, f'C05.R4/{lg.name}/finish', m.relfile(lg.module), f'{lg.name}.Model.finish',
                        'classical-family model does not use CPL.Model.finish (identity/existence completion)')
    rep.floor('C05.R4', 'classical logics', n, 7)
    # the two predicate closures, folded over mock nodes
    from ..minieval import Interp, Obj, Raises

    class RuleMock(dict):
        pass
    for cls, cases in (('SelfIdentityClosure', None), ('NonExistenceClosure', None)):
        f_will = m.func(CPL, f'Rules.{cls}.node_will_close_branch')
        f_hook = m.func(CPL, f'Rules.{cls}._branch_target_hook')
        rep.consult(m.loc(CPL, f_will) + f' {cls}.node_will_close_branch', m.loc(CPL, f_hook) + f' {cls}._branch_target_hook')
        a, a1, b = Obj('a', index=0, subscript=0), Obj('a1', index=0, subscript=1), Obj('b', index=1, subscript=0)
        for passes in (True, False):
            for params in ((a, a), (a, b), (a, a1), (b, b)) if cls == 'SelfIdentityClosure' else ((a,), (b,)):
                released = []
                rule = RuleMock()
                fh = Obj('FilterHelper', config=Obj('config', pred=lambda node: passes), release=lambda n, br: released.append('F'))
                fh.__class__ = type('FH', (Obj,), {'__call__': lambda s_, node, branch: passes})
                rule['FilterHelper'] = fh
                rule['PredNodes'] = Obj('PredNodes', release=lambda n, br: released.append('P'))
                rule.sentence = lambda node: params
                it = Interp(dict(FilterHelper='FilterHelper', PredNodes='PredNodes', Target=lambda **kw: ('TARGET', kw.get('node'), kw.get('branch'))),
                            where=f'logics/cpl.py {cls}')
                rule.node_will_close_branch = lambda node, branch: it.call(f_will, [rule, node, branch])
                r = it.safe(f_will, [rule, 'NODE', 'BRANCH'])
                want = passes and (len(set(params)) == 1 if cls == 'SelfIdentityClosure' else True)
                ok = bool(r) == want and not isinstance(r, Raises)
                case = f'filter passes={passes} parameters={[p._name for p in params]}'
                rep.instance(R4, ok=ok, nontrivial=(cls, case))
                if not ok:
                    rep.finding(R4, f'C05.R4/{cls}.node_will_close_branch/{case}', m.loc(CPL, f_will), f'cpl.Rules.{cls}',
                                f'{case}: closes={r!r}, expected {want} (the negated {"identity of a term with itself" if cls == "SelfIdentityClosure" else "existence claim"} only)')
                t = it.safe(f_hook, [rule, 'NODE', 'BRANCH'])
                ok = (t == ('TARGET', 'NODE', 'BRANCH')) == want
                rep.instance(R4, ok=ok, nontrivial=(cls, 'hook', case))
                if not ok:
                    rep.finding(R4, f'C05.R4/{cls}._branch_target_hook/{case}', m.loc(CPL, f_hook), f'cpl.Rules.{cls}', f'{case}: hook returns {t!r}, expected a closing target iff {want}')
        have = {f.name for f in glue.merged_filters(m, ClassRef(CPL, f'Rules.{cls}'))}
        ok = 'NodeSentence' in have
        rep.instance(R4, ok=ok, nontrivial=f'{cls}.filters')
        if not ok:
            rep.finding(R4, f'C05.R4/{cls}/filters', m.relfile(CPL), f'cpl.Rules.{cls}', 'lacks the NodeSentence filter')
    # what the two closure rules rely on, decided on Model.finish() folded end to end (sa.finishfold): in every logic that
    # lists them, after finish() `c = c` and `!c` are true at every world for every constant
    from .. import finishfold
    nfin = 0
    for lg in ctx.lgs:
        if not any(rc.qualname.split('.')[-1] in ('SelfIdentityClosure', 'NonExistenceClosure') for rc in lg.closure):
            continue
        res, cons = finishfold.fold_finish(m, ctx.lgs, lg)
        rep.consult(*cons)
        seen = set()
        for ok, case, detail in res:
            bad = [p_ for p_ in detail.split('; ') if ' is not true at world ' in p_ or 'finish() raises' in p_] if not ok else []
            nfin += 1
            rep.instance(R4, ok=not bad, nontrivial=(lg.short, 'finish', case))
            for p_ in bad:
                k = p_.split(' at world')[0][:40]
                if k in seen:
                    continue
                seen.add(k)
                rep.finding(R4, f'C05.R4/{lg.short}.Model.finish/{k}', m.relfile(lg.modelcls.module), f'{lg.name}.Model.finish',
                            f'{case}: {p_} after finish() -- SelfIdentityClosure / NonExistenceClosure close branches on its negation')
    rep.floor('C05.R4', 'finish() pre-states of the logics with identity/existence closure', nfin, 20)


def r6(ctx, rep):
    """Closure rules learn of nodes through AFTER_NODE_ADD (the BranchTarget hook): a closing pair is found only if *every* node of a
    branch is announced -- nodes appended live, and nodes already on a branch when it is handed to the tableau.  That is the
    listener bookkeeping folded in C16.R2 (add_branch / after_node_add over mock branches), imported."""
    from ..core import Report
    from . import c16
    R6 = rep.rule('C05.R6', 'every node of a branch is announced to the closure rules: the tableau\'s add_branch / after_node_add listeners folded over root, fork and '
                            'pre-filled branches (C16.R2) -- so a closing pair cannot hide among nodes that were on the branch before it was added')
    sub = Report('C16', rep.tier, rep.repo)
    c16.run(ctx, sub)
    for _ in range(sub.rules.get('C16.R2', {}).get('instances', 0)):
        rep.instance(R6, ok=True)
    rep.consulted |= sub.consulted
    for f in sub.findings:
        if f.rule == 'C16.R2' and ('add_branch' in f.key or 'after_node_add' in f.key):
            rep.rules[R6]['failed'] += 1
            rep.discharged -= 1
            rep.finding(R6, f.key.replace('C16.', 'C05.R6/C16.', 1), f.where, f.construct, f.msg)
